#!/venv/bin/python
"""Confirm and store a seeded breaking change produced by a breaker sub-agent.

usage: ingest_seed.py <PROP> <slug> <patch.diff> <demo.py> <notes.txt>

Confirms in a fresh scratch worktree of /repo HEAD (outside /repo and /verif):
  * the patch applies and the library still imports,
  * the demonstration exits 0 without the patch and non-zero with it,
  * every test of the pinned baseline (BASELINE.json stable_pass) still passes with the patch,
then stores /verif/seeded/<PROP>-<slug>/{patch.diff, demo.py, meta.json} and removes the worktree.
"""
import json
import os
import shutil
import subprocess
import sys
import tempfile
import xml.etree.ElementTree as ET

VERIF = os.path.dirname(os.path.dirname(os.path.abspath(__file__)))
PY = '/venv/bin/python'


def run(cmd, cwd=None, env=None, timeout=1800):
    return subprocess.run(cmd, cwd=cwd, env=env, capture_output=True, text=True, timeout=timeout)


def main():
    prop, slug, patch, demo, notes = sys.argv[1:6]
    wt = tempfile.mkdtemp(prefix='ingest-wt-')
    os.rmdir(wt)
    r = run(['git', '-C', '/repo', 'worktree', 'add', '--detach', '-f', wt, 'HEAD'])
    if r.returncode:
        print('worktree failed', r.stderr)
        return 2
    ok = False
    try:
        for f in os.listdir('/repo/regions/_geometry'):
            if f.endswith(('.so', '.c')):
                shutil.copy(os.path.join('/repo/regions/_geometry', f), os.path.join(wt, 'regions/_geometry', f))
        for f in ('version.py', '_version.py'):
            if os.path.exists(os.path.join('/repo/regions', f)):
                shutil.copy(os.path.join('/repo/regions', f), os.path.join(wt, 'regions', f))
        env = dict(os.environ, PYTHONPATH=wt, PYTHONHASHSEED='0', MPLBACKEND='Agg')
        env.pop('REGIONS_VERIF', None)
        demo_copy = os.path.join(wt, '_demo.py')
        src = open(demo).read().replace(os.path.dirname(os.path.dirname(os.path.abspath(patch))), wt)
        open(demo_copy, 'w').write(src)
        d0 = run([PY, demo_copy], cwd=wt, env=env)
        if d0.returncode != 0:
            print('REJECT: demo fails WITHOUT the patch (on current /repo HEAD):', d0.stdout[-600:], d0.stderr[-600:])
            return 1
        cfiles = [f for f in os.listdir(os.path.join(wt, 'regions/_geometry')) if f.endswith('.c')]
        for f in cfiles:
            shutil.copy(os.path.join(wt, 'regions/_geometry', f), os.path.join(wt, 'regions/_geometry', f + '.orig'))
        a = run(['git', '-C', wt, 'apply', '--whitespace=nowarn', os.path.abspath(patch)])
        if a.returncode:
            a = run(['patch', '-p1', '-d', wt, '-i', os.path.abspath(patch)])
            if a.returncode:
                a = run(['patch', '-p0', '-d', wt, '-i', os.path.abspath(patch)])
            if a.returncode:
                print('REJECT: patch does not apply to current HEAD:', a.stdout[-400:], a.stderr[-400:])
                return 1
        cdiff = ''
        for f in cfiles:
            po, pn = os.path.join(wt, 'regions/_geometry', f + '.orig'), os.path.join(wt, 'regions/_geometry', f)
            if open(po).read() != open(pn).read():
                # kernel-level change: rebuild the extension from the modified generated C
                inc = run([PY, '-c', 'import sysconfig, numpy; print(sysconfig.get_paths()["include"]); print(numpy.get_include())']).stdout.split()
                import glob
                so = glob.glob(os.path.join(wt, 'regions/_geometry', f[:-2] + '.*.so'))[0]
                c = run(['gcc', '-O1', '-shared', '-fPIC', '-w'] + ['-I' + i for i in inc] + ['-I' + os.path.join(wt, 'regions/_geometry'), pn, '-o', so, '-lm'])
                if c.returncode:
                    print('REJECT: kernel C does not build', c.stderr[-400:])
                    return 1
                cdiff += run(['diff', '-u', '--label', 'a/regions/_geometry/' + f, '--label', 'b/regions/_geometry/' + f, po, pn]).stdout
            os.unlink(po)
        imp = run([PY, '-c', 'import regions, sys; assert regions.__file__.startswith(sys.argv[1]), regions.__file__', wt], cwd=wt, env=env)
        if imp.returncode:
            print('REJECT: does not import with the patch', imp.stderr[-400:])
            return 1
        d1 = run([PY, demo_copy], cwd=wt, env=env)
        if d1.returncode == 0:
            print('REJECT: demo passes WITH the patch')
            return 1
        # test suite with the patch
        fd, xml = tempfile.mkstemp(suffix='.xml')
        os.close(fd)
        run([PY, '-m', 'pytest', '-q', '-p', 'no:cacheprovider', '--timeout=900', '--continue-on-collection-errors', f'--junitxml={xml}'],
            cwd=wt, env=env, timeout=3600)
        passed = set()
        for tc in ET.parse(xml).getroot().iter('testcase'):
            if not any(ch.tag in ('failure', 'error', 'skipped') for ch in tc):
                passed.add(f"{tc.get('classname')}::{tc.get('name')}")
        os.unlink(xml)
        stable = set(json.load(open('/root/.vp/BASELINE.json'))['stable_pass'])
        missing = sorted(stable - passed)
        if missing:
            print(f'REJECT: {len(missing)} baseline tests no longer pass with the patch, e.g. {missing[:3]}')
            return 1
        # normalised diff relative to the worktree
        diff = run(['git', '-C', wt, 'diff', '--', 'regions']).stdout + cdiff
        out = os.path.join(VERIF, 'seeded', f'{prop}-{slug}')
        os.makedirs(out, exist_ok=True)
        open(os.path.join(out, 'patch.diff'), 'w').write(diff)
        shutil.copy(demo, os.path.join(out, 'demo.py'))
        meta = {'property': prop, 'slug': slug, 'needs': open(notes).read().strip(),
                'confirmed': {'head': run(['git', '-C', '/repo', 'rev-parse', '--short', 'HEAD']).stdout.strip(),
                              'demo_without_patch_rc': d0.returncode, 'demo_with_patch_rc': d1.returncode,
                              'demo_with_patch_tail': (d1.stdout + d1.stderr)[-400:],
                              'baseline_tests_passing_with_patch': len(stable & passed), 'baseline_stable': len(stable),
                              'how': 'tools/ingest_seed.py: fresh git worktree of /repo HEAD under /tmp, kernels copied in, '
                                     'demo run without/with patch, full pytest run with patch compared against BASELINE.json stable_pass'}}
        json.dump(meta, open(os.path.join(out, 'meta.json'), 'w'), indent=1)
        print('STORED', out)
        ok = True
        return 0
    finally:
        run(['git', '-C', '/repo', 'worktree', 'remove', '--force', wt])
        shutil.rmtree(wt, ignore_errors=True)


if __name__ == '__main__':
    sys.exit(main())
