#!/bin/sh
# usage: tools/sweep.sh [tier] [seeds...]   -> runs every claimed check for each seed, prints non-HELD outcomes
tier=${1:-quick}; shift
seeds=${*:-"0 1 2 7 12345"}
cd "$(dirname "$0")/.."
for c in $(cat tools/claimed.txt); do
  for s in $seeds; do
    out=$(VERIF_SEED=$s VERIF_OUT=${SWEEP_OUT:-/tmp/vmon-sweep-out} ./vcheck $c $tier 2>&1)
    rc=$?
    if [ $rc -ne 0 ]; then echo "== $c seed=$s rc=$rc"; echo "$out" | grep -v "^VIOLATION" | tail -6 | cut -c1-400; else echo "ok $c seed=$s $(echo "$out" | grep wall= | sed 's/.*wall=//')"; fi
  done
done
