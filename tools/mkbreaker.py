#!/venv/bin/python
"""Write the prompt for a breaker sub-agent: /tmp/breaker<round>-<PROP>.txt

usage: mkbreaker.py <round> <PROP> [<PROP> ...]

The prompt holds the property text (from properties.jsonl), the scratch worktree path /tmp/wt<round>-<PROP>, the rules
for a seeded change, and the list of change mechanisms already stored for that property (slug + first line of the
breaker's own description from seeded/*/meta.json) so that the new changes differ.  Nothing about /verif's checks.
"""
import glob
import json
import os
import sys

VERIF = os.path.dirname(os.path.dirname(os.path.abspath(__file__)))

GENERIC = (
    "caches/lazyproperty/lru_cache/memoisation making results stale or shared; mutable default arguments; polygon `origin=`/`_vertices`; "
    "in-place `+=`/`<<=`/`.sort()` on a caller's object; angle or size `.value` unit slips; `np.isclose`/`allclose`/`round` tolerances; "
    "integer overflow or int()/trunc/modf/fmod sign errors for negative numbers; truthiness tests (`if x:`) dropping 0/empty values; identity "
    "tests (`is False`); frame attributes (equinox) dropped; unsigned-integer wrap-around; one-element arrays treated as scalars; lat-first or "
    "distorted WCS; `str.splitlines()` / line-boundary characters in strings; whitespace normalisation inside quoted strings; clockwise vs "
    "counter-clockwise vertex order; CD vs PC/CDELT spelling of a WCS; positions exactly on the equator / prime meridian; `~` on Python bools "
    "(point-like operands of compounds); integer images beyond 2**53; sky positions the WCS cannot project (NaN pixels); None-valued metadata "
    "entries; empty slices/lists sharing storage; Decimal/Fraction/float16 numeric types; matplotlib keyword aliases (ha/va/size/lw/ec); "
    "Fortran-ordered/strided/read-only arrays (`ravel(order='K')`); hidden settings of the wcslib object; shared module-level iterators/templates; algebraically equivalent rewrites that cancel badly far from the "
    "origin (`a + (b - a)`, projecting before subtracting); compound operators other than `operator.and_/or_/xor`; samples exactly on an outline "
    "(integer radii, Pythagorean offsets); strip/tile processing of very large masks; results that alias internal arrays; annulus holes with equal "
    "axes; sky annulus vs its two outlines; properties of hand-written DS9 text dropped on re-serialisation; strings that look like template "
    "placeholders (RAD, FMT, {0}); points exactly on pixel edges (round-half-even); grouping of nested compounds; keys valid in both meta and "
    "visual; one-shot iterators as list arguments; combinations of matplotlib keywords; strings containing the closing delimiter; a compound of a region with itself / concentric "
    "operands; optional arguments documented as ignored (`subpixels` with mode='exact'); shapes much smaller than a pixel; zero-size N-D queries; "
    "polygons that revisit a vertex; parse -> edit -> serialise histories; empty strings; overwriting a longer file; warnings on `write()` vs "
    "`serialize()`; a failed write that leaves a file; user tables with upper-case names / column descriptions; DS9 GUI flags (rotate, move, fixed) "
    "affecting geometry; `copy(field=X)` adopting X's meta; globally enabled astropy unit equivalencies; `__setitem__` / slice assignment on "
    "Regions; a caller keyword whose value is 'green'; reassigned regular-polygon attributes; boolean Python lists as index; integer-typed "
    "coordinates in rotations; integer count weights; WCS.pixel_shape; NumPy scalar centres (float32); excluded regions' masks; exactly square "
    "rectangles; mask boxes in exact/subpixel mode; weights given as lists; pickled / copied masks; scalar SkyCoord queries; nested bounding boxes of "
    "non-nested operands; repeated tags; `Regions.read` vs `Regions.parse`; `RegionMeta(mapping, **overrides)`; `plot()` vs `as_artist()`; "
    "`pathlib.Path` destinations; insertion order of meta entries; `copy(meta=None)`; Python-int limits in `from_float`; simultaneous iterations; "
    "reversed slices; balanced bow-tie polygons (zero signed area); large subpixel counts; scaled dimensionless units (percent); rotation about an "
    "operand's own centre; sky compounds of operands in different frames; `global` defaults parsed differently from inline keys; the `header=` "
    "argument; angles below 1e-8 rad about distant pivots; text regions' visual rotation; parent vs derived class equality; augmented "
    "assignment (`*=`) on Quantity attributes; keyword values None; aspect ratios above 1e13 and sizes near 1e-170 / 1e160; compounds with a point/line/text operand; "
    "integer/bool `dtype=` of `to_image`; complex images; oblique CAR (CRVAL2 != 0); converted regions sharing list-valued entries; centres with a "
    "distance; centres exactly at CRVAL; exponent-notation and leading-dot numbers; labels containing ', key=value'; columns padded to a common "
    "width; empty region lists; rotation by exactly 0; `transform=` keyword; Latitude/Longitude angle objects; x and y arrays of different dtypes; "
    "masks above 2**15 pixels; attributes re-assigned by a tiny step (`==`/allclose shortcuts); images / data masks given as nested lists; "
    "N-D SkyCoord queries; sky polygons with edges of tens of degrees; APE-14 WCS objects that are not astropy.wcs.WCS (sliced cubes); pixel "
    "scale taken at the reference pixel instead of locally; compound operands whose boxes share exactly one pixel column; SkyCoords held in "
    "hourangle/radians; format keywords (background, source, ...) as words inside labels/tags; '#' inside quoted values; big-endian tables read "
    "from FITS files; anything depending on the wall clock; zero-length lines; `__getstate__`/`__ne__` hooks; NaN sizes; block-wise processing of very long queries; defects in `contains` seen only through "
    "mask-vs-contains comparisons; `subpixels=1`; round axis ratios (100); query positions in another equinox of the same frame class; slit-like "
    "rectangles (aspect >= 8); `numpy.bool_` flags; `write()` losing options that `serialize()` honours; MaskedArray images; capital letters in file "
    "names; `rotate(center=..., angle=...)` by keyword; x/y of equal size but different shapes; stale private flags on copied bounding boxes; "
    "module-level 'warn once' sets; astropy global equivalencies enabled without `with`; np.ogrid-style open-grid queries; parallelograms taken for "
    "rectangles; a mask object modified by being used; zero-area polygons; white space inside parentheses; NumPy print options / other process-wide "
    "settings; non-float64 query coordinates re-typed in place; `~` in file names; N-D `PixCoord.rotate`; exchanged compound operands; alias keys "
    "(`width`, `point`) through `update`; plot origins with one zero component; annulus holes exactly similar to the outline; needle shapes (aspect >= 1e5); int-typed sizes reassigned to "
    "floats; vertices on the line y = x; mirrored-parity WCS in one direction only; `fill=`; range limits with many digits; Cartesian-representation "
    "SkyCoords; rewriting identical content; stacked file extensions (.reg.fits); 0-d arrays as sizes; `|=` with a Meta object of the other kind; scalar queries on a vertex's row; long thin oblique ellipses (exact mode); "
    "augmented operators (`^=`) and `copy(operator=)`; tags in a tuple; colon notation in the latitude slot; ROTANG cells of unrotated rows; `==` "
    "writing defaults into an operand; constructors normalising the caller's RegionMeta in place; plain text under a `.gz` name; queries that write "
    "into meta (`setdefault`); `copy(**changes)` sharing the unchanged fields; wrong exception type for invalid compound operands; positional "
    "`origin`; the Arrow `width=` keyword.")

LEFT = (
    "Think about what is LEFT: e.g. the order in which two independent features are applied; behaviour at the exact edge of a documented domain "
    "(smallest/largest allowed value, empty-but-valid input, exactly-coincident points, zero-length line, zero-area polygon, 360-degree wrap, "
    "poles, antimeridian / RA 0h wrap); swapped roles of two same-typed arguments on a rarely used path; a default value of an optional argument "
    "changed for one class only; a subclass that should override a method but inherits the wrong one (or a base-class method that hard-codes one "
    "subclass); error handling that swallows an exception and returns something plausible; an early-return shortcut for a 'trivial' case that is "
    "not trivial (identity rotation, zero offset, equal operands, single-element list, full overlap, include=True); results that are views of / "
    "share objects with their inputs or with each other; an option honoured by `serialize` but not by `write` (or by `Region.x` but not "
    "`Regions.x`); nested structures (compound of compounds, list inside a list, global+local+composite metadata precedence); dict-ordering or "
    "duplicate keys; interaction with `copy.copy` / `copy.deepcopy` / pickle / `repr`; NumPy dtype object/str/bool/complex inputs; "
    "`np.ndarray` subclasses (Quantity, masked arrays); very large or very small magnitudes (1e-300, 1e300, subnormals, -0.0); "
    "Python-level changes that reroute a call to a different (but similar) kernel function or pass its arguments in another order.")


def main():
    rnd = sys.argv[1]
    props = {json.loads(l)['id']: json.loads(l) for l in open(os.path.join(VERIF, 'properties.jsonl'))}
    for pid in sys.argv[2:]:
        p = props[pid]
        wt = f'/tmp/wt{rnd}-{pid}'
        known = []
        for d in sorted(glob.glob(os.path.join(VERIF, 'seeded', pid + '-*'))):
            m = json.load(open(os.path.join(d, 'meta.json')))
            first = ' '.join(m['needs'].split())[:170]
            known.append(f" - {m['slug']}: {first}")
        txt = f"""You are testing how well a (hidden) verification harness detects regressions in the Python library astropy/regions. You work ONLY inside the scratch git worktree {wt} (a checkout of the library with its compiled kernels copied in). Do not read or touch /verif or /repo, and do not use the network.

The property the library is supposed to satisfy:

{p['title']}

Statement: {p['statement']}

Holds for: {p['quantifier']['text']}


Your job: produce TWO independent source changes (different mechanisms, each a small realistic edit to files under {wt}/regions, not to tests) such that each one
 (a) BREAKS the property above,
 (b) still imports/compiles, and the library's existing test suite still passes exactly as before: run `cd {wt} && PYTHONPATH={wt} /venv/bin/python -m pytest -q -p no:cacheprovider --timeout=900 --continue-on-collection-errors 2>&1 | tail -3` - the unmodified tree gives "6 failed, 1010 passed, 15 skipped, 2 errors" (those failures/errors are pre-existing matplotlib/pytest deprecation issues); your changed tree must give exactly the same counts (only Python files can be changed: there is no Cython, so .pyx edits have no effect),
 (c) is NOT exposed at once by ordinary use: it needs something specific to manifest - an unusual but legitimate input (a particular alignment, unit, dtype, shape, magnitude, flag value), a multi-step sequence of operations, a particular history, or two cooperating sites that each look fine alone. Think like a plausible bug a maintainer could introduce in a refactoring (wrong branch for an edge case, lost flag on one code path, unit slip for one unit, off-by-one at one alignment, aliasing instead of copying, state leaking between calls ...), not sabotage code such as `if x == 12345`.
For each change also write a demonstration: a small standalone Python program that exits 0 on the unmodified tree and exits non-zero (failed assertion) with the change applied, run as `PYTHONPATH={wt} /venv/bin/python demo.py`.

Changes of this kind are ALREADY KNOWN for this property; produce two changes with DIFFERENT mechanisms, different code sites and different trigger conditions:
{chr(10).join(known)}
Also avoid these generic families, already known across properties: {GENERIC}
{LEFT}

Do NOT use `git stash` (shared between parallel workers).

Deliverables (create these files):
  {wt}/_out/change1.diff   (output of `git -C {wt} diff -- regions` with only change 1 applied)
  {wt}/_out/demo1.py
  {wt}/_out/change1.txt    (2-6 lines: what it breaks, what it needs in order to manifest, what you ran)
  and the same for change2.
Work one change at a time: apply it, run the test suite and the demo, save the diff, then `git -C {wt} checkout -- regions` to restore before starting the next; verify the demo passes on the restored tree. Leave the worktree restored (unmodified) at the end. Your final message: a short summary of the two changes (for each: a 3-6 word slug, the mechanism, the trigger).
"""
        out = f'/tmp/breaker{rnd}-{pid}.txt'
        open(out, 'w').write(txt)
        print(out, len(known), 'known')


if __name__ == '__main__':
    main()
