#!/bin/sh
# Run the repository's own pinned suite with the hooks guard off.
cd /repo && env -u REGIONS_VERIF /venv/bin/python -m pytest -ra -q -p no:cacheprovider --timeout=900 --continue-on-collection-errors "$@"
