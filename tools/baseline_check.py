#!/venv/bin/python
"""Run the repository's pinned suite (hooks guard off) and compare with
/root/.vp/BASELINE.json's stable_pass list.  exit 0 iff every stable test passes."""
import json, os, subprocess, sys, tempfile
import xml.etree.ElementTree as ET
base = json.load(open('/root/.vp/BASELINE.json'))
stable = set(base['stable_pass'])
fd, path = tempfile.mkstemp(suffix='.xml'); os.close(fd)
env = dict(os.environ); env.pop('REGIONS_VERIF', None)
subprocess.run(['/venv/bin/python', '-m', 'pytest', '-q', '-p', 'no:cacheprovider', '--timeout=900',
                '--continue-on-collection-errors', f'--junitxml={path}'] + sys.argv[1:], cwd='/repo', env=env,
               stdout=subprocess.DEVNULL, stderr=subprocess.DEVNULL)
passed = set()
for tc in ET.parse(path).getroot().iter('testcase'):
    if not any(ch.tag in ('failure', 'error', 'skipped') for ch in tc):
        passed.add(f"{tc.get('classname')}::{tc.get('name')}")
os.unlink(path)
missing = sorted(stable - passed)
print(f'stable_pass={len(stable)} passed_now={len(passed)} stable_not_passing={len(missing)}')
for m in missing[:20]:
    print('  NOT PASSING:', m)
sys.exit(1 if missing else 0)
