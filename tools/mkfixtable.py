#!/venv/bin/python
"""Rewrite the 'Repaired' table of DESIGN.md section 6 from KNOWN_FINDINGS.txt (fixed: lines)."""
import os
import re

V = os.path.dirname(os.path.dirname(os.path.abspath(__file__)))
rows = []
for l in open(os.path.join(V, 'KNOWN_FINDINGS.txt')):
    m = re.match(r'fixed: property=(C\d+) (\w+) (.*)', l.rstrip('\n'))
    if m:
        rows.append('| %s | `%s` | %s |' % (m.group(1), m.group(2), m.group(3).replace('|', '\\|')))
p = os.path.join(V, 'DESIGN.md')
s = open(p).read()
i = s.index('| property | commit | what failed |')
j = re.search(r'\*\*Known findings \(\d+;', s).start()
s = s[:i] + '| property | commit | what failed |\n|---|---|---|\n' + '\n'.join(rows) + '\n\n' + s[j:]
s = re.sub(r'\*\*Repaired \(\d+ `fix:` commits', '**Repaired (%d `fix:` commits' % len(rows), s)
open(p, 'w').write(s)
print(len(rows), 'fixed rows')
