#!/bin/sh
# usage: tools/sweep_list.sh <tier> <seed> <check> [<check> ...]   -> like sweep.sh, for the named checks only
tier=$1; seed=$2; shift 2
cd "$(dirname "$0")/.."
for c in "$@"; do
  out=$(VERIF_SEED=$seed VERIF_OUT=${SWEEP_OUT:-/tmp/vmon-sweep-out} ./vcheck $c $tier 2>&1)
  rc=$?
  if [ $rc -ne 0 ]; then echo "== $c seed=$seed rc=$rc"; echo "$out" | grep -v "^VIOLATION" | tail -6 | cut -c1-400; else echo "ok $c seed=$seed $(echo "$out" | grep wall= | sed 's/.*wall=//')"; fi
done
