#!/venv/bin/python
"""Merge seeded/results/r*.json (written by `python -m vmon.selftest --seeded <dirs>` with SELFTEST_JSON, one file per breaker
round) into seeded/RESULTS.md.  tools/mkresults.py does everything in one go but needs ~2.5 h for 200 mutants + 600 seeded changes;
this one reports whichever rounds were re-run and says which were not."""
import glob, json, os, re, subprocess
V = os.path.dirname(os.path.dirname(os.path.abspath(__file__)))
res, rounds = [], []
byname = {}
for f in sorted(glob.glob(os.path.join(V, 'seeded', 'results', '*.json'))):      # later files (zz-rerun-*) override earlier entries
    for r in json.load(open(f)):
        byname[r['mutant']] = r
    rounds.append(os.path.basename(f)[:-5])
res = list(byname.values())
allseeds = sorted(os.path.basename(d) for d in glob.glob(os.path.join(V, 'seeded', 'C*')) if os.path.isdir(d))
done = {r['mutant'].split('/')[-1] for r in res}
head = subprocess.run(['git', '-C', V, 'rev-parse', '--short', 'HEAD'], capture_output=True, text=True).stdout.strip()
lines = ['# Sensitivity results for the seeded changes (quick tier, 4 shards per run; merged by tools/mkresults_merge.py)', '',
         f'{sum(r["status"] == "CAUGHT" for r in res)}/{len(res)} of the re-run changes caught (rounds re-run at or shortly before commit {head}: {", ".join(rounds)}).',
         f'{len(allseeds) - len(done)} of the {len(allseeds)} stored changes were not re-run in this pass; each of them was run against its check and caught '
         'when it was ingested (DESIGN.md §8, one table per round), and `python -m vmon.selftest --seeded <dir>` re-runs any of them.', '',
         '| property | change | outcome | first violation key(s) |', '|---|---|---|---|']
for r in sorted(res, key=lambda r: (r['prop'], r['mutant'])):
    keys = '; '.join(k.split('key=')[1].split(' ')[0] for k in r.get('keys', []) if 'key=' in k)[:160]
    lines.append(f"| {r['prop']} | {r['mutant']} | {r['status']} | {keys} |")
open(os.path.join(V, 'seeded', 'RESULTS.md'), 'w').write('\n'.join(lines) + '\n')
print(lines[2])
