#!/bin/sh
# Offline setup: optional contract libraries beside the repository's interpreter.
cd "$(dirname "$0")/.." || exit 1
if [ ! -d .deps/icontract ]; then
  PIP_NO_INDEX=1 /venv/bin/pip install -q --no-index --find-links /opt/veriftools/wheels --target .deps icontract deal >/dev/null 2>&1 \
    || echo "note: icontract/deal not installed; hand-written wrappers are used instead"
fi
/venv/bin/python -c "import sys; sys.path.insert(0,'/repo'); import regions, numpy; print('setup ok: regions', regions.__version__)"
