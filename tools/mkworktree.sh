#!/bin/sh
# usage: mkworktree.sh <name> [prefix]  -> /tmp/<prefix><name>: scratch git worktree of /repo HEAD with the built kernels copied in
set -e
d=/tmp/${2:-wt-}$1
git -C /repo worktree add --detach -f "$d" HEAD >/dev/null 2>&1
cp /repo/regions/_geometry/*.so /repo/regions/_geometry/*.c "$d/regions/_geometry/" 2>/dev/null || true
[ -f /repo/regions/version.py ] && cp /repo/regions/version.py "$d/regions/" || true
[ -f /repo/regions/_version.py ] && cp /repo/regions/_version.py "$d/regions/" || true
mkdir -p "$d/_out"
echo "$d"
