#!/venv/bin/python
"""Regenerate /verif/MANIFEST.json from the check modules that exist."""
import importlib
import json
import os
import sys

VERIF = os.path.dirname(os.path.dirname(os.path.abspath(__file__)))
sys.path.insert(0, VERIF)

props = [json.loads(l) for l in open(os.path.join(VERIF, 'properties.jsonl'))]
checks, na = [], []
NA_REASONS = {}
na_file = os.path.join(VERIF, 'tools', 'not_applicable.json')
if os.path.exists(na_file):
    NA_REASONS = json.load(open(na_file))
for p in props:
    pid = p['id']
    path = os.path.join(VERIF, 'vmon', 'checks', pid.lower() + '.py')
    claimed = open(os.path.join(VERIF, 'tools', 'claimed.txt')).read().split()
    if pid in NA_REASONS or not os.path.exists(path) or pid not in claimed:
        na.append({'property_id': pid, 'reason': NA_REASONS.get(pid, 'check not built yet in this round; not claimed')})
        continue
    mod = importlib.import_module('vmon.checks.' + pid.lower())
    checks.append({
        'property_id': pid,
        'quick_cmd': f'./vcheck {pid} quick',
        'thorough_cmd': f'./vcheck {pid} thorough',
        'evidence_file': f'/verif/evidence/{pid}.json',
        'replay_cmd_template': f'./vcheck {pid} --replay {{path}}',
        'engine': 'vmon',
        'level_claimed': {'category': mod.LEVEL,
                          'text': getattr(mod, 'LEVEL_TEXT', 'Runtime monitoring: held on the executions observed (counts in the evidence file); nothing is proved.'),
                          'design_ref': f'DESIGN.md section 4 ({pid})'},
        'level_note': getattr(mod, 'LEVEL_NOTE', '; '.join(getattr(mod, 'ASSUMPTIONS', []))),
        'technique': getattr(mod, 'TECHNIQUE', 'runtime monitoring: oracle-checked wrappers on the real API under generated hostile workloads'),
    })
manifest = {
    'version': 1,
    'setup_cmd': 'sh tools/setup.sh',
    'hooks': {'guard': 'REGIONS_VERIF', 'enable': 'none needed: all monitors are installed from the harness by wrapping; /repo carries no hook code',
              'baseline_off_cmd': '/verif/tools/baseline_check.py', 'source_commits': [], 'add_only': True},
    'engines': [{'name': 'vmon', 'path': '/verif/vmon', 'serves_properties': [c['property_id'] for c in checks],
                 'kind_free_text': 'runtime monitors (wrappers + independent oracles) driven by seeded workload generators in sharded worker subprocesses; ASan/UBSan lane for the C kernels'}],
    'checks': checks,
    'not_applicable': na,
    'notes': 'Every verdict reads "held on what was observed"; see evidence/<id>.json for the counts. Exit 2 = inconclusive.',
}
json.dump(manifest, open(os.path.join(VERIF, 'MANIFEST.json'), 'w'), indent=1)
try:
    import jsonschema
    jsonschema.validate(manifest, json.load(open('/root/.vp/MANIFEST.schema.json')))
    print('MANIFEST.json valid;', len(checks), 'checks,', len(na), 'not claimed')
except ImportError:
    print('MANIFEST.json written (jsonschema not available to validate);', len(checks), 'checks')
