"""Anchor-reached evidence: which anchored source lines actually executed.

Uses sys.monitoring (3.12) LINE events; the callback records the line and
returns DISABLE, so the cost is one event per distinct code location.
"""
import json
import os
import re
import sys

_TOK = re.compile(r'([\w/\.\-]+\.(?:pyx|py)):\s*(\d+(?:-\d+)?(?:,\s*\d+(?:-\d+)?)*)')

TOOL_ID = 3


def load_property(prop, path=None):
    path = path or os.path.join(os.path.dirname(os.path.dirname(os.path.abspath(__file__))), 'properties.jsonl')
    for line in open(path):
        rec = json.loads(line)
        if rec['id'] == prop:
            return rec
    raise KeyError(prop)


def parse_where(where, files):
    """-> list of (relative file, lo, hi)."""
    out = []
    lastdir = None
    for m in _TOK.finditer(where):
        f, ranges = m.group(1), m.group(2)
        if '/' in f:
            lastdir = os.path.dirname(f)
        else:
            cand = [x for x in files if os.path.basename(x) == f]
            if lastdir and os.path.join(lastdir, f) in files:
                f = os.path.join(lastdir, f)
            elif cand:
                f = cand[0]
            elif lastdir:
                f = os.path.join(lastdir, f)
        for r in re.split(r',\s*', ranges):
            if not r:
                continue
            lo, _, hi = r.partition('-')
            out.append((f, int(lo), int(hi or lo)))
    return out


class AnchorCoverage:
    def __init__(self, prop, repo):
        rec = load_property(prop)
        self.mech = []           # (name, [(absfile, lo, hi)])
        self.files = set()
        files = rec['anchors']['files']
        for m in rec['anchors']['mechanism']:
            rs = [(os.path.join(repo, f), lo, hi) for f, lo, hi in parse_where(m.get('where', ''), files)]
            self.mech.append((m['name'], rs))
            for f, _, _ in rs:
                if f.endswith('.py'):
                    self.files.add(f)
        self.hit = {}            # file -> set(lines)
        self.active = False

    def start(self):
        mon = getattr(sys, 'monitoring', None)
        if mon is None:
            return
        try:
            mon.use_tool_id(TOOL_ID, 'vmon-anchors')
        except ValueError:
            return
        files = self.files
        hit = self.hit
        DISABLE = mon.DISABLE

        def on_line(code, line):
            fn = code.co_filename
            if fn in files:
                hit.setdefault(fn, set()).add(line)
            return DISABLE

        mon.register_callback(TOOL_ID, mon.events.LINE, on_line)
        mon.set_events(TOOL_ID, mon.events.LINE)
        self.active = True

    def stop(self):
        if not self.active:
            return
        mon = sys.monitoring
        mon.set_events(TOOL_ID, 0)
        mon.register_callback(TOOL_ID, mon.events.LINE, None)
        mon.free_tool_id(TOOL_ID)
        self.active = False

    def report(self):
        out = []
        for name, rs in self.mech:
            reached = 0
            span = 0
            pyx = False
            for f, lo, hi in rs:
                if not f.endswith('.py'):
                    pyx = True
                    continue
                span += hi - lo + 1
                reached += len([ln for ln in self.hit.get(f, ()) if lo <= ln <= hi])
            out.append({'mechanism': name, 'lines_reached': reached,
                        'lines_in_ranges': span, 'has_pyx_anchor': pyx,
                        'python_ranges': len([1 for f, _, _ in rs if f.endswith('.py')])})
        return out


def merge_reports(reports):
    merged = {}
    order = []
    for rep in reports:
        for m in rep:
            k = m['mechanism']
            if k not in merged:
                merged[k] = dict(m)
                order.append(k)
            else:
                merged[k]['lines_reached'] = max(merged[k]['lines_reached'], m['lines_reached'])
    return [merged[k] for k in order]
