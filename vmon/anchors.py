"""Anchor-reached evidence: which anchored source lines actually executed.

Uses sys.monitoring (3.12) LINE events; the callback records the line and
returns DISABLE, so the cost is one event per distinct code location.
"""
import json
import os
import re
import sys

_TOK = re.compile(r'([\w/\.\-]+\.(?:pyx|py)):\s*(\d+(?:-\d+)?(?:,\s*\d+(?:-\d+)?)*)')

TOOL_ID = 3


def load_property(prop, path=None):
    path = path or os.path.join(os.path.dirname(os.path.dirname(os.path.abspath(__file__))), 'properties.jsonl')
    for line in open(path):
        rec = json.loads(line)
        if rec['id'] == prop:
            return rec
    raise KeyError(prop)


def parse_where(where, files):
    """-> list of (relative file, lo, hi)."""
    out = []
    lastdir = None
    for m in _TOK.finditer(where):
        f, ranges = m.group(1), m.group(2)
        if '/' in f:
            lastdir = os.path.dirname(f)
        else:
            cand = [x for x in files if os.path.basename(x) == f]
            if lastdir and os.path.join(lastdir, f) in files:
                f = os.path.join(lastdir, f)
            elif cand:
                f = cand[0]
            elif lastdir:
                f = os.path.join(lastdir, f)
        for r in re.split(r',\s*', ranges):
            if not r:
                continue
            lo, _, hi = r.partition('-')
            out.append((f, int(lo), int(hi or lo)))
    return out


BASE_SHA_FILE = '/root/.vp/repo_root_sha'
_oldsrc_cache = {}


def _base_source(relfile):
    """Lines of the file at the commit the anchors' line numbers refer to."""
    if relfile in _oldsrc_cache:
        return _oldsrc_cache[relfile]
    lines = None
    try:
        import subprocess
        sha = open(BASE_SHA_FILE).read().strip() if os.path.exists(BASE_SHA_FILE) else None
        if not sha:
            sha = subprocess.run(['git', '-C', '/repo', 'rev-list', '--max-parents=0', 'HEAD'], capture_output=True,
                                 text=True, timeout=20).stdout.split()[0]
        out = subprocess.run(['git', '-C', '/repo', 'show', f'{sha}:{relfile}'], capture_output=True, text=True, timeout=20)
        if out.returncode == 0:
            lines = out.stdout.splitlines()
    except Exception:
        lines = None
    _oldsrc_cache[relfile] = lines
    return lines


def map_range(relfile, absfile, lo, hi):
    """Anchored line numbers refer to the pinned snapshot; the tree may have
    moved since (fix: commits).  Map [lo, hi] to the current file's lines."""
    old = _base_source(relfile)
    try:
        new = open(absfile).read().splitlines()
    except OSError:
        return set()
    if old is None or old == new:
        return set(range(lo, hi + 1))
    import difflib
    sm = difflib.SequenceMatcher(a=old, b=new, autojunk=False)
    out = set()
    for a, b, n in sm.get_matching_blocks():
        for k in range(n):
            if lo <= a + k + 1 <= hi:
                out.add(b + k + 1)
    return out


class AnchorCoverage:
    def __init__(self, prop, repo):
        rec = load_property(prop)
        self.mech = []           # (name, [(absfile, set(current lines))])
        self.files = set()
        files = rec['anchors']['files']
        for m in rec['anchors']['mechanism']:
            rs = []
            for f, lo, hi in parse_where(m.get('where', ''), files):
                absf = os.path.join(repo, f)
                lines = map_range(f, absf, lo, hi) if f.endswith('.py') else set()
                rs.append((absf, lines, hi - lo + 1))
            self.mech.append((m['name'], rs))
            for f, _, _ in rs:
                if f.endswith('.py'):
                    self.files.add(f)
        self.hit = {}            # file -> set(lines)
        self.active = False

    def start(self):
        mon = getattr(sys, 'monitoring', None)
        if mon is None:
            return
        try:
            mon.use_tool_id(TOOL_ID, 'vmon-anchors')
        except ValueError:
            return
        files = self.files
        hit = self.hit
        DISABLE = mon.DISABLE

        def on_line(code, line):
            fn = code.co_filename
            if fn in files:
                hit.setdefault(fn, set()).add(line)
            return DISABLE

        mon.register_callback(TOOL_ID, mon.events.LINE, on_line)
        mon.set_events(TOOL_ID, mon.events.LINE)
        self.active = True

    def stop(self):
        if not self.active:
            return
        mon = sys.monitoring
        mon.set_events(TOOL_ID, 0)
        mon.register_callback(TOOL_ID, mon.events.LINE, None)
        mon.free_tool_id(TOOL_ID)
        self.active = False

    def report(self):
        out = []
        for name, rs in self.mech:
            reached = 0
            span = 0
            pyx = False
            for f, lines, n in rs:
                if not f.endswith('.py'):
                    pyx = True
                    continue
                span += n
                reached += len(lines & self.hit.get(f, set()))
            out.append({'mechanism': name, 'lines_reached': reached,
                        'lines_in_ranges': span, 'has_pyx_anchor': pyx,
                        'python_ranges': len([1 for f, _, _ in rs if f.endswith('.py')])})
        return out


def merge_reports(reports):
    merged = {}
    order = []
    for rep in reports:
        for m in rep:
            k = m['mechanism']
            if k not in merged:
                merged[k] = dict(m)
                order.append(k)
            else:
                merged[k]['lines_reached'] = max(merged[k]['lines_reached'], m['lines_reached'])
    return [merged[k] for k in order]
