"""Suite-as-workload lane: the repository's own tests run with the monitors on."""
import json
import os
import subprocess
import tempfile


def run_suite_lane(prop, which, timeout=1800):
    """-> dict for runner.conclude(): report + violations observed by the monitors while the suite ran."""
    repo = os.environ.get('VERIF_REPO', '/repo')
    verif = os.path.dirname(os.path.dirname(os.path.abspath(__file__)))
    if not os.path.isdir(os.path.join(repo, 'regions', 'shapes', 'tests')):
        return {'report': {'suite_lane': {'status': 'skipped', 'reason': 'tree has no tests (scratch copy)'}}}
    fd, out = tempfile.mkstemp(suffix='.json', prefix='vmon-suite-')
    os.close(fd)
    try:
        env = dict(os.environ, VMON_SUITE_OUT=out, VMON_SUITE_MONITORS=which, VMON_SUITE_PROP=prop, PYTHONHASHSEED='0', MPLBACKEND='Agg',
                   PYTHONPATH=verif + os.pathsep + repo + os.pathsep + os.environ.get('PYTHONPATH', ''))
        p = subprocess.run(['/venv/bin/python', '-m', 'pytest', '-q', '-p', 'vmon.pytest_plugin', '-p', 'no:cacheprovider', '--timeout=900',
                            '--continue-on-collection-errors', 'regions', 'docs'], cwd=repo, env=env, capture_output=True, text=True, timeout=timeout)
        try:
            r = json.load(open(out))
        except Exception:
            return {'report': {'suite_lane': {'status': 'failed', 'tail': (p.stdout + p.stderr)[-400:]}},
                    'inconclusive': ['suite lane produced no monitor log']}
        rep = {'status': 'ran', 'monitored_calls': r['cases'], 'judged': r['judged'], 'ambiguous_skipped': r['ambiguous'],
               'tests_run': r['counters'].get('suite-tests', 0),
               'monitor_counters': {k: v for k, v in r['counters'].items() if k.startswith('monitor:')},
               'pytest_summary': (p.stdout.strip().splitlines() or [''])[-1][-200:]}
        res = {'report': {'suite_lane': rep}}
        if r['violations']:
            res['violations'] = r['violations']
        if r['counters'].get('harness_errors'):
            res['inconclusive'] = [f"suite lane: {r['counters']['harness_errors']} harness errors: {r['notes'].get('harness_error_samples', [{}])[0].get('traceback', '')[-300:]}"]
        if r['cases'] == 0:
            res['inconclusive'] = ['suite lane: no monitored call observed']
        return res
    finally:
        if os.path.exists(out):
            os.unlink(out)
