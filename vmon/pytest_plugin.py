"""pytest plugin for the suite-as-workload lane: the repository's own tests are
run with the monitors installed; pytest's pass/fail is ignored, only what the
monitors observed counts.  Enabled with `-p vmon.pytest_plugin`; environment:
VMON_SUITE_MONITORS (comma list of contains,bbox,to_mask), VMON_SUITE_OUT (json).
"""
import json
import os

_STATE = {'obs': None, 'test': None}


def pytest_configure(config):
    from vmon.obs import Observer
    from vmon import monitors
    obs = Observer(os.environ.get('VMON_SUITE_PROP', 'SUITE'), 'suite', 0, 0)
    _STATE['obs'] = obs
    which = os.environ.get('VMON_SUITE_MONITORS', 'contains,bbox,to_mask').split(',')
    monitors.CASE_FROM_CALL['on'] = True
    monitors.CASE_FROM_CALL['test'] = lambda: _STATE['test']
    if 'contains' in which:
        monitors.install_contains_monitor(obs)
    if 'bbox' in which:
        monitors.install_bbox_monitor(obs)
    if 'to_mask' in which:
        monitors.install_to_mask_monitor(obs, [monitors.judge_mask_sampled,
                                               lambda o, region, mode, sub, mask: monitors.judge_mask_bbox(o, region, mask)])


def pytest_runtest_setup(item):
    _STATE['test'] = item.nodeid
    obs = _STATE['obs']
    if obs is not None:
        obs.count('suite-tests')


def pytest_sessionfinish(session, exitstatus):
    obs = _STATE['obs']
    out = os.environ.get('VMON_SUITE_OUT')
    if obs is not None and out:
        json.dump(obs.result(), open(out, 'w'), default=repr)
