"""JSON-able specs <-> live objects, and deep structural fingerprints.

``build(spec)`` turns a spec into live objects; ``describe(obj)`` is its
inverse (as far as the library lets us read the object back).  Every case the
generators emit is made of such specs, so a case can be logged, hashed,
replayed, and executed in a fresh interpreter.
"""
import hashlib
import operator

import numpy as np

def _fn_and(a, b):
    return a & b


def _fn_or(a, b):
    return a | b


# a compound's operator is any callable binary operator: the operator-module functions (what & | ^ on regions use), the
# NumPy logical / bitwise functions, and plain Python functions are all legal and mean the same set operations
_OPS = {'and': operator.and_, 'or': operator.or_, 'xor': operator.xor,
        'np_and': np.logical_and, 'np_or': np.logical_or, 'np_xor': np.logical_xor,
        'bit_and': np.bitwise_and, 'bit_or': np.bitwise_or, 'bit_xor': np.bitwise_xor, 'fn_and': _fn_and, 'fn_or': _fn_or}
_OPNAMES = {v: k for k, v in _OPS.items()}
_LOGIC = {'and': np.logical_and, 'or': np.logical_or, 'xor': np.logical_xor}


def op_logic(op):
    """the NumPy logical function with the meaning of a compound's operator callable."""
    return _LOGIC[_OPNAMES[op].split('_')[-1]]


def _lazy():
    import astropy.units as u
    from astropy.coordinates import Angle, SkyCoord
    import regions
    return u, Angle, SkyCoord, regions


# ---------------------------------------------------------------------------
# arrays / numbers
def arr_spec(a):
    a = np.asarray(a)
    return {'a': a.tolist(), 'dt': str(a.dtype), 'sh': list(a.shape)}


def build_num(s):
    """number spec: plain python number, or array spec dict."""
    if isinstance(s, dict) and 'a' in s:
        a = np.array(s['a'], dtype=s.get('dt', 'float64'))
        if 'sh' in s:
            a = a.reshape(s['sh'])
        lay = s.get('lay')          # same values, another memory layout
        if lay == 'strided' and a.ndim >= 1:
            a = np.repeat(a, 2, axis=-1)[..., ::2]
        elif lay == 'neg' and a.ndim >= 1:
            a = np.ascontiguousarray(a[::-1])[::-1]
        elif lay == 'readonly':
            a.setflags(write=False)
        elif lay == 'F' and a.ndim >= 2:
            a = np.asfortranarray(a)
        return a
    if isinstance(s, dict) and 'np' in s:      # numpy scalar of given dtype
        return np.dtype(s['np']).type(s['v'])
    return s


def describe_num(v):
    if isinstance(v, np.ndarray):
        return arr_spec(v)
    if isinstance(v, np.generic):
        return {'np': str(v.dtype), 'v': v.item()}
    return v


# ---------------------------------------------------------------------------
def pix(x, y):
    return {'t': 'pix', 'x': describe_num(x), 'y': describe_num(y)}


def q(v, unit, angle=False):
    d = {'t': 'q', 'v': describe_num(v), 'u': unit}
    if angle:
        d['angle'] = True
    return d


def sky(lon, lat, frame='icrs', **attrs):
    d = {'t': 'sky', 'frame': frame, 'lon': describe_num(lon),
         'lat': describe_num(lat)}
    if attrs:
        d['attrs'] = attrs
    return d


HELD_UNITS = [['hourangle', 'deg'], ['rad', 'rad'], ['hourangle', 'rad'], ['deg', 'arcmin'], ['arcsec', 'deg'], ['hourangle', 'hourangle']]


def held(d, rng, p=0.12):
    """with probability p, mark a sky-coordinate spec as held in other angular units than degrees."""
    if rng.random() < p:
        d['held'] = rng.choice(HELD_UNITS)
    return d


def reg(cls, meta=None, visual=None, **params):
    d = {'t': 'reg', 'cls': cls, 'p': params}
    if meta is not None:
        d['meta'] = meta
    if visual is not None:
        d['visual'] = visual
    return d


def build(s):
    """Build a live object from a spec (recursively)."""
    if isinstance(s, (list, tuple)):
        return [build(x) for x in s]
    if not isinstance(s, dict) or 't' not in s:
        return build_num(s)
    t = s['t']
    u, Angle, SkyCoord, regions = _lazy()
    if t == 'pix':
        return regions.PixCoord(build_num(s['x']), build_num(s['y']))
    if t == 'q':
        v = build_num(s['v'])
        if s.get('angle'):
            return Angle(v, s['u'])
        return u.Quantity(v, s['u'])
    if t == 'sky':
        kw = dict(s.get('attrs', {}))
        if s.get('held'):
            # the same position, held by the coordinate object in other angular units (a catalogue in hours / radians)
            from astropy.coordinates import Longitude, Latitude
            lon = Longitude(build_num(s['lon']), 'deg').to(s['held'][0])
            lat = Latitude(build_num(s['lat']), 'deg').to(s['held'][1])
            return SkyCoord(lon, lat, frame=s['frame'], **kw)
        return SkyCoord(build_num(s['lon']), build_num(s['lat']), unit='deg',
                        frame=s['frame'], **kw)
    if t == 'reg':
        cls = getattr(regions, s['cls'])
        kw = {}
        for k, v in s['p'].items():
            if k == 'operator':
                kw[k] = _OPS[v]
            elif k == 'text':
                kw[k] = v
            else:
                kw[k] = build(v)
        if 'meta' in s:
            kw['meta'] = build_meta(s['meta'], regions.RegionMeta)
        if 'visual' in s:
            kw['visual'] = build_meta(s['visual'], regions.RegionVisual)
        return cls(**kw)
    if t == 'wcs':
        from astropy.wcs import WCS
        from astropy.io import fits
        hdr = fits.Header()
        for k, v in s['hdr'].items():
            hdr[k] = v
        import warnings
        with warnings.catch_warnings():
            warnings.simplefilter('ignore')
            return WCS(hdr)
    if t == 'bbox':
        return regions.RegionBoundingBox(*[build_num(x) for x in s['v']])
    if t == 'regions':
        return regions.Regions([build(x) for x in s['items']])
    raise ValueError(f'unknown spec type {t!r}')


def build_meta(m, cls):
    if m is None:
        return None
    if isinstance(m, dict) and m.get('t') == 'plain':
        return {k: _meta_val(v) for k, v in m['d'].items()}
    out = cls()
    for k, v in m.items():
        dict.__setitem__(out, k, _meta_val(v))
    return out


def _meta_val(v):
    if isinstance(v, dict) and 't' in v:
        return build(v)
    if isinstance(v, list):
        return [_meta_val(x) for x in v]
    return v


# ---------------------------------------------------------------------------
def describe(o):
    u, Angle, SkyCoord, regions = _lazy()
    if isinstance(o, regions.PixCoord):
        return pix(o.x, o.y)
    if isinstance(o, SkyCoord):
        sph = o.represent_as('unitspherical')
        d = {'t': 'sky', 'frame': o.frame.name,
             'lon': describe_num(np.asarray(sph.lon.deg) if sph.lon.ndim else float(sph.lon.deg)),
             'lat': describe_num(np.asarray(sph.lat.deg) if sph.lat.ndim else float(sph.lat.deg))}
        return d
    if isinstance(o, u.Quantity):
        return q(o.value if o.ndim else o.value.item() if hasattr(o.value, 'item') else o.value,
                 str(o.unit), isinstance(o, Angle))
    if isinstance(o, regions.Region):
        p = {}
        for name in o._params:
            v = getattr(o, name)
            if name == 'operator':
                p[name] = _OPNAMES.get(v, repr(v))
            elif name == 'text':
                p[name] = v
            else:
                p[name] = describe(v)
        d = {'t': 'reg', 'cls': type(o).__name__, 'p': p,
             'meta': describe_meta(o.meta), 'visual': describe_meta(o.visual)}
        return d
    if isinstance(o, regions.RegionBoundingBox):
        return {'t': 'bbox', 'v': [int(o.ixmin), int(o.ixmax), int(o.iymin), int(o.iymax)]}
    if isinstance(o, regions.Regions):
        return {'t': 'regions', 'items': [describe(r) for r in o.regions]}
    if isinstance(o, (list, tuple)):
        return [describe(x) for x in o]
    if isinstance(o, (np.ndarray, np.generic)):
        return describe_num(o)
    if isinstance(o, (int, float, str, bool)) or o is None:
        return o
    return repr(o)


def describe_meta(m):
    out = {}
    for k, v in dict.items(m):
        if isinstance(v, (int, float, str, bool)) or v is None:
            out[k] = v
        elif isinstance(v, (list, tuple)):
            out[k] = [x if isinstance(x, (int, float, str, bool)) else describe(x) for x in v]
        else:
            out[k] = describe(v)
    return out


# ---------------------------------------------------------------------------
# deep structural fingerprint
def _walk(o, h, path, seen):
    u, Angle, SkyCoord, regions = _lazy()
    up = h.update
    if o is None or isinstance(o, (bool, int, str)):
        up(f'{type(o).__name__}:{o!r};'.encode())
    elif isinstance(o, float):
        up(b'float:' + np.float64(o).tobytes() + b';')
    elif isinstance(o, np.generic):
        up(f'np:{o.dtype}:'.encode() + o.tobytes() + b';')
    elif isinstance(o, u.Quantity):
        up(f'Q:{type(o).__name__}:{o.unit}:{o.dtype}:{o.shape}:'.encode())
        up(np.ascontiguousarray(o.value).tobytes() + b';')
    elif isinstance(o, np.ndarray):
        up(f'nd:{o.dtype}:{o.shape}:'.encode())
        if isinstance(o, np.ma.MaskedArray):
            # a masked array is data + mask + fill value (+ whether the mask is hard)
            up(f'ma:{o.fill_value!r}:{o.hardmask}:'.encode() + np.ascontiguousarray(np.ma.getmaskarray(o)).tobytes())
            o = np.asarray(o.data)
        if o.dtype == object:
            for x in o.ravel():
                _walk(x, h, path, seen)
        else:
            up(np.ascontiguousarray(o).tobytes() + b';')
    elif isinstance(o, regions.PixCoord):
        up(b'Pix(')
        _walk(o.x, h, path + '.x', seen)
        _walk(o.y, h, path + '.y', seen)
        up(b')')
    elif isinstance(o, SkyCoord):
        up(f'Sky:{o.frame.name}:{o.shape}:'.encode())
        for a in sorted(o.frame.frame_attributes):
            up(f'{a}={getattr(o.frame, a, None)!r},'.encode())
        d = o.data
        up(type(d).__name__.encode())
        # how the coordinate presents itself (ra/dec vs x/y/z ...) is part of its state too
        up(('repr=' + getattr(o.representation_type, '__name__', repr(o.representation_type))).encode())
        for comp in d.components:
            _walk(getattr(d, comp), h, path + '.' + comp, seen)
    elif isinstance(o, regions.Region):
        up(f'R:{type(o).__name__}('.encode())
        for name in o._params:
            up(name.encode() + b'=')
            v = getattr(o, name)
            if name == 'operator':
                up(_OPNAMES.get(v, repr(v)).encode())
            else:
                _walk(v, h, path + '.' + name, seen)
            up(b',')
        up(b'meta=')
        _walk(o.meta, h, path + '.meta', seen)
        up(b'visual=')
        _walk(o.visual, h, path + '.visual', seen)
        up(b')')
    elif isinstance(o, dict):
        up(f'{type(o).__name__}{{'.encode())
        for k, v in dict.items(o):        # insertion order is part of state
            _walk(k, h, path, seen)
            up(b':')
            _walk(v, h, path + f'[{k!r}]', seen)
            up(b',')
        up(b'}')
    elif isinstance(o, (list, tuple)):
        up(f'{type(o).__name__}['.encode())
        for i, v in enumerate(o):
            _walk(v, h, path + f'[{i}]', seen)
            up(b',')
        up(b']')
    elif isinstance(o, regions.Regions):
        up(b'Regions')
        _walk(o.regions, h, path + '.regions', seen)
    elif isinstance(o, regions.RegionBoundingBox):
        up(f'BBox({o.ixmin!r},{o.ixmax!r},{o.iymin!r},{o.iymax!r})'.encode())
    elif isinstance(o, regions.RegionMask):
        up(b'Mask(')
        _walk(o.data, h, path + '.data', seen)
        _walk(o.bbox, h, path + '.bbox', seen)
        for k in sorted(vars(o)):                 # any further state the mask object keeps (e.g. its zero-weight mask, caches)
            if k not in ('data', 'bbox'):
                up(k.encode())
                _walk(vars(o)[k], h, path + '.' + k, seen)
        up(b')')
    elif isinstance(o, slice):
        up(f'slice({o.start!r},{o.stop!r},{o.step!r})'.encode())
    else:
        up(f'{type(o).__name__}:{o!r};'.encode())


def fingerprint(o):
    h = hashlib.blake2b(digest_size=12)
    _walk(o, h, '', set())
    return h.hexdigest()


def fp_parts(o):
    """Per-field fingerprints of a region (to name the path that changed)."""
    u, Angle, SkyCoord, regions = _lazy()
    out = {}
    if isinstance(o, regions.Region):
        for name in o._params:
            v = getattr(o, name)
            if isinstance(v, regions.Region):
                for k, f in fp_parts(v).items():
                    out[f'{name}.{k}'] = f
            else:
                out[name] = fingerprint(v) if name != 'operator' else _OPNAMES.get(v, repr(v))
        for k, v in dict.items(o.meta):
            out[f'meta[{k!r}]'] = fingerprint(v)
        for k, v in dict.items(o.visual):
            out[f'visual[{k!r}]'] = fingerprint(v)
        out['meta.keys'] = repr(list(dict.keys(o.meta)))
        out['visual.keys'] = repr(list(dict.keys(o.visual)))
        out['meta.type'] = type(o.meta).__name__
        out['visual.type'] = type(o.visual).__name__
    else:
        out['value'] = fingerprint(o)
    return out


def diff_parts(a, b):
    keys = sorted(set(a) | set(b))
    return [k for k in keys if a.get(k) != b.get(k)]


# ---------------------------------------------------------------------------
# id-graph of mutable nodes (for aliasing checks)
def mutable_ids(o, out=None, path=''):
    u, Angle, SkyCoord, regions = _lazy()
    if out is None:
        out = {}
    if isinstance(o, (np.ndarray, u.Quantity, SkyCoord, regions.PixCoord, dict, list)):
        if isinstance(o, np.ndarray) and o.ndim == 0 and not isinstance(o, u.Quantity):
            pass
        else:
            out.setdefault(id(o), path)
    if isinstance(o, regions.PixCoord):
        mutable_ids(o.x, out, path + '.x')
        mutable_ids(o.y, out, path + '.y')
    elif isinstance(o, regions.Region):
        for name in o._params:
            if name != 'operator':
                mutable_ids(getattr(o, name), out, path + '.' + name)
        mutable_ids(o.meta, out, path + '.meta')
        mutable_ids(o.visual, out, path + '.visual')
    elif isinstance(o, dict):
        for k, v in dict.items(o):
            mutable_ids(v, out, path + f'[{k!r}]')
    elif isinstance(o, (list, tuple)):
        for i, v in enumerate(o):
            mutable_ids(v, out, path + f'[{i}]')
    return out
