"""One worker process: runs one shard of one check (or replays one case).

usage: python -m vmon.worker <prop> <tier> <seed> <shard> <nshards> <outfile>
       python -m vmon.worker <prop> --replay <file> <outfile>
"""
import faulthandler
import importlib
import json
import os
import random
import sys
import time
import traceback
import warnings


def setup_paths():
    repo = os.environ.get('VERIF_REPO', '/repo')
    verif = os.path.dirname(os.path.dirname(os.path.abspath(__file__)))
    deps = os.path.join(verif, '.deps')
    if os.path.isdir(deps) and deps not in sys.path:
        sys.path.append(deps)
    # a scratch copy on sys.path wins over the editable-install finder
    if repo not in sys.path:
        sys.path.insert(0, repo)
    return repo


def classify_exception(exc, repo):
    """'library' when the traceback passes through <repo>/regions, else
    'harness'."""
    tb = exc.__traceback__
    libdir = os.path.join(os.path.realpath(repo), 'regions') + os.sep
    while tb is not None:
        fn = os.path.realpath(tb.tb_frame.f_code.co_filename)
        if fn.startswith(libdir):
            return 'library'
        tb = tb.tb_next
    return 'harness'


def run_one(mod, case, obs, repo):
    obs.begin(case)
    try:
        mod.run_case(case, obs)
    except Exception as exc:           # noqa
        where = classify_exception(exc, repo)
        tbs = ''.join(traceback.format_exception(type(exc), exc, exc.__traceback__))[-3000:]
        if where == 'library':
            key = 'unexpected-exception'
            if hasattr(mod, 'classify_exception'):
                key = mod.classify_exception(case, exc) or key
            obs.violation(key, f'{type(exc).__name__}: {exc}', traceback=tbs)
        else:
            obs.count('harness_errors')
            if 'harness_error_samples' not in obs.notes:
                obs.notes['harness_error_samples'] = []
            if len(obs.notes['harness_error_samples']) < 5:
                obs.notes['harness_error_samples'].append({'case': case, 'traceback': tbs})
    finally:
        obs.end()


def main(argv):
    repo = setup_paths()
    from vmon.obs import Observer
    from vmon import anchors
    prop = argv[0]
    mod = importlib.import_module('vmon.checks.' + prop.lower())
    warnings.simplefilter('ignore')     # checks that judge warnings record them explicitly
    faulthandler.enable()
    if argv[1] == '--replay':
        replay_file, outfile = argv[2], argv[3]
        rec = json.load(open(replay_file))
        obs = Observer(prop, 'replay', 0, 0)
        try:
            import regions  # noqa
        except Exception as exc:
            json.dump({'import_error': repr(exc)}, open(outfile, 'w'))
            return 0
        if hasattr(mod, 'setup'):
            mod.setup(obs)
        run_one(mod, rec['case'], obs, repo)
        json.dump(obs.result(), open(outfile, 'w'))
        return 0

    tier, seed, shard, nshards, outfile = argv[1], int(argv[2]), int(argv[3]), int(argv[4]), argv[5]
    budget = float(os.environ.get('VERIF_SHARD_BUDGET_S', mod.budget(tier)))
    faulthandler.dump_traceback_later(budget * 3 + 120, exit=False)
    obs = Observer(prop, tier, seed, shard)
    try:
        import regions  # noqa
        obs.note('regions_file', regions.__file__)
    except Exception as exc:
        json.dump({'import_error': repr(exc) + traceback.format_exc()[-1500:]}, open(outfile, 'w'))
        return 0
    cov = anchors.AnchorCoverage(prop, repo)
    cov.start()
    if hasattr(mod, 'setup'):
        mod.setup(obs)
    rng = random.Random(f'{prop}/{seed}/{shard}')
    t0 = time.time()
    for case in mod.generate(rng, tier, shard, nshards):
        run_one(mod, case, obs, repo)
        if time.time() - t0 > budget and not case.get('exhaustive'):
            obs.stopped_by_time = True
            break
    if hasattr(mod, 'finish'):
        mod.finish(obs)
    cov.stop()
    res = obs.result()
    res['anchors'] = cov.report()
    json.dump(res, open(outfile, 'w'))
    return 0


if __name__ == '__main__':
    sys.exit(main(sys.argv[1:]))
