"""Monitors: wrappers installed from the harness on the library's public entry
points.  Each records the call, invokes the real function, and evaluates an
independent oracle on exactly the arguments the library saw.
"""
import functools

import numpy as np

from vmon import geom

_installed = {}


def pixel_classes():
    import regions
    out = []
    for name in dir(regions):
        c = getattr(regions, name)
        if isinstance(c, type) and issubclass(c, regions.PixelRegion) and name.endswith('PixelRegion') \
                and name not in ('PixelRegion', 'AnnulusPixelRegion', 'AsymmetricAnnulusPixelRegion'):
            out.append(c)
    return out


def wrap_method(cls, name, make_wrapper):
    """Replace cls.__dict__[name] (only if defined on cls itself)."""
    if name not in cls.__dict__:
        return False
    orig = cls.__dict__[name]
    key = (cls, name)
    if key in _installed:
        return False
    if isinstance(orig, property):
        new = property(make_wrapper(orig.fget), orig.fset, orig.fdel, orig.__doc__)
    else:
        new = make_wrapper(orig)
    _installed[key] = orig
    setattr(cls, name, new)
    return True


def uninstall_all():
    for (cls, name), orig in list(_installed.items()):
        setattr(cls, name, orig)
    _installed.clear()


# ---------------------------------------------------------------------------
# C01: contains
def _is_bool_scalar(r):
    return isinstance(r, (bool, np.bool_)) or (isinstance(r, np.ndarray) and r.ndim == 0 and r.dtype == bool)


def judge_contains(obs, region, pixcoord, result, what='contains'):
    """Judge one observed contains() return value against the oracle."""
    import regions
    if not isinstance(pixcoord, regions.PixCoord):
        return
    cname = type(region).__name__
    obs.count('monitor:contains:' + cname)
    qshape = np.shape(pixcoord.x)
    rshape = np.shape(result)
    ok_shape = True
    if rshape != qshape:
        ok_shape = False
        key = 'result-shape'
        if qshape == () and rshape == (1,) and 'Polygon' in cname:
            key = 'polygon-scalar-query-shape'
        obs.violation(key, f'{cname}.{what}: query shape {qshape} but result shape {rshape}',
                      region=repr(region)[:300])
    else:
        obs.ok(1, 'shape')
    if qshape == () and ok_shape:
        obs.check(_is_bool_scalar(result), 'result-type',
                  f'{cname}.{what}: scalar query must give a plain bool, got {type(result).__name__}', 'type')
    rarr = np.asarray(result)
    if rarr.dtype != bool:
        obs.violation('result-dtype', f'{cname}.{what}: dtype {rarr.dtype}, expected bool')
    else:
        obs.ok(1, 'dtype')
    if rarr.size != int(np.prod(qshape, dtype=int)):
        return
    px, py = np.asarray(pixcoord.x), np.asarray(pixcoord.y)
    if px.size == 0:
        return
    inside, decided = geom.contains_member(region, px, py)
    inside = np.asarray(inside).reshape(qshape)
    decided = np.asarray(decided).reshape(qshape)
    got = rarr.reshape(qshape).astype(bool)
    bad = decided & (got != inside)
    nd = int(decided.sum())
    obs.skip(int(decided.size - nd), 'membership')
    if bad.any():
        idx = np.argwhere(bad)[0] if bad.ndim else ()
        i = tuple(idx) if bad.ndim else ()
        m, band = None, None
        if cname != 'CompoundPixelRegion':
            m, band = geom.shape_margin(region, px, py)
            m, band = float(np.asarray(m).reshape(qshape)[i]), float(np.asarray(np.broadcast_to(band, np.shape(px))).reshape(qshape)[i])
        obs.violation('membership:' + cname,
                      f'{cname}.{what} answered {bool(got[i])} but the geometric definition says {bool(inside[i])} '
                      f'at ({px[i] if px.ndim else px!r}, {py[i] if py.ndim else py!r}); margin={m} band={band}; '
                      f'{int(bad.sum())} of {nd} judged points wrong',
                      region=repr(region)[:400])
        if nd > 1:
            obs.ok(nd - 1, 'membership')
    else:
        obs.ok(nd, 'membership')


def install_contains_monitor(obs):
    def make(orig):
        @functools.wraps(orig)
        def contains(self, pixcoord, *a, **k):
            result = orig(self, pixcoord, *a, **k)
            try:
                judge_contains(obs, self, pixcoord, result)
            except Exception as exc:       # oracle trouble must never change behaviour
                obs.count('harness_errors')
                obs.notes.setdefault('harness_error_samples', [])
                if len(obs.notes['harness_error_samples']) < 5:
                    import traceback
                    obs.notes['harness_error_samples'].append({'traceback': traceback.format_exc()[-2000:]})
            return result
        return contains
    n = 0
    for cls in pixel_classes():
        n += wrap_method(cls, 'contains', make)
    # annuli inherit contains from AnnulusPixelRegion
    import regions.shapes.annulus as ann
    n += wrap_method(ann.AnnulusPixelRegion, 'contains', make)
    obs.count('monitors_installed:contains', n)
