"""Monitors: wrappers installed from the harness on the library's public entry
points.  Each records the call, invokes the real function, and evaluates an
independent oracle on exactly the arguments the library saw.
"""
import functools

import numpy as np

from vmon import geom

_installed = {}
CASE_FROM_CALL = {'on': False, 'test': lambda: None}      # suite lane: every monitored call becomes its own replayable case


def _suite_case(obs, op, region, coords=None, kw=None):
    from vmon import spec as S
    case = {'lane': 'suite:' + op, 'op': op, 'test': CASE_FROM_CALL['test'](), 'region': S.describe(region)}
    if coords is not None:
        case['coords'] = S.describe(coords)
    if kw:
        case['kw'] = {k: v for k, v in kw.items() if isinstance(v, (int, str, float, type(None)))}
    obs.begin(case)


def replay_suite_case(case, obs):
    """re-execute one monitored call recorded by the suite lane (monitors must be installed)."""
    from vmon import spec as S
    region = S.build(case['region'])
    if case['op'] == 'contains':
        region.contains(S.build(case['coords']))
    elif case['op'] == 'bounding_box':
        region.bounding_box
    elif case['op'] == 'to_mask':
        region.to_mask(**case.get('kw', {}))


def pixel_classes():
    import regions
    out = []
    for name in dir(regions):
        c = getattr(regions, name)
        if isinstance(c, type) and issubclass(c, regions.PixelRegion) and name.endswith('PixelRegion') \
                and name not in ('PixelRegion', 'AnnulusPixelRegion', 'AsymmetricAnnulusPixelRegion'):
            out.append(c)
    return out


def wrap_method(cls, name, make_wrapper):
    """Replace cls.__dict__[name] (only if defined on cls itself)."""
    if name not in cls.__dict__:
        return False
    orig = cls.__dict__[name]
    key = (cls, name)
    if key in _installed:
        return False
    if isinstance(orig, property):
        new = property(make_wrapper(orig.fget), orig.fset, orig.fdel, orig.__doc__)
    else:
        new = make_wrapper(orig)
    _installed[key] = orig
    setattr(cls, name, new)
    return True


def uninstall_all():
    for (cls, name), orig in list(_installed.items()):
        setattr(cls, name, orig)
    _installed.clear()


# ---------------------------------------------------------------------------
# C01: contains
def _is_bool_scalar(r):
    return isinstance(r, (bool, np.bool_)) or (isinstance(r, np.ndarray) and r.ndim == 0 and r.dtype == bool)


def judge_contains(obs, region, pixcoord, result, what='contains'):
    """Judge one observed contains() return value against the oracle."""
    import regions
    if not isinstance(pixcoord, regions.PixCoord):
        return
    cname = type(region).__name__
    obs.count('monitor:contains:' + cname)
    qshape = np.shape(pixcoord.x)
    rshape = np.shape(result)
    ok_shape = True
    if rshape != qshape:
        ok_shape = False
        key = 'result-shape'
        if qshape == () and rshape == (1,) and 'Polygon' in cname:
            key = 'polygon-scalar-query-shape'
        obs.violation(key, f'{cname}.{what}: query shape {qshape} but result shape {rshape}',
                      region=repr(region)[:300])
    else:
        obs.ok(1, 'shape')
    if qshape == () and ok_shape:
        obs.check(_is_bool_scalar(result), 'result-type',
                  f'{cname}.{what}: scalar query must give a plain bool, got {type(result).__name__}', 'type')
    rarr = np.asarray(result)
    if rarr.dtype != bool:
        obs.violation('result-dtype', f'{cname}.{what}: dtype {rarr.dtype}, expected bool')
    else:
        obs.ok(1, 'dtype')
    if rarr.size != int(np.prod(qshape, dtype=int)):
        return
    px, py = np.asarray(pixcoord.x), np.asarray(pixcoord.y)
    if px.size == 0:
        return
    inside, decided = geom.contains_member(region, px, py)
    inside = np.asarray(inside).reshape(qshape)
    decided = np.asarray(decided).reshape(qshape)
    got = rarr.reshape(qshape).astype(bool)
    bad = decided & (got != inside)
    nd = int(decided.sum())
    obs.skip(int(decided.size - nd), 'membership')
    if bad.any():
        idx = np.argwhere(bad)[0] if bad.ndim else ()
        i = tuple(idx) if bad.ndim else ()
        m, band = None, None
        if cname != 'CompoundPixelRegion':
            m, band = geom.shape_margin(region, px, py)
            m, band = float(np.asarray(m).reshape(qshape)[i]), float(np.asarray(np.broadcast_to(band, np.shape(px))).reshape(qshape)[i])
        obs.violation('membership:' + cname,
                      f'{cname}.{what} answered {bool(got[i])} but the geometric definition says {bool(inside[i])} '
                      f'at ({px[i] if px.ndim else px!r}, {py[i] if py.ndim else py!r}); margin={m} band={band}; '
                      f'{int(bad.sum())} of {nd} judged points wrong',
                      region=repr(region)[:400])
        if nd > 1:
            obs.ok(nd - 1, 'membership')
    else:
        obs.ok(nd, 'membership')


def install_contains_monitor(obs):
    def make(orig):
        @functools.wraps(orig)
        def contains(self, pixcoord, *a, **k):
            result = orig(self, pixcoord, *a, **k)
            try:
                if CASE_FROM_CALL['on'] and obs.case is None:
                    _suite_case(obs, 'contains', self, coords=pixcoord)
                    try:
                        judge_contains(obs, self, pixcoord, result)
                    finally:
                        obs.end()
                    return result
                judge_contains(obs, self, pixcoord, result)
            except Exception as exc:       # oracle trouble must never change behaviour
                obs.count('harness_errors')
                obs.notes.setdefault('harness_error_samples', [])
                if len(obs.notes['harness_error_samples']) < 5:
                    import traceback
                    obs.notes['harness_error_samples'].append({'traceback': traceback.format_exc()[-2000:]})
            return result
        return contains
    n = 0
    for cls in pixel_classes():
        n += wrap_method(cls, 'contains', make)
    # annuli inherit contains from AnnulusPixelRegion
    import regions.shapes.annulus as ann
    n += wrap_method(ann.AnnulusPixelRegion, 'contains', make)
    obs.count('monitors_installed:contains', n)


# ---------------------------------------------------------------------------
# C04: bounding boxes
def _harness_guard(obs, fn, *a):
    try:
        fn(*a)
    except Exception:
        import traceback
        obs.count('harness_errors')
        obs.notes.setdefault('harness_error_samples', [])
        if len(obs.notes['harness_error_samples']) < 5:
            obs.notes['harness_error_samples'].append({'traceback': traceback.format_exc()[-2000:]})


def judge_bbox(obs, region, bbox, exact=False):
    """Judge one observed bounding_box value."""
    import regions
    cname = type(region).__name__
    obs.count('monitor:bbox:' + cname)
    if not isinstance(bbox, regions.RegionBoundingBox):
        obs.violation('bbox-type', f'{cname}.bounding_box is {type(bbox).__name__}')
        return
    b = (bbox.ixmin, bbox.ixmax, bbox.iymin, bbox.iymax)
    if cname == 'CompoundPixelRegion':
        b1, b2 = region.region1.bounding_box, region.region2.bounding_box
        exp = (min(b1.ixmin, b2.ixmin), max(b1.ixmax, b2.ixmax), min(b1.iymin, b2.iymin), max(b1.iymax, b2.iymax))
        obs.check(b == exp, 'compound-bbox-not-union', f'compound box {b} is not the union {exp} of the operand boxes', 'bbox-compound')
        return
    ext = geom.true_extent(region)
    xmin, xmax, ymin, ymax, tol = ext
    if exact or getattr(region, '_vmon_exact', False):
        tol = 0.0          # all arithmetic exact (dyadic parameters, zero angle): alignments judged to the ulp
    else:
        tol = tol + 1e-12 * max(xmax - xmin, ymax - ymin)
    # enclosure: the pixel-edge extent of the box covers the true extent
    for lo, ilo, hi, ihi, ax in ((xmin, bbox.ixmin, xmax, bbox.ixmax, 'x'), (ymin, bbox.iymin, ymax, bbox.iymax, 'y')):
        e_lo, e_hi = ilo - 0.5, ihi - 0.5
        if e_lo > lo + tol:
            obs.violation('bbox-not-enclosing', f'{cname}: box {b} lower {ax} edge {e_lo} is above the true extent {lo!r} (tol {tol:.3g})',
                          region=repr(region)[:300])
        elif e_lo > lo - tol:
            obs.skip(1, 'bbox')
        else:
            obs.ok(1, 'bbox-enclose')
        if e_hi < hi - tol:
            obs.violation('bbox-not-enclosing', f'{cname}: box {b} upper {ax} edge {e_hi} is below the true extent {hi!r} (tol {tol:.3g})',
                          region=repr(region)[:300])
        elif e_hi < hi + tol:
            obs.skip(1, 'bbox')
        else:
            obs.ok(1, 'bbox-enclose')
        # minimality (non-empty boxes): border row/column reached by the extent
        if ihi > ilo:
            if lo >= ilo + 0.5 + tol:
                obs.violation('bbox-not-minimal', f'{cname}: box {b} first {ax} row/column [{ilo - 0.5}, {ilo + 0.5}] is not reached by the true extent starting at {lo!r}',
                              region=repr(region)[:300])
            elif lo > ilo + 0.5 - tol:
                obs.skip(1, 'bbox')
            else:
                obs.ok(1, 'bbox-minimal')
            if hi <= ihi - 1.5 - tol:
                obs.violation('bbox-not-minimal', f'{cname}: box {b} last {ax} row/column [{ihi - 1.5}, {ihi - 0.5}] is not reached by the true extent ending at {hi!r}',
                              region=repr(region)[:300])
            elif hi < ihi - 1.5 + tol:
                obs.skip(1, 'bbox')
            else:
                obs.ok(1, 'bbox-minimal')
        else:
            # an empty box is only right for a zero-width extent sitting on a pixel edge
            obs.check(hi - lo <= 2 * tol, 'bbox-empty-for-extended-shape', f'{cname}: empty box {b} for extent [{lo!r}, {hi!r}] on {ax}', 'bbox-minimal')


def install_bbox_monitor(obs):
    def make(orig):
        @functools.wraps(orig)
        def bounding_box(self):
            result = orig(self)
            if CASE_FROM_CALL['on'] and obs.case is None:
                _harness_guard(obs, _suite_case, obs, 'bounding_box', self)
                _harness_guard(obs, judge_bbox, obs, self, result)
                obs.end() if obs.case is not None else None
                return result
            _harness_guard(obs, judge_bbox, obs, self, result)
            return result
        return bounding_box
    import regions.shapes.annulus as ann
    n = 0
    for cls in pixel_classes() + [ann.AnnulusPixelRegion]:
        n += wrap_method(cls, 'bounding_box', make)
    obs.count('monitors_installed:bounding_box', n)


def judge_mask_bbox(obs, region, mask):
    """mask.bbox is the region's box and confines the data."""
    bb = region.bounding_box
    mb = mask.bbox
    same = (mb.ixmin, mb.ixmax, mb.iymin, mb.iymax) == (bb.ixmin, bb.ixmax, bb.iymin, bb.iymax)
    obs.check(same, 'mask-bbox-differs', f'{type(region).__name__}: mask.bbox {mb!r} differs from region.bounding_box {bb!r}', 'mask-bbox')
    obs.check(tuple(np.shape(mask.data)) == tuple(bb.shape), 'mask-shape-differs',
              f'{type(region).__name__}: mask data shape {np.shape(mask.data)} but box shape {bb.shape}', 'mask-bbox')


def install_to_mask_monitor(obs, judges):
    """judges: list of callables (obs, region, mode, subpixels, mask)."""
    def make(orig):
        @functools.wraps(orig)
        def to_mask(self, *a, **k):
            result = orig(self, *a, **k)
            names = ('mode', 'subpixels')
            kw = dict(defaults)
            kw.update(zip(names, a))
            kw.update(k)
            own_case = False
            if CASE_FROM_CALL['on'] and obs.case is None:
                _harness_guard(obs, _suite_case, obs, 'to_mask', self, None, kw)
                own_case = obs.case is not None
            try:
                for j in judges:
                    _harness_guard(obs, j, obs, self, kw.get('mode', 'center'), kw.get('subpixels', None), result)
            finally:
                if own_case:
                    obs.end()
            return result
            for j in judges:
                _harness_guard(obs, j, obs, self, kw.get('mode', 'center'), kw.get('subpixels', None), result)
            return result
        import inspect
        defaults = {n: p.default for n, p in inspect.signature(orig).parameters.items()
                    if n in ('mode', 'subpixels') and p.default is not inspect.Parameter.empty}
        return to_mask
    import regions.shapes.annulus as ann
    n = 0
    for cls in pixel_classes() + [ann.AnnulusPixelRegion]:
        n += wrap_method(cls, 'to_mask', make)
    obs.count('monitors_installed:to_mask', n)


# ---------------------------------------------------------------------------
# C02: centre / subpixel masks are the sampled membership function
def sampled_oracle(region, bbox, n):
    """(n_in, n_amb) integer arrays of shape bbox.shape: number of the n x n
    sub-sample centres that are members / undecided (inside the band)."""
    ny, nx = bbox.shape
    k = (np.arange(n) + 0.5) / n
    xs = (np.arange(bbox.ixmin, bbox.ixmax)[:, None] - 0.5 + k[None, :]).ravel()      # nx*n
    ys = (np.arange(bbox.iymin, bbox.iymax)[:, None] - 0.5 + k[None, :]).ravel()      # ny*n
    X, Y = np.meshgrid(xs, ys)
    ins, dec = geom.shape_member(region, X, Y)
    ins = np.asarray(ins).reshape(ny, n, nx, n)
    dec = np.asarray(dec).reshape(ny, n, nx, n)
    n_in = (ins & dec).sum(axis=(1, 3))
    n_amb = (~dec).sum(axis=(1, 3))
    return n_in, n_amb


def judge_mask_sampled(obs, region, mode, subpixels, mask, max_points=4_000_000):
    cname = type(region).__name__
    if mode not in ('center', 'subpixels'):
        return
    n = 1 if mode == 'center' else subpixels
    if not isinstance(n, int) or n <= 0:
        return
    obs.count(f'monitor:to_mask:{cname}:{mode}')
    data = np.asarray(mask.data)
    bbox = mask.bbox
    ny, nx = bbox.shape
    if data.shape != (ny, nx):
        obs.violation('mask-shape-differs', f'{cname}: data shape {data.shape} vs box shape {(ny, nx)}')
        return
    if nx * ny * n * n > max_points or nx * ny == 0:
        obs.count('mask_too_large_not_judged')
        return
    n_in, n_amb = sampled_oracle(region, bbox, n)
    # no weight may be lost outside the mask's box: the one-pixel ring around it holds no member sample
    import regions as _r
    ring = _r.RegionBoundingBox(bbox.ixmin - 1, bbox.ixmax + 1, bbox.iymin - 1, bbox.iymax + 1)
    r_in, r_amb = sampled_oracle(region, ring, n)
    r_in[1:-1, 1:-1] = 0
    lost = (r_in > 0)
    if lost.any():
        j, i = np.argwhere(lost)[0]
        obs.violation('member-samples-outside-mask-box:' + cname,
                      f'{cname} {mode} n={n}: pixel ({ring.ixmin + i}, {ring.iymin + j}) just outside the mask box {bbox!r} has {r_in[j, i]} of {n * n} '
                      f'sample centres inside the region', region=repr(region)[:300])
    else:
        obs.ok(1, 'mask-ring')
    kk = data * (n * n)
    integral = np.abs(kk - np.round(kk)) <= 1e-9 * max(1, n * n)
    if not integral.all():
        j, i = np.argwhere(~integral)[0]
        obs.violation('mask-value-not-a-sample-fraction', f'{cname} {mode} n={n}: value {data[j, i]!r} at [{j},{i}] is not a multiple of 1/n^2',
                      region=repr(region)[:300])
        return
    kr = np.round(kk)
    bad = (kr < n_in) | (kr > n_in + n_amb)
    judged = int((n_amb == 0).sum())
    obs.skip(int((n_amb > 0).sum()), 'mask-pixels')
    if mode == 'center':
        only01 = np.isin(data, (0, 1)).all()
        obs.check(bool(only01), 'center-mask-not-binary', f'{cname}: centre mask holds values other than 0 and 1', 'mask-binary')
    if bad.any():
        j, i = np.argwhere(bad)[0]
        obs.violation('mask-differs-from-sampled-membership:' + cname,
                      f'{cname} {mode} n={n}: pixel [{j},{i}] = ({bbox.ixmin + i}, {bbox.iymin + j}) has value {data[j, i]!r} '
                      f'(= {kr[j, i]:.0f}/{n * n}) but {n_in[j, i]}..{n_in[j, i] + n_amb[j, i]} of the sample centres are members; '
                      f'{int(bad.sum())} of {nx * ny} pixels wrong', region=repr(region)[:400])
        obs.ok(max(0, judged - 1), 'mask-pixels')
    else:
        obs.ok(judged, 'mask-pixels')
    # ... and against the region's OWN membership function at the sample centres (the statement's wording): where every sample of a
    # pixel is decided (outside the band), value x n^2 is the number of sample centres for which contains() says True
    if nx * ny * n * n <= 60000 and _all_included(region):
        k = (np.arange(n) + 0.5) / n
        xs = (np.arange(bbox.ixmin, bbox.ixmax)[:, None] - 0.5 + k[None, :]).ravel()
        ys = (np.arange(bbox.iymin, bbox.iymax)[:, None] - 0.5 + k[None, :]).ravel()
        X, Y = np.meshgrid(xs, ys)
        own = np.asarray(region.contains(_r.PixCoord(X, Y)))
        if own.shape == X.shape:
            c_in = own.reshape(ny, n, nx, n).sum(axis=(1, 3))
            badc = (n_amb == 0) & (kr != c_in)
            if badc.any():
                j, i = np.argwhere(badc)[0]
                obs.violation('mask-differs-from-own-contains:' + cname,
                              f'{cname} {mode} n={n}: pixel ({bbox.ixmin + i}, {bbox.iymin + j}) has value {data[j, i]!r} (= {kr[j, i]:.0f}/{n * n}) but the '
                              f'region\'s contains() is True at {int(c_in[j, i])} of its sample centres; {int(badc.sum())} pixels differ', region=repr(region)[:400])
            else:
                obs.ok(int((n_amb == 0).sum()), 'mask-vs-own-contains')


def _all_included(region):
    if not bool(dict.get(region.meta, 'include', True)):
        return False
    if type(region).__name__ == 'CompoundPixelRegion':
        return _all_included(region.region1) and _all_included(region.region2)
    return True
