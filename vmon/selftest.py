"""Sensitivity self-test: apply realistic single-edit mutants to a scratch copy
of /repo/regions and require the quick tier of the owning check to report a
VIOLATION.  Also applies patches from /verif/seeded/<id>/patch.diff.

usage: python -m vmon.selftest [Cxx ...] [--list] [--seeded] [--tier quick]
"""
import json
import os
import shutil
import subprocess
import sys
import tempfile
import time
from concurrent.futures import ThreadPoolExecutor

VERIF = os.path.dirname(os.path.dirname(os.path.abspath(__file__)))
REPO = os.environ.get('VERIF_REPO', '/repo')

# (property, name, relative file, old, new)
MUTANTS = []


def M(prop, name, file, old, new, count=1):
    MUTANTS.append({'prop': prop, 'name': name, 'file': file, 'old': old, 'new': new, 'count': count})


# ---- C01 -------------------------------------------------------------------
M('C01', 'ellipse-rot-sign', 'regions/shapes/ellipse.py',
  'in_ell = ((2 * (cos_angle * dx + sin_angle * dy) / self.width) ** 2',
  'in_ell = ((2 * (cos_angle * dx - sin_angle * dy) / self.width) ** 2')
M('C01', 'rect-width-height-swapped', 'regions/shapes/rectangle.py',
  'in_rect = ((np.abs(dx_rot) < self.width * 0.5)\n                   & (np.abs(dy_rot) < self.height * 0.5))',
  'in_rect = ((np.abs(dx_rot) < self.height * 0.5)\n                   & (np.abs(dy_rot) < self.width * 0.5))')
M('C01', 'circle-include-dropped', 'regions/shapes/circle.py',
  "        if self.meta.get('include', True):\n            return in_circle\n        else:\n            return np.logical_not(in_circle)",
  "        return in_circle")
M('C01', 'polygon-reshape-order', 'regions/shapes/polygon.py',
  'in_poly = mask.reshape(shape)', "in_poly = mask.reshape(shape, order='F')")
M('C01', 'annulus-xor-to-or', 'regions/shapes/annulus.py',
  'operator.xor, self.meta, self.visual)', 'operator.or_, self.meta, self.visual)')
M('C01', 'point-scalar-for-array', 'regions/shapes/point.py',
  "in_reg = (False if pixcoord.isscalar", "in_reg = (False if True")
M('C01', 'circle-le-radius-squared', 'regions/shapes/circle.py',
  'in_circle = self.center.separation(pixcoord) < self.radius',
  'in_circle = self.center.separation(pixcoord) < self.radius * 1.001')
M('C01', 'kernel-pnpoly-mod-3', 'regions/_geometry/pnpoly.c', '__pyx_r = __Pyx_mod_long(__pyx_v_result, 2);', '__pyx_r = (__Pyx_mod_long(__pyx_v_result, 3) != 0);')
M('C02', 'kernel-circle-subsample-offset', 'regions/_geometry/circular_overlap.c', '__pyx_v_x = (__pyx_v_x0 - (0.5 * __pyx_v_dx));', '__pyx_v_x = (__pyx_v_x0 - (0.4 * __pyx_v_dx));')
M('C03', 'kernel-circle-fastpath-box-too-small', 'regions/_geometry/circular_overlap.c', '__pyx_v_bxmax = (__pyx_v_r + (0.5 * __pyx_v_dx));', '__pyx_v_bxmax = (__pyx_v_r - (0.5 * __pyx_v_dx));')
M('C01', 'include-truthiness-is-True', 'regions/shapes/rectangle.py',
  "        if self.meta.get('include', True):\n            return in_rect",
  "        if self.meta.get('include', True) is True:\n            return in_rect")


def load_checks_mutants():
    """Mutants declared next to checks (module attribute MUTANTS)."""
    import importlib
    sys.path.insert(0, VERIF)
    for fn in sorted(os.listdir(os.path.join(VERIF, 'vmon', 'checks'))):
        if fn.startswith('c') and fn.endswith('.py'):
            mod = importlib.import_module('vmon.checks.' + fn[:-3])
            for m in getattr(mod, 'MUTANTS', []):
                M(mod.ID, *m)


def make_scratch(mutant):
    d = tempfile.mkdtemp(prefix='vmon-mut-')
    shutil.copytree(os.path.join(REPO, 'regions'), os.path.join(d, 'regions'),
                    ignore=shutil.ignore_patterns('__pycache__', 'tests', '*.pyc', '*.pyx'))
    if 'patch' in mutant:
        p = subprocess.run(['patch', '-p1', '-s', '-d', d, '-i', mutant['patch']], capture_output=True, text=True)
        if p.returncode:
            shutil.rmtree(d, ignore_errors=True)
            raise RuntimeError(f'patch failed: {p.stdout}{p.stderr}')
        import re
        for cf in set(re.findall(r'^\+\+\+ b/(regions/_geometry/\w+\.c)', open(mutant['patch']).read(), flags=re.M)):
            _rebuild_kernel(os.path.join(d, cf), mutant['name'], d)
        return d
    path = os.path.join(d, mutant['file'])
    src = open(path).read()
    if src.count(mutant['old']) < 1:
        shutil.rmtree(d, ignore_errors=True)
        raise RuntimeError(f"mutant {mutant['name']}: pattern not found in {mutant['file']}")
    src = src.replace(mutant['old'], mutant['new'], mutant.get('count', 1))
    open(path, 'w').write(src)
    if path.endswith('.c'):
        _rebuild_kernel(path, mutant['name'], d)
    return d


def _rebuild_kernel(path, name, d):
    """kernel mutant: rebuild the extension from the mutated generated C (Cython itself is not available)."""
    mutant = {'name': name}
    if True:
        import glob
        base = os.path.basename(path)[:-2]
        so = glob.glob(os.path.join(os.path.dirname(path), base + '.*.so'))
        inc = subprocess.run(['/venv/bin/python', '-c', 'import sysconfig, numpy; print(sysconfig.get_paths()["include"]); print(numpy.get_include())'],
                             capture_output=True, text=True).stdout.split()
        out = so[0] if so else os.path.join(os.path.dirname(path), base + '.cpython-312-x86_64-linux-gnu.so')
        c = subprocess.run(['gcc', '-O1', '-shared', '-fPIC', '-w', '-DNPY_NO_DEPRECATED_API=NPY_1_7_API_VERSION'] + ['-I' + i for i in inc]
                           + ['-I' + os.path.dirname(path), path, '-o', out, '-lm'], capture_output=True, text=True)
        if c.returncode:
            shutil.rmtree(d, ignore_errors=True)
            raise RuntimeError(f"mutant {mutant['name']}: C build failed: {c.stderr[-300:]}")
    return d


def run_mutant(mutant, tier='quick'):
    t0 = time.time()
    try:
        d = make_scratch(mutant)
    except RuntimeError as exc:
        return dict(mutant=mutant['name'], prop=mutant['prop'], status='BROKEN-MUTANT', detail=str(exc), wall=0)
    out = tempfile.mkdtemp(prefix='vmon-mut-out-')
    try:
        env = dict(os.environ, VERIF_REPO=d, VERIF_OUT=out, PYTHONHASHSEED='0',
                   VERIF_SHARDS=os.environ.get('SELFTEST_SHARDS', '4'))
        imp = subprocess.run(['/venv/bin/python', '-c', 'import sys; sys.path.insert(0, sys.argv[1]); import regions; assert regions.__file__.startswith(sys.argv[1])', d],
                             capture_output=True, text=True, env=env)
        if imp.returncode:
            return dict(mutant=mutant['name'], prop=mutant['prop'], status='BROKEN-MUTANT', detail=imp.stderr[-400:], wall=0)
        p = subprocess.run([os.path.join(VERIF, 'vcheck'), mutant['prop'], tier], capture_output=True, text=True, env=env,
                           timeout=3600)
        keys = [l.strip() for l in p.stdout.splitlines() if l.strip().startswith('violated:')]
        status = {1: 'CAUGHT', 0: 'MISSED', 2: 'INCONCLUSIVE'}.get(p.returncode, f'rc={p.returncode}')
        return dict(mutant=mutant['name'], prop=mutant['prop'], status=status, keys=keys[:4],
                    wall=round(time.time() - t0, 1), tail=p.stdout[-300:] if status != 'CAUGHT' else '')
    finally:
        shutil.rmtree(d, ignore_errors=True)
        shutil.rmtree(out, ignore_errors=True)


def seeded_mutants():
    out = []
    sd = os.path.join(VERIF, 'seeded')
    if os.path.isdir(sd):
        for name in sorted(os.listdir(sd)):
            meta = os.path.join(sd, name, 'meta.json')
            patch = os.path.join(sd, name, 'patch.diff')
            if os.path.exists(meta) and os.path.exists(patch):
                m = json.load(open(meta))
                out.append({'prop': m['property'], 'name': 'seeded/' + name, 'patch': patch})
    return out


def main(argv):
    load_checks_mutants()
    tier = 'quick'
    if '--tier' in argv:
        tier = argv[argv.index('--tier') + 1]
        argv = [a for a in argv if a not in ('--tier', tier)]
    muts = list(MUTANTS)
    if '--seeded' in argv:
        muts = seeded_mutants()
    elif '--all' in argv:
        muts += seeded_mutants()
    sel = [a.upper() for a in argv if not a.startswith('--')]
    if sel:
        muts = [m for m in muts if m['prop'] in sel or m['name'] in argv]
    if '--list' in argv:
        for m in muts:
            print(m['prop'], m['name'])
        return 0
    par = int(os.environ.get('SELFTEST_PAR', '4'))
    with ThreadPoolExecutor(par) as ex:
        results = list(ex.map(lambda m: run_mutant(m, tier), muts))
    bad = 0
    for r in results:
        print(f"{r['prop']} {r['mutant']:<40} {r['status']:<14} {r.get('wall', 0):>6}s {' | '.join(r.get('keys', []))[:160]}")
        if r['status'] != 'CAUGHT':
            bad += 1
            print('      ', r.get('detail') or r.get('tail'))
    print(f'{len(results) - bad}/{len(results)} mutants caught')
    if os.environ.get('SELFTEST_JSON'):
        json.dump(results, open(os.environ['SELFTEST_JSON'], 'w'), indent=1)
    return 1 if bad else 0


if __name__ == '__main__':
    sys.exit(main(sys.argv[1:]))
