"""Independent geometric reference models (oracles) for pixel regions.

Every oracle returns a *margin* in pixel units (positive inside, negative
outside, magnitude a lower bound of the distance to the boundary) and a *band*
inside which the answer is rounding-ambiguous and is never judged.
Formulae are deliberately different from the library's where a choice exists
(complex rotation, radial ellipse scaling, +y ray for polygons).
"""
import math
from fractions import Fraction

import numpy as np

EPS64 = float(np.finfo(np.float64).eps)


def eps_of(a):
    a = np.asarray(a)
    if a.dtype.kind == 'f' and a.dtype.itemsize < 8:
        return float(np.finfo(a.dtype).eps)
    return EPS64


def theta_rad(angle):
    """Angle quantity -> radians as float (astropy conversion; trusted)."""
    import astropy.units as u
    return float(angle.to_value(u.rad))


def f64(a):
    return np.asarray(a, dtype=np.float64)


# ---------------------------------------------------------------------------
def _band(L, cx, cy, px, py, eps, theta=0.0, centred=False):
    """Half-width of the zone around the outline in which rounding may decide the answer.

    Shapes defined by a centre (``centred``) asked about float64 / integer positions: the offsets ``p - c`` of two
    float64 numbers carry one rounding of the *offset* (not of the coordinates), and everything after that is relative to
    the offsets, so the zone scales with the reach |p - c| and the size L - not with the distance from the origin.
    Polygons (absolute vertex coordinates enter the edge tests) and narrower query types (the arithmetic may be done
    in that type, where the centre itself is rounded) keep the coordinate-magnitude term."""
    reach = np.maximum(L, np.hypot(px - cx, py - cy))
    if centred and eps <= EPS64:
        return 1e-9 * L + 64.0 * EPS64 * (reach + L) + 4.0 * EPS64 * abs(theta) * reach
    return (1e-9 * L + 64.0 * eps * (abs(cx) + abs(cy) + np.abs(px) + np.abs(py) + L)
            + 4.0 * EPS64 * abs(theta) * reach)


def margin_disk(cx, cy, r, px, py):
    d = np.hypot(px - cx, py - cy)
    return r - d


def _rot_into_frame(cx, cy, theta, px, py):
    z = ((px - cx) + 1j * (py - cy)) * complex(math.cos(theta), -math.sin(theta))
    return z.real, z.imag


def margin_ellipse(cx, cy, w, h, theta, px, py):
    a, b = 0.5 * w, 0.5 * h
    uu, vv = _rot_into_frame(cx, cy, theta, px, py)
    rho = np.hypot(uu / a, vv / b)
    return (1.0 - rho) * min(a, b)


def margin_rect(cx, cy, w, h, theta, px, py):
    uu, vv = _rot_into_frame(cx, cy, theta, px, py)
    return np.minimum(0.5 * w - np.abs(uu), 0.5 * h - np.abs(vv))


def poly_edge_distance(vx, vy, px, py):
    """Min distance from each point to the closed polygon's edges."""
    vx, vy = f64(vx), f64(vy)
    px, py = f64(px).ravel(), f64(py).ravel()
    x1, y1 = vx, vy
    x2, y2 = np.roll(vx, -1), np.roll(vy, -1)
    ex, ey = x2 - x1, y2 - y1
    el2 = ex * ex + ey * ey
    dmin = np.full(px.shape, np.inf)
    for k in range(len(vx)):
        wx, wy = px - x1[k], py - y1[k]
        if el2[k] == 0:
            d = np.hypot(wx, wy)
        else:
            t = np.clip((wx * ex[k] + wy * ey[k]) / el2[k], 0.0, 1.0)
            d = np.hypot(wx - t * ex[k], wy - t * ey[k])
        dmin = np.minimum(dmin, d)
    return dmin


def poly_inside_evenodd_yray(vx, vy, px, py):
    """Even-odd rule, ray cast along +y (the library casts along +x)."""
    vx, vy = f64(vx), f64(vy)
    px, py = f64(px).ravel(), f64(py).ravel()
    n = len(vx)
    cnt = np.zeros(px.shape, dtype=np.int64)
    for i in range(n):
        j = (i + 1) % n
        xi, yi, xj, yj = vx[i], vy[i], vx[j], vy[j]
        if xi == xj:
            continue
        straddle = (xi > px) != (xj > px)
        with np.errstate(all='ignore'):
            yint = yi + (px - xi) * (yj - yi) / (xj - xi)
        cnt += (straddle & (py < yint)).astype(np.int64)
    return (cnt % 2) == 1


def poly_inside_exact(vx, vy, x, y):
    """Exact rational even-odd test of one point (floats are rationals).
    Returns True/False, or None when the point lies exactly on an edge."""
    X, Y = Fraction(float(x)), Fraction(float(y))
    V = [(Fraction(float(a)), Fraction(float(b))) for a, b in zip(vx, vy)]
    n = len(V)
    cnt = 0
    for i in range(n):
        (xi, yi), (xj, yj) = V[i], V[(i + 1) % n]
        # on-segment test
        cross = (xj - xi) * (Y - yi) - (yj - yi) * (X - xi)
        if cross == 0 and min(xi, xj) <= X <= max(xi, xj) and min(yi, yj) <= Y <= max(yi, yj):
            return None
        if xi == xj:
            continue
        if (xi > X) != (xj > X):
            yint = yi + (X - xi) * (yj - yi) / (xj - xi)
            if Y < yint:
                cnt += 1
    return cnt % 2 == 1


def margin_polygon(vx, vy, px, py):
    shape = np.shape(px)
    d = poly_edge_distance(vx, vy, px, py)
    inside = poly_inside_evenodd_yray(vx, vy, px, py)
    return np.where(inside, d, -d).reshape(shape)


def regular_polygon_vertices(cx, cy, n, r, theta):
    k = np.arange(int(n))
    ang = 2.0 * math.pi * k / n + math.pi / 2 + theta
    return cx + r * np.cos(ang), cy + r * np.sin(ang)


# ---------------------------------------------------------------------------
# dispatch on live region objects
def _cls(region):
    return type(region).__name__


def shape_margin(region, px, py):
    """(margin, band) of the *included* shape (include flags ignored), for
    simple shapes and annuli.  px, py: float arrays (any shape) or scalars."""
    name = _cls(region)
    eps = max(eps_of(px), eps_of(py))
    px, py = f64(px), f64(py)
    if name == 'CirclePixelRegion':
        cx, cy, r = float(region.center.x), float(region.center.y), float(region.radius)
        return margin_disk(cx, cy, r, px, py), _band(r, cx, cy, px, py, eps, centred=True)
    if name in ('EllipsePixelRegion', 'RectanglePixelRegion'):
        cx, cy = float(region.center.x), float(region.center.y)
        w, h, th = float(region.width), float(region.height), theta_rad(region.angle)
        f = margin_ellipse if name[0] == 'E' else margin_rect
        L = max(w, h)
        return f(cx, cy, w, h, th, px, py), _band(L, cx, cy, px, py, eps, th, centred=True)
    if name == 'PolygonPixelRegion':
        vx, vy = f64(region.vertices.x), f64(region.vertices.y)
        L = max(np.ptp(vx), np.ptp(vy), 1e-300)
        c = max(np.abs(vx).max(), np.abs(vy).max())
        return margin_polygon(vx, vy, px, py), _band(L, c, c, px, py, eps)
    if name == 'RegularPolygonPixelRegion':
        cx, cy = float(region.center.x), float(region.center.y)
        r, th = float(region.radius), theta_rad(region.angle)
        vx, vy = regular_polygon_vertices(cx, cy, int(region.nvertices), r, th)
        return margin_polygon(vx, vy, px, py), _band(2 * r, cx, cy, px, py, eps, th) * 4
    if name == 'CircleAnnulusPixelRegion':
        cx, cy = float(region.center.x), float(region.center.y)
        ri, ro = float(region.inner_radius), float(region.outer_radius)
        m = np.minimum(margin_disk(cx, cy, ro, px, py), -margin_disk(cx, cy, ri, px, py))
        return m, _band(ro, cx, cy, px, py, eps, centred=True)
    if name in ('EllipseAnnulusPixelRegion', 'RectangleAnnulusPixelRegion'):
        cx, cy = float(region.center.x), float(region.center.y)
        th = theta_rad(region.angle)
        iw, ow = float(region.inner_width), float(region.outer_width)
        ih, oh = float(region.inner_height), float(region.outer_height)
        f = margin_ellipse if name[0] == 'E' else margin_rect
        m = np.minimum(f(cx, cy, ow, oh, th, px, py), -f(cx, cy, iw, ih, th, px, py))
        L = max(ow, oh)
        return m, _band(L, cx, cy, px, py, eps, th, centred=True)
    if name in ('PointPixelRegion', 'TextPixelRegion', 'LinePixelRegion'):
        z = np.zeros(np.shape(px))
        return z - 1.0, z          # contains nothing, never ambiguous
    raise TypeError(name)


def _include(region):
    """The include flag as the statement defines it: absent/truthy -> True."""
    return bool(dict.get(region.meta, 'include', True))


def _op_logic(op):
    from vmon import spec
    return spec.op_logic(op)


def shape_member(region, px, py):
    """(inside, decided) of the included shape; recursive over compounds."""
    if _cls(region) == 'CompoundPixelRegion':
        a, da = shape_member(region.region1, px, py)
        b, db = shape_member(region.region2, px, py)
        return _op_logic(region.operator)(a, b), da & db
    m, band = shape_margin(region, px, py)
    return m > 0, np.abs(m) > band


def contains_member(region, px, py):
    """(inside, decided) as ``contains`` must answer: every operand applies
    its own include flag; the compound negates as a whole when the meta it
    carries says include is false."""
    if _cls(region) == 'CompoundPixelRegion':
        a, da = contains_member(region.region1, px, py)
        b, db = contains_member(region.region2, px, py)
        r = _op_logic(region.operator)(a, b)
        if not _include(region):
            r = np.logical_not(r)
        return r, da & db
    m, band = shape_margin(region, px, py)
    inside = m > 0
    if not _include(region):
        inside = np.logical_not(inside)
    return inside, np.abs(m) > band


# ---------------------------------------------------------------------------
# true extents
def ellipse_half_extents(w, h, theta):
    a, b = 0.5 * w, 0.5 * h
    c, s = math.cos(theta), math.sin(theta)
    return math.hypot(a * c, b * s), math.hypot(a * s, b * c)


def ellipse_half_extents_sampled(w, h, theta, n=720):
    a, b = 0.5 * w, 0.5 * h
    t = np.linspace(0, 2 * math.pi, n, endpoint=False)
    x = a * np.cos(t) * math.cos(theta) - b * np.sin(t) * math.sin(theta)
    y = a * np.cos(t) * math.sin(theta) + b * np.sin(t) * math.cos(theta)
    return float(x.max()), float(y.max())


def rect_corners(cx, cy, w, h, theta):
    out = []
    for sx, sy in ((-1, -1), (1, -1), (1, 1), (-1, 1)):
        z = complex(sx * 0.5 * w, sy * 0.5 * h) * complex(math.cos(theta), math.sin(theta))
        out.append((cx + z.real, cy + z.imag))
    return out


def true_extent(region):
    """(xmin, xmax, ymin, ymax, tol) of the shape's true extent; tol is the
    rounding allowance on each value.  None for compounds."""
    name = _cls(region)
    if name == 'CompoundPixelRegion':
        return None
    if name in ('CirclePixelRegion', 'CircleAnnulusPixelRegion'):
        cx, cy = float(region.center.x), float(region.center.y)
        r = float(region.radius if name[6] == 'P' else region.outer_radius)
        tol = 8 * EPS64 * (abs(cx) + abs(cy) + r)
        return cx - r, cx + r, cy - r, cy + r, tol
    if name in ('EllipsePixelRegion', 'RectanglePixelRegion', 'EllipseAnnulusPixelRegion', 'RectangleAnnulusPixelRegion'):
        cx, cy = float(region.center.x), float(region.center.y)
        th = theta_rad(region.angle)
        if 'Annulus' in name:
            w, h = float(region.outer_width), float(region.outer_height)
        else:
            w, h = float(region.width), float(region.height)
        if name[0] == 'E':
            dx, dy = ellipse_half_extents(w, h, th)
        else:
            cs = rect_corners(0.0, 0.0, w, h, th)
            dx = max(abs(c[0]) for c in cs)
            dy = max(abs(c[1]) for c in cs)
        L = max(w, h)
        tol = 16 * EPS64 * (abs(cx) + abs(cy) + L) + 4 * EPS64 * abs(th) * L
        return cx - dx, cx + dx, cy - dy, cy + dy, tol
    if name == 'PolygonPixelRegion':
        vx, vy = f64(region.vertices.x), f64(region.vertices.y)
        return float(vx.min()), float(vx.max()), float(vy.min()), float(vy.max()), 0.0
    if name == 'RegularPolygonPixelRegion':
        cx, cy = float(region.center.x), float(region.center.y)
        r, th = float(region.radius), theta_rad(region.angle)
        vx, vy = regular_polygon_vertices(cx, cy, int(region.nvertices), r, th)
        tol = 16 * EPS64 * (abs(cx) + abs(cy) + r) + 4 * EPS64 * abs(th) * r + 8 * EPS64 * r
        return float(vx.min()), float(vx.max()), float(vy.min()), float(vy.max()), tol
    if name == 'LinePixelRegion':
        xs = (float(region.start.x), float(region.end.x))
        ys = (float(region.start.y), float(region.end.y))
        return min(xs), max(xs), min(ys), max(ys), 0.0
    if name in ('PointPixelRegion', 'TextPixelRegion'):
        cx, cy = float(region.center.x), float(region.center.y)
        return cx, cx, cy, cy, 0.0
    raise TypeError(name)


def analytic_area(region):
    name = _cls(region)
    if name == 'CirclePixelRegion':
        return math.pi * float(region.radius) ** 2
    if name == 'EllipsePixelRegion':
        return math.pi * float(region.width) * float(region.height) / 4.0
    if name == 'RectanglePixelRegion':
        return float(region.width) * float(region.height)
    if name == 'CircleAnnulusPixelRegion':
        return math.pi * (float(region.outer_radius) ** 2 - float(region.inner_radius) ** 2)
    if name == 'EllipseAnnulusPixelRegion':
        return math.pi / 4 * (float(region.outer_width) * float(region.outer_height)
                              - float(region.inner_width) * float(region.inner_height))
    if name == 'RectangleAnnulusPixelRegion':
        return (float(region.outer_width) * float(region.outer_height)
                - float(region.inner_width) * float(region.inner_height))
    if name == 'RegularPolygonPixelRegion':
        n, r = int(region.nvertices), float(region.radius)
        return 0.5 * n * r * r * math.sin(2 * math.pi / n)
    if name == 'PolygonPixelRegion':
        vx, vy = f64(region.vertices.x), f64(region.vertices.y)
        # shoelace with exact accumulation
        s = math.fsum(float(vx[i]) * float(vy[(i + 1) % len(vx)]) - float(vx[(i + 1) % len(vx)]) * float(vy[i])
                      for i in range(len(vx)))
        return abs(s) / 2.0
    if name in ('PointPixelRegion', 'TextPixelRegion', 'LinePixelRegion'):
        return 0.0
    raise TypeError(name)
