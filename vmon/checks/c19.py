"""C19 - bounding-box arithmetic is exact integer rectangle algebra.

Oracle: the pixel-set model.  A box is the set {(x, y): ixmin<=x<ixmax,
iymin<=y<iymax}; sets are enumerated explicitly for small boxes and handled as
per-axis integer intervals (exact) for large ones.
"""
import itertools
import math

import numpy as np

ID = 'C19'
LEVEL = 'exploration'
EXHAUSTIVE = True
TECHNIQUE = 'runtime oracle (pixel-set model) over exhaustively enumerated small boxes/pairs/triples/image shapes plus random large boxes'
RULE = ('exhaustive lanes enumerate all boxes with corners in [lo, hi] (incl. empty), all ordered pairs, all triples over '
        '[-1, 2], all boxes x image shapes 0..7 x 0..7; each case is one chunk of that enumeration (first box fixed); '
        'random lanes: corners to +-1e9 with numpy integer types, from_float on the 1/8 lattice +-{0, 1 ulp} and at random. '
        'non-trivial = chunk with >=1 judged assertion; judged_assertions counts the individual pairs/triples/slices')
ASSUMPTIONS = ['empty operands: union is judged as a superset of both pixel sets (the statement fixes the smallest box only for non-empty operands)']

K_TOUCH = 'intersection-of-disjoint-boxes-not-None'
K_SLICE_EMPTY = 'overlap-slices-empty-not-None'


def budget(tier):
    return 60 if tier == 'quick' else 600


def shards(tier):
    return 16


def required_counters(tier):
    return {'judged:independent': 200, 'judged:pair': 1000, 'judged:triple': 1000, 'judged:slices': 1000, 'judged:from_float': 500,
            'judged:scalars': 100}


def intervals(lo, hi):
    return [(a, b) for a in range(lo, hi + 1) for b in range(a, hi + 1)]


def boxes(lo, hi):
    iv = intervals(lo, hi)
    return [(x0, x1, y0, y1) for (x0, x1) in iv for (y0, y1) in iv]


def generate(rng, tier, shard, nshards):
    lo, hi = (-2, 3) if tier == 'quick' else (-4, 6)
    nb = len(boxes(lo, hi))
    for i in range(shard, nb, nshards):
        yield {'lane': 'pairs-exhaustive', 'lo': lo, 'hi': hi, 'first': i, 'exhaustive': True}
    nt = len(boxes(-1, 2))
    for i in range(shard, nt, nshards):
        yield {'lane': 'triples-exhaustive', 'lo': -1, 'hi': 2, 'first': i, 'exhaustive': True}
    slo, shi = (-3, 5) if tier == 'quick' else (-4, 9)
    ns = len(boxes(slo, shi))
    for i in range(shard, ns, nshards * (1 if tier != 'quick' else 1)):
        yield {'lane': 'slices-exhaustive', 'lo': slo, 'hi': shi, 'first': i, 'maxshape': 7, 'exhaustive': True}
    if shard == 0:
        yield {'lane': 'from_float-lattice', 'lo': -4, 'hi': 4, 'exhaustive': True}
    n = 300 if tier == 'quick' else 20000
    for i in range(n):
        yield {'lane': rng.choice(['random-large', 'random-triples', 'from_float-random', 'random-slices', 'scalars', 'invalid']),
               'rs': rng.randrange(2 ** 31)}


# -- model ------------------------------------------------------------------
def pixset(b):
    return {(x, y) for x in range(b[0], b[1]) for y in range(b[2], b[3])}


def as_tuple(bb):
    return (int(bb.ixmin), int(bb.ixmax), int(bb.iymin), int(bb.iymax))


def iv_and(a, b):
    lo, hi = max(a[0], b[0]), min(a[1], b[1])
    return (lo, hi) if lo < hi else None


def model_intersection(a, b):
    """common pixel set as a box tuple, or None when empty."""
    ix = iv_and((a[0], a[1]), (b[0], b[1]))
    iy = iv_and((a[2], a[3]), (b[2], b[3]))
    if ix is None or iy is None:
        return None
    return (ix[0], ix[1], iy[0], iy[1])


def is_empty(b):
    return b[0] >= b[1] or b[2] >= b[3]


def contains_box(outer, inner):
    if is_empty(inner):
        return True
    return outer[0] <= inner[0] and inner[1] <= outer[1] and outer[2] <= inner[2] and inner[3] <= outer[3]


def judge_pair(obs, BB, a, b, A, B, small):
    u1 = A.union(B)
    u2 = B | A
    i1 = A.intersection(B)
    i2 = B & A
    tu = as_tuple(u1)
    # union
    if not is_empty(a) and not is_empty(b):
        hull = (min(a[0], b[0]), max(a[1], b[1]), min(a[2], b[2]), max(a[3], b[3]))
        obs.check(tu == hull, 'union-not-smallest', f'union of {a} and {b} is {tu}, smallest enclosing box is {hull}', 'pair')
        if small:
            s = pixset(a) | pixset(b)
            xs = [p[0] for p in s]
            ys = [p[1] for p in s]
            assert hull == (min(xs), max(xs) + 1, min(ys), max(ys) + 1)
    else:
        obs.check(contains_box(tu, a) and contains_box(tu, b), 'union-loses-pixels',
                  f'union of {a} and {b} is {tu}, which does not contain both pixel sets', 'pair')
    obs.check(as_tuple(u2) == tu, 'union-not-commutative', f'{a}|{b} = {tu} but reversed = {as_tuple(u2)}', 'pair')
    # intersection
    mi = model_intersection(a, b)
    if small:
        s = pixset(a) & pixset(b)
        assert (mi is None) == (len(s) == 0) and (mi is None or pixset(mi) == s)
    if mi is None:
        key = 'intersection-not-None'
        if i1 is not None:
            t = as_tuple(i1)
            key = K_TOUCH if is_empty(t) else 'intersection-wrong-pixels'
        obs.check(i1 is None, key, f'{a} and {b} share no pixel but intersection returned {i1!r} instead of None', 'pair')
    else:
        obs.check(i1 is not None and as_tuple(i1) == mi, 'intersection-wrong-pixels',
                  f'intersection of {a} and {b} is {i1!r}, common pixels are the box {mi}', 'pair')
    same = (i1 is None and i2 is None) or (i1 is not None and i2 is not None and as_tuple(i1) == as_tuple(i2))
    obs.check(same, 'intersection-not-commutative', f'{a}&{b} = {i1!r} but reversed = {i2!r}', 'pair')
    # equality
    eq = (A == B)
    obs.check(bool(eq) == (a == b) and isinstance(eq, (bool, np.bool_)), 'eq-wrong', f'{a} == {b} gave {eq!r}', 'pair')


def judge_triple(obs, A, B, C, a, b, c):
    l = as_tuple((A | B) | C)
    r = as_tuple(A | (B | C))
    obs.check(l == r, 'union-not-associative', f'({a}|{b})|{c} = {l} but {a}|({b}|{c}) = {r}', 'triple')

    def inter(X, Y):
        return None if X is None or Y is None else X & Y
    li = inter(inter(A, B), C)
    ri = inter(A, inter(B, C))
    lt = None if li is None else as_tuple(li)
    rt = None if ri is None else as_tuple(ri)
    # compare as pixel sets (None == empty)
    lt = None if lt is None or is_empty(lt) else lt
    rt = None if rt is None or is_empty(rt) else rt
    m = model_intersection(a, b)
    m = None if m is None else model_intersection(m, c)
    obs.check(lt == rt == m, 'intersection-not-associative',
              f'({a}&{b})&{c} = {lt}, {a}&({b}&{c}) = {rt}, common pixels = {m}', 'triple')


def judge_slices(obs, BB, b, B, shape):
    ny, nx = shape
    sl, ss = B.get_overlap_slices(shape)
    # model: common pixels of box and image [0,nx) x [0,ny)
    mi = model_intersection(b, (0, nx, 0, ny))
    if mi is None:
        ok = sl is None and ss is None
        key = 'overlap-slices-wrong'
        if not ok and sl is not None and ss is not None:
            try:
                empty = any(s.stop <= s.start for s in sl) and all(s.stop >= 0 and s.start >= 0 for s in tuple(sl) + tuple(ss))
            except Exception:
                empty = False
            key = K_SLICE_EMPTY if empty else 'overlap-slices-wrong'
        obs.check(ok, key, f'box {b} and image shape {shape} share no pixel but slices are {sl!r}, {ss!r}', 'slices')
        return
    exp_large = (slice(mi[2], mi[3]), slice(mi[0], mi[1]))
    exp_small = (slice(mi[2] - b[2], mi[3] - b[2]), slice(mi[0] - b[0], mi[1] - b[0]))
    ok = sl is not None and ss is not None
    if ok:
        def norm(s, n):
            return tuple(range(*s.indices(n))) if s.start is None or s.start >= 0 else ('neg', s.start, s.stop)
        got_l = (norm(sl[0], ny), norm(sl[1], nx))
        got_s = (norm(ss[0], b[3] - b[2]), norm(ss[1], b[1] - b[0]))
        e_l = (tuple(range(mi[2], mi[3])), tuple(range(mi[0], mi[1])))
        e_s = (tuple(range(exp_small[0].start, exp_small[0].stop)), tuple(range(exp_small[1].start, exp_small[1].stop)))
        ok = got_l == e_l and got_s == e_s
    obs.check(ok, 'overlap-slices-wrong',
              f'box {b} image {shape}: slices {sl!r}, {ss!r}; expected {exp_large}, {exp_small}', 'slices')


def _t(box):
    return None if box is None else as_tuple(box)


def judge_independent(obs, a, b, A, B):
    """results are new objects holding Python ints; editing a result leaves the operands alone; slices index arrays."""
    for name, res in (('union', A | B), ('intersection', A & B)):
        if res is None:
            continue
        ok_t = all(type(getattr(res, k)) is int for k in ('ixmin', 'ixmax', 'iymin', 'iymax'))
        obs.check(ok_t, 'corner-not-a-python-int', f'{name} of {a} and {b} stores corners of types {[type(getattr(res, k)).__name__ for k in ("ixmin", "ixmax", "iymin", "iymax")]}', 'independent')
        obs.check(res is not A and res is not B, 'result-is-an-operand', f'{name} of {a} and {b} returned one of its operands (editing the result would edit the operand)', 'independent')
        # a result is a box like any other: it behaves as the box built afresh from its four corners
        fresh = type(A)(*as_tuple(res))
        shp = (max(a[3], b[3], 1) + 1, max(a[1], b[1], 1) + 1)
        same = (res == fresh and tuple(res.shape) == tuple(fresh.shape)
                and all(_t(res & X) == _t(fresh & X) and _t(res | X) == _t(fresh | X) and _t(X & res) == _t(X & fresh) for X in (A, B, fresh)))
        if shp[0] * shp[1] < 10 ** 7:
            same = same and res.get_overlap_slices(shp) == fresh.get_overlap_slices(shp)
        obs.check(same, 'result-differs-from-box-with-same-corners', f'the {name} of {a} and {b} has corners {as_tuple(res)} but does not behave like '
                  f'RegionBoundingBox{as_tuple(res)} (overlap slices for image {shp}, further unions / intersections)', 'independent')
        res.ixmin -= 3
        res.iymax += 2
        obs.check(as_tuple(A) == a and as_tuple(B) == b, 'editing-result-changes-operand', f'editing the {name} of {a} and {b} changed an operand', 'independent')
    ok_t = all(type(getattr(A, k)) is int for k in ('ixmin', 'ixmax', 'iymin', 'iymax'))
    obs.check(ok_t, 'corner-not-a-python-int', f'box {a} stores corners of types {[type(getattr(A, k)).__name__ for k in ("ixmin", "ixmax", "iymin", "iymax")]}', 'independent')
    ny, nx = max(a[3], 1) + 2, max(a[1], 1) + 2
    if 0 < ny * nx < 10 ** 6 and 0 < A.shape[0] * A.shape[1] < 10 ** 6:
        sl, ss = A.get_overlap_slices((ny, nx))
        if sl is not None:
            img = np.zeros((ny, nx))
            try:
                sub = img[sl]
                small = np.zeros(A.shape)[ss]
                obs.check(sub.shape == small.shape, 'overlap-windows-differ', f'box {a}: windows {sub.shape} vs {small.shape}', 'independent')
            except Exception as exc:
                obs.violation('overlap-slices-unusable', f'box {a}: slices {sl!r} cannot index an array: {type(exc).__name__}: {exc}')


def judge_scalars(obs, b, B):
    ny, nx = b[3] - b[2], b[1] - b[0]
    obs.check(tuple(B.shape) == (ny, nx), 'shape-wrong', f'{b}.shape = {B.shape}', 'scalars')
    ext = tuple(B.extent)
    obs.check(ext == (b[0] - 0.5, b[1] - 0.5, b[2] - 0.5, b[3] - 0.5), 'extent-wrong', f'{b}.extent = {ext}', 'scalars')
    cy, cx = B.center
    ecx, ecy = (b[0] + b[1] - 1) / 2, (b[2] + b[3] - 1) / 2
    obs.check(cx == ecx and cy == ecy, 'center-wrong', f'{b}.center = {(cy, cx)}, expected {(ecy, ecx)}', 'scalars')


def model_from_float(xmin, xmax, ymin, ymax):
    """smallest box whose pixel-edge extent [ixmin-.5, ixmax-.5] covers the
    rectangle, in exact rational arithmetic."""
    from fractions import Fraction as F

    def lo(v):
        return math.floor(F(v) + F(1, 2))

    def hi(v):
        return math.ceil(F(v) + F(1, 2))
    return (lo(xmin), hi(xmax), lo(ymin), hi(ymax))


def judge_from_float(obs, BB, r):
    got = as_tuple(BB.from_float(*r))
    exp = model_from_float(*r)
    # covering + minimality stated directly
    cover = got[0] - 0.5 <= r[0] and r[1] <= got[1] - 0.5 and got[2] - 0.5 <= r[2] and r[3] <= got[3] - 0.5
    obs.check(got == exp and cover, 'from_float-not-smallest-cover',
              f'from_float{r} = {got}, smallest covering box is {exp}', 'from_float')


def run_case(case, obs):
    from regions import RegionBoundingBox as BB
    lane = case['lane']
    if lane == 'pairs-exhaustive':
        bs = boxes(case['lo'], case['hi'])
        a = bs[case['first']]
        A = BB(*a)
        small = case['hi'] - case['lo'] <= 5
        judge_scalars(obs, a, A)
        for b in bs:
            judge_pair(obs, BB, a, b, A, BB(*b), small)
        obs.count('boxes_enumerated')
    elif lane == 'triples-exhaustive':
        bs = boxes(case['lo'], case['hi'])
        objs = [BB(*b) for b in bs]
        a, A = bs[case['first']], objs[case['first']]
        for b, B in zip(bs, objs):
            for c, C in zip(bs, objs):
                judge_triple(obs, A, B, C, a, b, c)
    elif lane == 'slices-exhaustive':
        bs = boxes(case['lo'], case['hi'])
        b = bs[case['first']]
        B = BB(*b)
        for ny in range(case['maxshape'] + 1):
            for nx in range(case['maxshape'] + 1):
                judge_slices(obs, BB, b, B, (ny, nx))
    elif lane == 'from_float-lattice':
        vals = []
        for k in range(case['lo'] * 8, case['hi'] * 8 + 1):
            v = k / 8.0
            vals += [v, np.nextafter(v, np.inf).item(), np.nextafter(v, -np.inf).item()]
        nrng = np.random.default_rng(1)
        for xmin in vals:
            for xmax in [v for v in vals if v >= xmin][::7][:12] + [xmin]:
                ymin, ymax = sorted(nrng.choice(vals, 2))
                judge_from_float(obs, BB, (xmin, xmax, float(ymin), float(ymax)))
                judge_from_float(obs, BB, (float(ymin), float(ymax), xmin, xmax))
    else:
        nrng = np.random.default_rng(case['rs'])
        ityp = [int, np.int64, np.int32, np.int16, np.int8, np.uint8, np.intp]

        def rbox(mag=None):
            t = ityp[nrng.integers(len(ityp))]
            m = mag or 10 ** nrng.integers(0, 10)
            if t in (np.int32,):
                m = min(m, 2 ** 30)
            if t is np.int16:
                m = min(m, 2 ** 14)
            if t in (np.int8, np.uint8):
                m = min(m, 60)
            lo = 0 if t is np.uint8 else -m
            x = sorted(int(v) for v in nrng.integers(lo, m + 1, 2))
            y = sorted(int(v) for v in nrng.integers(lo, m + 1, 2))
            tup = (x[0], x[1], y[0], y[1])
            if nrng.random() < 0.3 and min(tup) >= 0:
                # every corner in its own integer type (incl. unsigned 64-bit mixed with signed / Python ints)
                mixed = [np.uint64, int, np.int32, np.int64, np.uintp] + ([np.uint16] if max(tup) < 60000 else [])
                if max(tup) >= 2 ** 31:
                    mixed.remove(np.int32)
                return tup, BB(*[mixed[nrng.integers(len(mixed))](v) for v in tup])
            return tup, BB(*[t(v) for v in tup])
        if lane == 'random-large':
            for _ in range(20):
                m = 10 ** nrng.integers(0, 10)
                (a, A), (b, B) = rbox(m), rbox(m)
                judge_pair(obs, BB, a, b, A, B, False)
                judge_scalars(obs, a, A)
                judge_independent(obs, a, b, A, B)
        elif lane == 'random-triples':
            for _ in range(20):
                m = 10 ** nrng.integers(0, 10)
                (a, A), (b, B), (c, C) = rbox(m), rbox(m), rbox(m)
                judge_triple(obs, A, B, C, a, b, c)
        elif lane == 'random-slices':
            for _ in range(20):
                m = 10 ** nrng.integers(0, 4)
                b, B = rbox(m)
                shape = (int(nrng.integers(0, 2 * m + 2)), int(nrng.integers(0, 2 * m + 2)))
                judge_slices(obs, BB, b, B, shape)
        elif lane == 'scalars':
            for _ in range(20):
                b, B = rbox()
                judge_scalars(obs, b, B)
        elif lane == 'from_float-random':
            for _ in range(20):
                m = 10.0 ** nrng.uniform(-3, 9)
                x = np.sort(nrng.uniform(-m, m, 2))
                y = np.sort(nrng.uniform(-m, m, 2))
                if nrng.random() < 0.3:
                    x = np.round(x * 2) / 2
                    y = np.round(y * 2) / 2
                judge_from_float(obs, BB, (float(x[0]), float(x[1]), float(y[0]), float(y[1])))
                # limits that happen to be whole numbers, carried by the number types a caller may hold (a rectangle from x=1 to x=10
                # is the same rectangle whether its limits are ints, NumPy ints, float32 or float64 values)
                xi, yi = sorted(int(v) for v in nrng.integers(-50, 50, 2)), sorted(int(v) for v in nrng.integers(-50, 50, 2))
                kind = int(nrng.integers(5))
                conv = [int, np.int64, np.int32, np.float32, np.float64][kind]
                lims = tuple(conv(v) for v in (xi[0], xi[1], yi[0], yi[1]))
                if nrng.random() < 0.3:
                    lims = (lims[0], float(lims[1]) + 0.5, lims[2], lims[3])          # mixed types
                got = as_tuple(BB.from_float(*lims))
                exp = model_from_float(*[float(v) for v in lims])
                obs.count('from_float-typed-limits')
                obs.check(got == exp, 'from_float-not-smallest-cover', f'from_float{lims!r} = {got}, smallest covering box is {exp}', 'from_float')
        elif lane == 'invalid':
            # constructor must refuse non-integers and inverted corners
            for bad, exc in [((0.5, 2, 0, 1), TypeError), ((0, 2.0, 0, 1), TypeError), ((3, 2, 0, 1), ValueError),
                             ((0, 1, 5, 4), ValueError), (('1', 2, 0, 1), TypeError), ((None, 2, 0, 1), TypeError)]:
                try:
                    BB(*bad)
                    obs.violation('constructor-accepts-invalid', f'RegionBoundingBox{bad} accepted')
                except exc:
                    obs.ok(1, 'invalid')
                except Exception as e:
                    obs.violation('constructor-wrong-exception', f'RegionBoundingBox{bad} raised {type(e).__name__}')


MUTANTS = [
    ('union-max-min-swapped-x', 'regions/core/bounding_box.py', 'ixmax = max((self.ixmax, other.ixmax))', 'ixmax = min((self.ixmax, other.ixmax))'),
    ('intersection-y-uses-x', 'regions/core/bounding_box.py', 'iymin = max(self.iymin, other.iymin)', 'iymin = max(self.iymin, other.ixmin)'),
    ('slices-clip-shape0-on-x', 'regions/core/bounding_box.py', 'slice(max(xmin, 0), min(xmax, shape[1])))', 'slice(max(xmin, 0), min(xmax, shape[0])))'),
    ('slices-small-no-clip', 'regions/core/bounding_box.py', 'slices_small = (slice(max(-ymin, 0),', 'slices_small = (slice(-ymin,'),
    ('from_float-round', 'regions/core/bounding_box.py', 'ixmin = lower(xmin)', 'ixmin = int(np.round(xmin))'),
    ('from_float-ceil-no-half', 'regions/core/bounding_box.py', 'iymax = upper(ymax)', 'iymax = int(np.ceil(ymax)) + 1'),
    ('from_float-sum-rounded', 'regions/core/bounding_box.py', 'ixmax = upper(xmax)', 'ixmax = int(np.ceil(xmax + 0.5))'),
    ('from_float-edge-inclusive', 'regions/core/bounding_box.py', '(2 if value > base + 0.5 else 1)', '(2 if value >= base + 0.5 else 1)'),
    ('intersection-touching-box', 'regions/core/bounding_box.py', 'if ixmax <= ixmin or iymax <= iymin:', 'if ixmax < ixmin or iymax < iymin:'),
    ('center-off-by-half', 'regions/core/bounding_box.py', '0.5 * (self.ixmax - 1 + self.ixmin))', '0.5 * (self.ixmax + self.ixmin))'),
    ('eq-ignores-iymax', 'regions/core/bounding_box.py', "                and (self.iymax == other.iymax))", "                and (self.iymin == other.iymin))"),
    ('no-overlap-test-lt', 'regions/core/bounding_box.py', 'if (xmin >= shape[1] or ymin >= shape[0]', 'if (xmin > shape[1] or ymin > shape[0]'),
]
