"""C02 - centre and subpixel masks are the sampled membership function.

Monitor: every to_mask return (incl. the operand masks a compound/annulus
requests) is compared, pixel by pixel, with the oracle's count of member
sub-sample centres (interval [n_in, n_in+n_ambiguous]/n^2).
"""
import random

import numpy as np

from vmon import gen, geom, monitors, spec as S

ID = 'C02'
LEVEL = 'exploration'
TECHNIQUE = 'runtime monitor on every to_mask return; oracle = independent membership model sampled at the n x n sub-sample centres (interval-valued at rounding-ambiguous samples)'
RULE = ('cases = (maskable pixel region spec, mode, n): circle/ellipse/rectangle/polygon/regular polygon/3 annuli/compounds depth<=2 x '
        'sizes 0.3..40 px (+ some to 300) x n in 1..12 x grid alignment (centre at k, k+1/2, k+1/4, generic, far 1e4..1e6) x '
        'non-square aspect x angles incl. multiples of 45 deg; plus unsupported-combination and invalid-argument cases; '
        'non-trivial = >=1 judged pixel or raise; distinct = distinct case specs')
ASSUMPTIONS = ['sub-sample centres within the rounding band of the boundary widen the accepted interval instead of being judged']


def budget(tier):
    return 50 if tier == 'quick' else 480


def shards(tier):
    return 16


def required_counters(tier):
    d = {f'monitor:to_mask:{c}:center': 10 for c in gen.MASKABLE + ['CompoundPixelRegion']}
    d.update({f'monitor:to_mask:{c}:subpixels': 10 for c in gen.SIMPLE_PIX})
    d.update({'judged:mask-pixels': 10000, 'judged:n1-equals-center': 50, 'judged:unsupported-raises': 50, 'judged:mask-vs-own-contains': 5000, 'judged:invalid-raises': 50, 'history-steps': 50, 'result-edited-then-requested-again': 50})
    return d


def setup(obs):
    monitors.install_to_mask_monitor(obs, [monitors.judge_mask_sampled,
                                           lambda o, region, mode, sub, mask: monitors.judge_mask_bbox(o, region, mask)])


def mask_region_spec(rng, cls=None, big=False):
    cls = cls or rng.choice(gen.MASKABLE)
    L = (gen.logu(rng, 0.3, 40) if rng.random() < 0.85 else gen.logu(rng, 0.01, 0.3)) if not big else gen.logu(rng, 100, 300)
    kind = rng.choice(['int', 'half', 'quarter', 'generic', 'generic', 'far'])
    if kind == 'int':
        c = (float(rng.randint(-20, 20)), float(rng.randint(-20, 20)))
    elif kind == 'half':
        c = (rng.randint(-20, 20) + 0.5, rng.randint(-20, 20) + 0.5)
    elif kind == 'quarter':
        c = (rng.randint(-20, 20) + rng.choice([0.25, 0.75]), rng.randint(-20, 20) + rng.choice([0.25, 0.5]))
    elif kind == 'generic':
        c = (rng.uniform(-50, 50), rng.uniform(-50, 50))
    else:
        m = gen.logu(rng, 1e4, 1e6)
        c = (rng.choice([-1, 1]) * m + rng.random(), rng.choice([-1, 1]) * m * rng.uniform(0.5, 1) + rng.choice([0, 0.5, rng.random()]))
    ang = gen.angle_spec(rng, rng.choice(['uniform', 'uniform', 'mult45', 'mult90', 'zero', 'huge']))
    return gen.pixel_region_spec(rng, cls=cls, size=L, center=c, angle=ang, max_aspect=8.0, include=rng.choice(['absent', 'absent', False, 0, True]))


def generate(rng, tier, shard, nshards):
    n = 1500 if tier == 'quick' else 40000
    for i in range(n):
        r = rng.random()
        if r < 0.08:
            yield {'lane': 'unsupported', 'rs': rng.randrange(2 ** 31)}
            continue
        if r < 0.2:
            base = rng.choice([(0.0, 0.0), (rng.randint(-30, 30) + 0.5, float(rng.randint(-30, 30))),
                               (rng.uniform(-100, 100), rng.uniform(-100, 100)), (float(rng.randint(10 ** 4, 10 ** 6)), -float(rng.randint(10 ** 4, 10 ** 6)))])

            def leaf():
                return shift_to(mask_region_spec(rng), base[0] + rng.uniform(-25, 25), base[1] + rng.uniform(-25, 25))
            reg = gen.compound_spec(rng, rng.randint(1, 2), leaf)
            while reg['cls'] != 'CompoundPixelRegion':
                reg = gen.compound_spec(rng, 2, leaf)
            # operands near each other so that boxes overlap / nest / are disjoint with different pads
            yield {'lane': 'compound', 'region': reg, 'mode': 'center', 'n': 1}
            continue
        if r < 0.28:
            # lattice lane: centre on the half-integer lattice, sizes multiples of 1/2, no rotation, 1/2/4 sub-samples per
            # axis - every sample position and every squared distance is exact in binary floating point, so samples lying
            # EXACTLY on the outline (axis tips, Pythagorean offsets, rectangle edges) are decided, not skipped
            cls = rng.choice(['CirclePixelRegion', 'CirclePixelRegion', 'CircleAnnulusPixelRegion', 'RectanglePixelRegion', 'RectangleAnnulusPixelRegion'])
            c = S.pix(rng.randint(-40, 40) + rng.choice([0.0, 0.0, 0.5]), rng.randint(-40, 40) + rng.choice([0.0, 0.0, 0.5]))
            k = rng.choice([rng.randint(1, 120), rng.choice([5, 10, 13, 14, 25, 27, 28, 29, 50, 54, 58, 65, 7])])        # radius = k/2 or k
            rad = k / 2 if rng.random() < 0.5 else float(k)
            if cls == 'CirclePixelRegion':
                reg = S.reg(cls, center=c, radius=rad)
            elif cls == 'CircleAnnulusPixelRegion':
                reg = S.reg(cls, center=c, inner_radius=rad, outer_radius=rad + rng.randint(1, 30) / 2)
            elif cls == 'RectanglePixelRegion':
                reg = S.reg(cls, center=c, width=float(rng.randint(1, 60)), height=rng.randint(1, 120) / 2, angle=S.q(0.0, 'deg'))
            else:
                w, h = float(rng.randint(1, 40)), rng.randint(1, 80) / 2
                reg = S.reg(cls, center=c, inner_width=w, outer_width=w + rng.randint(1, 20), inner_height=h, outer_height=h + rng.randint(1, 40) / 2,
                            angle=S.q(0.0, 'deg'))
            inc = rng.choice(['absent', 'absent', False])
            if inc != 'absent':
                reg['meta'] = {'include': inc}
            sub = 1 if 'Annulus' in cls else rng.choice([1, 1, 2, 4])
            yield {'lane': 'lattice', 'region': reg, 'mode': 'center' if sub == 1 and rng.random() < 0.7 else 'subpixels', 'n': sub}
            continue
        big = r > 0.97
        reg = mask_region_spec(rng, big=big)
        annulus = 'Annulus' in reg['cls']
        mode = 'center' if annulus else rng.choice(['center', 'subpixels', 'subpixels', 'subpixels'])
        nsub = rng.randint(1, 12) if not big else rng.randint(1, 2)
        yield {'lane': reg['cls'] + ':' + mode, 'region': reg, 'mode': mode, 'n': nsub,
               'history': rng.randrange(1, 2 ** 31) if (rng.random() < 0.3 and not big) else 0}


def shift_to(spec, cx, cy):
    """move a region spec so that its centre (or first vertex) sits at (cx, cy)."""
    p = spec['p']
    if 'center' in p:
        p['center'] = S.pix(cx, cy)
    elif 'vertices' in p:
        vx = np.array(p['vertices']['x']['a'], dtype=float)
        vy = np.array(p['vertices']['y']['a'], dtype=float)
        if 'origin' in p:
            p['origin'] = S.pix(cx - vx.mean(), cy - vy.mean())
        else:
            p['vertices'] = S.pix(S.arr_spec(vx - vx.mean() + cx), S.arr_spec(vy - vy.mean() + cy))
    return spec


def driver_extra(tier, seed, rundir):
    """thorough tier: the repository's own test-suite as an additional, organically shaped workload for the same monitor."""
    if tier != 'thorough':
        return None
    from vmon import suite
    return suite.run_suite_lane(ID, 'to_mask')


def run_case(case, obs):
    if case['lane'].startswith('suite:'):
        return monitors.replay_suite_case(case, obs)
    if case['lane'] == 'unsupported':
        return run_unsupported(case, obs)
    region = S.build(case['region'])
    mode, n = case['mode'], case['n']
    if case['lane'] == 'lattice':
        return run_lattice(case, obs, region, mode, n)
    if mode == 'center':
        m = region.to_mask(mode='center') if n % 2 else region.to_mask()      # default mode is 'center'
    else:
        m = region.to_mask(mode='subpixels', subpixels=n)
    if case['n'] % 3 == 0 and np.asarray(m.data).size and np.asarray(m.data).flags.writeable:
        # the returned array belongs to the caller: editing it must not show in a later, equal request
        np.asarray(m.data)[...] = 0.375
        twin = S.build(case['region'])
        obs.count('result-edited-then-requested-again')
        if mode == 'center':
            twin.to_mask(mode='center')          # judged by the monitor
            region.to_mask(mode='center')
        else:
            twin.to_mask(mode='subpixels', subpixels=n)
            region.to_mask(mode='subpixels', subpixels=n)
    if case.get('history'):
        import random
        prng = random.Random(case['history'])
        for _ in range(2):
            gen.mutate_live(region, prng)
            obs.count('history-steps')
            bb = region.bounding_box
            if bb.shape[0] * bb.shape[1] * n * n > 2_000_000:
                break
            if mode == 'center':
                region.to_mask(mode='center')
            else:
                region.to_mask(mode='subpixels', subpixels=n)
    # n = 1 is identical to 'center'
    cls = type(region).__name__
    if cls in gen.SIMPLE_PIX and (n == 1 or mode == 'center'):
        m1 = region.to_mask(mode='subpixels', subpixels=1)
        mc = region.to_mask(mode='center')
        obs.check(np.array_equal(np.asarray(m1.data), np.asarray(mc.data)) and m1.data.shape == mc.data.shape,
                  'n1-differs-from-center', f'{cls}: subpixels=1 mask differs from centre mask', 'n1-equals-center')


def run_lattice(case, obs, region, mode, n):
    """exact comparison of a mask with the membership function at its sample positions (all arithmetic exact)."""
    import regions
    cls = type(region).__name__
    if 'Annulus' in cls or mode == 'center':
        m = region.to_mask(mode='center')
    else:
        m = region.to_mask(mode='subpixels', subpixels=n)
    bb = m.bbox
    data = np.asarray(m.data, dtype=float)
    ny, nx = data.shape
    off = (np.arange(n) + 0.5) / n - 0.5                      # dyadic sample offsets inside a pixel
    xs = (np.arange(bb.ixmin, bb.ixmax)[:, None] + off[None, :]).ravel()
    ys = (np.arange(bb.iymin, bb.iymax)[:, None] + off[None, :]).ravel()
    X, Y = np.meshgrid(xs, ys)
    # the shape itself (the flag is not part of a mask: masks describe the included shape)
    shape = region.copy(meta=regions.RegionMeta())
    member = np.asarray(shape.contains(regions.PixCoord(X, Y)), dtype=float)
    exp = member.reshape(ny, n, nx, n).mean(axis=(1, 3))
    bad = data != exp
    obs.count('lattice-samples-exactly-on-outline', int(on_outline(shape, X, Y)))
    if bad.any():
        j, i = [int(v[0]) for v in np.nonzero(bad)]
        obs.violation('lattice-mask-differs-from-exact-membership:' + cls,
                      f'{cls} {mode} n={n}: pixel ({bb.ixmin + i}, {bb.iymin + j}) has value {data[j, i]!r}, the membership function at its '
                      f'{n * n} sample position(s) averages {exp[j, i]!r} (exact arithmetic); {int(bad.sum())} pixels differ', region=repr(region)[:200])
    else:
        obs.ok(int(data.size), 'lattice-mask')
    # the membership function itself on the lattice, against integer arithmetic (circles: strictly inside)
    if cls == 'CirclePixelRegion':
        cx8, cy8, r8 = int(round(region.center.x * 8)), int(round(region.center.y * 8)), int(round(region.radius * 8))
        d2 = (np.round(X * 8).astype(np.int64) - cx8) ** 2 + (np.round(Y * 8).astype(np.int64) - cy8) ** 2
        obs.check(bool(np.array_equal(member.astype(bool), d2 < r8 * r8)), 'lattice-membership-differs-from-integer-model',
                  f'{cls}: contains differs from dx^2 + dy^2 < r^2 in integer arithmetic on the 1/8 lattice', 'lattice-mask')


def on_outline(shape, X, Y):
    cls = type(shape).__name__
    if cls == 'CirclePixelRegion':
        d2 = (X - shape.center.x) ** 2 + (Y - shape.center.y) ** 2
        return np.sum(d2 == shape.radius ** 2)
    if cls == 'CircleAnnulusPixelRegion':
        d2 = (X - shape.center.x) ** 2 + (Y - shape.center.y) ** 2
        return np.sum((d2 == shape.inner_radius ** 2) | (d2 == shape.outer_radius ** 2))
    if cls == 'RectanglePixelRegion':
        dx, dy = np.abs(X - shape.center.x), np.abs(Y - shape.center.y)
        return np.sum(((dx == shape.width / 2) & (dy <= shape.height / 2)) | ((dy == shape.height / 2) & (dx <= shape.width / 2)))
    return 0


UNSUPPORTED = [('RectanglePixelRegion', 'exact', 5), ('PolygonPixelRegion', 'exact', 5), ('RegularPolygonPixelRegion', 'exact', 5),
               ('CircleAnnulusPixelRegion', 'exact', 5), ('EllipseAnnulusPixelRegion', 'exact', 5), ('RectangleAnnulusPixelRegion', 'exact', 5),
               ('CircleAnnulusPixelRegion', 'subpixels', 3), ('EllipseAnnulusPixelRegion', 'subpixels', 3),
               ('RectangleAnnulusPixelRegion', 'subpixels', 3), ('compound', 'exact', 5), ('compound', 'subpixels', 3), ('compound', 'subpixels', 1), ('compound', 'subpixels', 1),
               ('CircleAnnulusPixelRegion', 'subpixels', 1), ('EllipseAnnulusPixelRegion', 'subpixels', 1), ('RectangleAnnulusPixelRegion', 'subpixels', 1),
               ('PointPixelRegion', 'center', 1), ('PointPixelRegion', 'subpixels', 2), ('PointPixelRegion', 'exact', 1),
               ('LinePixelRegion', 'center', 1), ('LinePixelRegion', 'exact', 1), ('TextPixelRegion', 'center', 1),
               ('TextPixelRegion', 'subpixels', 4), ('compound-with-unmaskable-operand', 'center', 1), ('compound-with-unmaskable-operand', 'center', 1),
               ('compound-with-unmaskable-operand', 'center', 5)]
INVALID = [('foo', 5), ('', 1), ('Center', 1), ('subpixels', 0), ('subpixels', -1), ('subpixels', 2.5), ('subpixels', '3'), (None, 1)]


def run_unsupported(case, obs):
    prng = random.Random(case['rs'])
    cls, mode, n = prng.choice(UNSUPPORTED)
    if cls == 'compound-with-unmaskable-operand':
        # a compound one of whose operands (point / line / text, at any depth) has no mask has no mask either
        leaf = lambda: mask_region_spec(prng, cls=prng.choice(gen.SIMPLE_PIX))
        bad = gen.pixel_region_spec(prng, cls=prng.choice(['PointPixelRegion', 'LinePixelRegion', 'TextPixelRegion']), size=gen.logu(prng, 1, 20),
                                    center=(prng.uniform(-25, 25), prng.uniform(-25, 25)))
        a, b = (leaf(), bad) if prng.random() < 0.5 else (bad, leaf())
        spec = S.reg('CompoundPixelRegion', region1=a, region2=b, operator=prng.choice(['and', 'or', 'xor']))
        if prng.random() < 0.3:
            spec = S.reg('CompoundPixelRegion', region1=leaf(), region2=spec, operator=prng.choice(['and', 'or', 'xor']))
        obs.count('compounds-with-unmaskable-operand')
    elif cls == 'compound':
        leaf = lambda: mask_region_spec(prng, cls=prng.choice(gen.SIMPLE_PIX))
        spec = S.reg('CompoundPixelRegion', region1=leaf(), region2=leaf(), operator=prng.choice(['and', 'or', 'xor']))
    else:
        spec = gen.pixel_region_spec(prng, cls=cls, size=gen.logu(prng, 1, 20), center=(prng.uniform(-5, 5), prng.uniform(-5, 5)))
    region = S.build(spec)
    try:
        r = region.to_mask(mode=mode, subpixels=n)
        obs.violation('unsupported-combination-returned-a-mask', f'{cls}.to_mask(mode={mode!r}, subpixels={n}) returned {type(r).__name__} instead of raising NotImplementedError')
    except NotImplementedError:
        obs.ok(1, 'unsupported-raises')
    except Exception as exc:
        obs.violation('unsupported-combination-wrong-exception', f'{cls}.to_mask(mode={mode!r}) raised {type(exc).__name__}: {exc}')
    # invalid arguments on a simple shape
    scls = prng.choice(gen.SIMPLE_PIX)
    region = S.build(gen.pixel_region_spec(prng, cls=scls, size=gen.logu(prng, 1, 20), center=(prng.uniform(-5, 5), prng.uniform(-5, 5))))
    mode, n = prng.choice(INVALID)
    try:
        r = region.to_mask(mode=mode, subpixels=n)
        obs.violation('invalid-argument-returned-a-mask', f'{scls}.to_mask(mode={mode!r}, subpixels={n!r}) returned {type(r).__name__} instead of raising ValueError')
    except ValueError:
        obs.ok(1, 'invalid-raises')
    except Exception as exc:
        obs.violation('invalid-argument-wrong-exception', f'{scls}.to_mask(mode={mode!r}, subpixels={n!r}) raised {type(exc).__name__}: {exc}')


MUTANTS = [
    ('circle-grid-origin-no-half', 'regions/shapes/circle.py', 'xmin = float(bbox.ixmin) - 0.5 - self.center.x', 'xmin = float(bbox.ixmin) - self.center.x'),
    ('rectangle-nx-ny-swapped', 'regions/shapes/rectangle.py', 'fraction = rectangular_overlap_grid(xmin, xmax, ymin, ymax, nx, ny,', 'fraction = rectangular_overlap_grid(xmin, xmax, ymin, ymax, ny, nx,'),
    ('compound-pad-left-right-swapped', 'regions/core/compound.py', "((pbottom, ptop), (pleft, pright))", "((pbottom, ptop), (pright, pleft))"),
    ('compound-pad-top-bottom-swapped', 'regions/core/compound.py', "((pbottom, ptop), (pleft, pright))", "((ptop, pbottom), (pleft, pright))"),
    ('ellipse-center-not-rewritten', 'regions/shapes/ellipse.py', "        if mode == 'center':\n            mode = 'subpixels'\n            subpixels = 1\n", "        if mode == 'center':\n            mode = 'subpixels'\n"),
    ('polygon-mask-include-applied', 'regions/shapes/polygon.py', '        return RegionMask(fraction, bbox=bbox)', "        if not self.meta.get('include', True):\n            fraction = 1 - fraction\n        return RegionMask(fraction, bbox=bbox)"),
    ('ellipse-halfwidth-swapped', 'regions/shapes/ellipse.py', '0.5 * self.width, 0.5 * self.height,', '0.5 * self.height, 0.5 * self.width,'),
    ('ellipse-angle-degrees', 'regions/shapes/ellipse.py', 'self.angle.to(u.rad).value,', 'self.angle.to(u.deg).value,'),
    ('compound-subpixels-allowed', 'regions/core/compound.py', "        if mode != 'center':\n            raise NotImplementedError", "        if mode == 'exact':\n            raise NotImplementedError"),
    ('validate-allows-zero-subpixels', 'regions/core/core.py', 'or subpixels <= 0)):', 'or subpixels < 0)):'),
    ('point-mask-returns-none', 'regions/shapes/point.py', '    def to_mask(self, mode=\'center\', subpixels=5):\n        # TODO: needs to be implemented\n        raise NotImplementedError', '    def to_mask(self, mode=\'center\', subpixels=5):\n        return None'),
]
