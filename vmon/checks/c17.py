"""C17 - no sequence of constructions and assignments yields an invalid region.

Observed: every constructor call / attribute assignment / deletion / dict and
list mutation in generated histories: accepted or raised(type).  Oracle: an
independent per-parameter domain catalogue; after every event the object is
checked against it (quiescent points only, i.e. after the call returned), and
after a rejection its deep fingerprint must equal the one taken before.
"""
import random

import decimal
import fractions

import numpy as np

from vmon import gen, spec as S

ID = 'C17'
LEVEL = 'exploration'
TECHNIQUE = 'runtime invariant checking over generated construction/assignment histories: independent domain catalogue + before/after fingerprints at every event'
RULE = ('cases = histories: (class, parameter, invalid value) at construction; sequences (<=20) of valid/invalid assignments and deletions '
        'on a live region of every class; sequences of dict mutations (setitem, update x3 forms, setdefault, |=, constructor, fromkeys) on '
        'RegionMeta/RegionVisual; Regions constructor/append/extend/insert with non-region members; RegionMask/box shape checks. '
        'non-trivial = >=1 judged event; distinct = distinct histories')
ASSUMPTIONS = ['0-d arrays as sizes may be accepted or rejected (the statement calls them non-scalar, NumPy calls them scalars); only atomicity is judged for them',
               'bool sizes and NaN angles are not generated (the statement does not settle them)']

REJECT = (ValueError, TypeError, KeyError)
K_NONFINITE = 'non-finite-size-accepted'
K_ANNULUS = 'annulus-inner-ge-outer-accepted-on-assignment'
K_IOR = 'meta-ior-bypasses-whitelist'
K_UPDATE = 'meta-update-not-atomic'
K_INSERT = 'regions-insert-accepts-non-region'
K_INPLACE = 'rejected-augmented-assignment-on-quantity-changed-object'

META_KEYS = ['background', 'comment', 'component', 'composite', 'corr', 'delete', 'edit', 'fixed', 'frame', 'highlite', 'include',
             'label', 'line', 'move', 'name', 'range', 'restfreq', 'rotate', 'select', 'source', 'tag', 'text', 'textrotate',
             'type', 'veltype']
VISUAL_KEYS = ['color', 'dash', 'dashlist', 'fill', 'font', 'fontname', 'fontsize', 'fontstyle', 'fontweight', 'labeloff',
               'labelpos', 'labelcolor', 'line', 'linestyle', 'linewidth', 'marker', 'markersize', 'symbol', 'symsize', 'symthick',
               'textangle', 'textrotate', 'usetex', 'default_style', 'dashes', 'markeredgewidth', 'rotation', 'facecolor', 'edgecolor']
VISUAL_ALIASES = {'point': 'symbol', 'width': 'linewidth'}
BAD_KEYS = ['foo', 'Include', 'colour', '', 'labels', 'tags', 'inc lude', 'width ', 0, None, ('a',), 'meta']


def budget(tier):
    return 50 if tier == 'quick' else 420


def shards(tier):
    return 16


def required_counters(tier):
    return {'judged:ctor-invalid-rejected': 300, 'judged:assign-invalid-rejected': 500, 'judged:assign-valid-accepted': 500,
            'judged:rejected-leaves-unchanged': 500, 'judged:delete-refused': 100, 'judged:meta-event': 500,
            'judged:regions-list-event': 100, 'judged:invariant': 1000}


# -- domain catalogue: kind of every shape parameter ---------------------------
def param_kind(cls_name, param):
    sky = 'Sky' in cls_name
    if param in ('center', 'start', 'end'):
        return 'sky-scalar' if sky else 'pix-scalar'
    if param == 'vertices':
        return 'sky-1d' if sky else 'pix-1d'
    if param == 'angle':
        return 'angle'
    if param == 'nvertices':
        return 'nvertices'
    if param == 'text':
        return 'text'
    if param in ('region1', 'region2'):
        return 'skyregion' if sky else 'pixregion'
    if param == 'operator':
        return 'operator'
    return 'size-sky' if sky else 'size-pix'


INVALID = {
    'size-pix': ['zero', 'neg', 'nan', 'inf', '-inf', 'str', 'none', 'list', 'arr1d', 'q-angle', 'q-length', 'complex', 'neg-int', 'tuple',
                 # the same invalid values carried by other numeric types Python / NumPy offer
                 'dec-inf', 'dec-nan', 'dec-neg', 'dec-zero', 'frac-neg', 'frac-zero', 'f32-inf', 'f32-nan', 'f16-inf', 'ld-inf', 'ld-neg',
                 'i64-zero', 'i8-neg', 'huge-neg-int', 'f32-neg', 'u8-zero'],
    'size-sky': ['zero-q', 'neg-q', 'nan-q', 'inf-q', 'plain-float', 'str', 'none', 'q-length', 'q-arr1d', 'q-dimensionless', 'list', 'q-solid-angle',
                 'q-deg2', 'q-angular-speed'],
    'angle': ['plain-float', 'str', 'none', 'q-length', 'q-arr1d', 'q-dimensionless', 'list', 'q-time', 'q-solid-angle', 'q-deg2', 'q-angular-speed'],
    'pix-scalar': ['pix-1d', 'pix-2d', 'sky-scalar', 'tuple', 'none', 'str', 'plain-float', 'list'],
    'pix-1d': ['pix-scalar', 'pix-2d', 'pix-col', 'pix-3d', 'pix-row-col', 'pix-flat-col', 'sky-1d', 'tuple', 'none', 'list', 'arr2d'],
    'sky-scalar': ['sky-1d', 'pix-scalar', 'tuple', 'none', 'str', 'q-angle'],
    'sky-1d': ['sky-scalar', 'sky-2d', 'pix-1d', 'none', 'list'],
    'nvertices': ['zero', 'neg', 'nan', 'str', 'none', 'list'],
    'pixregion': ['none', 'str', 'a-sky-region', 'plain-float'],
    'skyregion': ['none', 'str', 'a-pix-region', 'plain-float'],
}
NONFINITE_VIDS = ('nan', 'inf', 'nan-q', 'inf-q', 'dec-inf', 'dec-nan', 'f32-inf', 'f32-nan', 'f16-inf', 'ld-inf')
AMBIG = {'size-pix': ['arr0d'], 'size-sky': ['q-arr0d-like']}


def make_value(vid, prng):
    import astropy.units as u
    from astropy.coordinates import SkyCoord, Angle
    from regions import PixCoord, CirclePixelRegion, CircleSkyRegion
    t = {
        'zero': 0, 'neg': -1.5, 'neg-int': -3, 'nan': float('nan'), 'inf': float('inf'), '-inf': float('-inf'), 'str': '3', 'none': None,
        'list': [1.0, 2.0], 'tuple': (1.0, 2.0), 'arr1d': np.array([1.0, 2.0]), 'arr0d': np.array(3.0), 'arr2d': np.ones((2, 2)),
        'complex': 1 + 2j, 'plain-float': 2.5,
        'dec-inf': decimal.Decimal('Infinity'), 'dec-nan': decimal.Decimal('NaN'), 'dec-neg': decimal.Decimal('-1.5'), 'dec-zero': decimal.Decimal(0),
        'frac-neg': fractions.Fraction(-1, 2), 'frac-zero': fractions.Fraction(0), 'f32-inf': np.float32('inf'), 'f32-nan': np.float32('nan'),
        'f16-inf': np.float16('inf'), 'ld-inf': np.longdouble('inf'), 'ld-neg': np.longdouble(-2), 'i64-zero': np.int64(0), 'i8-neg': np.int8(-3),
        'huge-neg-int': -10 ** 30, 'f32-neg': np.float32(-1.5), 'u8-zero': np.uint8(0),
        'q-angle': 3 * u.deg, 'q-length': 3 * u.m, 'q-time': 3 * u.s, 'q-dimensionless': 3 * u.dimensionless_unscaled,
        'q-solid-angle': 2 * u.sr, 'q-deg2': 3 * u.deg ** 2, 'q-angular-speed': 3 * u.deg / u.s,
        'q-arr1d': [1, 2] * u.deg, 'zero-q': 0 * u.arcsec, 'neg-q': -2 * u.arcsec, 'nan-q': np.nan * u.deg, 'inf-q': np.inf * u.deg,
        'pix-scalar': PixCoord(1.5, 2.5), 'pix-1d': PixCoord([1.0, 2, 3], [3.0, 4, 6]), 'pix-2d': PixCoord(np.ones((2, 2)), np.ones((2, 2))),
        # x and y of equal size but different shapes (they broadcast to a grid, which is not a vertex list)
        'pix-row-col': PixCoord(np.array([[1.0, 5.0, 3.0]]), np.array([[1.0], [1.0], [4.0]])),
        'pix-flat-col': PixCoord([1, 5, 3], [[1], [1], [4]]),
        'pix-col': PixCoord(np.array([[1.0], [2.0], [3.0]]), np.array([[3.0], [4.0], [6.0]])), 'pix-3d': PixCoord(np.ones((3, 1, 1)), np.ones((3, 1, 1))),
        'sky-scalar': SkyCoord(10, 20, unit='deg'), 'sky-1d': SkyCoord([10, 11, 12], [20, 21, 20], unit='deg'),
        'sky-2d': SkyCoord(np.ones((2, 2)), np.ones((2, 2)), unit='deg'),
    }
    if vid == 'a-sky-region':
        return CircleSkyRegion(SkyCoord(1, 2, unit='deg'), 1 * u.deg)
    if vid == 'a-pix-region':
        return CirclePixelRegion(PixCoord(1, 2), 3)
    return t[vid]


def make_valid(kind, prng):
    import astropy.units as u
    from astropy.coordinates import SkyCoord, Angle
    from regions import PixCoord, CirclePixelRegion, CircleSkyRegion
    if kind == 'size-pix':
        return prng.choice([prng.uniform(0.01, 50), prng.randint(1, 40), np.float64(prng.uniform(0.1, 9)), np.float32(2.5), np.int64(7)])
    if kind == 'size-sky':
        v = prng.uniform(0.01, 50)
        return prng.choice([v * u.arcsec, v * u.deg / 100, Angle(v, 'arcmin'), u.Quantity(np.float32(1.5), u.rad) / 100])
    if kind == 'angle':
        if prng.random() < 0.12:
            # any finite angle is an angle: many turns, either sign, any angular unit
            return prng.choice([4e8 * u.deg, -4e8 * u.deg, 1e7 * u.rad, 1e300 * u.deg, Angle(-7.25e9, 'arcmin'), 123456789.5 * u.deg, 2 ** 40 * u.hourangle])
        return S.build(gen.angle_spec(prng))
    if kind == 'pix-scalar':
        return PixCoord(prng.uniform(-50, 50), prng.choice([prng.uniform(-50, 50), 3]))
    if kind == 'pix-1d':
        n = prng.randint(3, 6)
        return PixCoord([prng.uniform(-9, 9) for _ in range(n)], [prng.uniform(-9, 9) for _ in range(n)])
    if kind == 'sky-scalar':
        return SkyCoord(prng.uniform(0, 360), prng.uniform(-80, 80), unit='deg', frame=prng.choice(['icrs', 'galactic', 'fk5']))
    if kind == 'sky-1d':
        n = prng.randint(3, 6)
        return SkyCoord([prng.uniform(0, 5) for _ in range(n)], [prng.uniform(-3, 3) for _ in range(n)], unit='deg')
    if kind == 'nvertices':
        return prng.randint(3, 9)
    if kind == 'text':
        return prng.choice(['a', 'hello world', ''])
    if kind == 'pixregion':
        return CirclePixelRegion(PixCoord(prng.uniform(0, 9), 2), prng.uniform(1, 5))
    if kind == 'skyregion':
        return CircleSkyRegion(SkyCoord(1, 2, unit='deg'), prng.uniform(1, 5) * u.deg)
    raise ValueError(kind)


ANNULUS_PAIRS = {'inner_radius': 'outer_radius', 'inner_width': 'outer_width', 'inner_height': 'outer_height'}


def annulus_ok(region):
    for a, b in ANNULUS_PAIRS.items():
        if a in region._params:
            if not (getattr(region, a) < getattr(region, b)):
                return False, (a, b)
    return True, None


def value_in_domain(kind, v):
    """independent domain test used for the invariant at quiescent points."""
    import astropy.units as u
    from astropy.coordinates import SkyCoord
    from regions import PixCoord, PixelRegion, SkyRegion
    if kind == 'size-pix':
        if isinstance(v, u.Quantity) or isinstance(v, (str, bytes, list, tuple, type(None), complex)):
            return False
        if isinstance(v, np.ndarray):
            return v.ndim == 0 and bool(np.isfinite(v)) and bool(v > 0)
        try:
            return bool(np.isfinite(v)) and bool(v > 0)
        except Exception:
            return False
    if kind == 'size-sky':
        return (isinstance(v, u.Quantity) and v.unit.physical_type == 'angle' and v.ndim == 0 and bool(np.isfinite(v.value)) and bool(v.value > 0))
    if kind == 'angle':
        return isinstance(v, u.Quantity) and v.unit.physical_type == 'angle' and v.ndim == 0
    if kind == 'pix-scalar':
        return isinstance(v, PixCoord) and np.ndim(v.x) == 0
    if kind == 'pix-1d':
        return isinstance(v, PixCoord) and np.ndim(v.x) == 1
    if kind == 'sky-scalar':
        return isinstance(v, SkyCoord) and v.ndim == 0
    if kind == 'sky-1d':
        return isinstance(v, SkyCoord) and v.ndim == 1
    if kind == 'nvertices':
        return value_in_domain('size-pix', v)
    if kind == 'pixregion':
        return isinstance(v, PixelRegion)
    if kind == 'skyregion':
        return isinstance(v, SkyRegion)
    return True


def check_invariant(obs, region, where):
    cname = type(region).__name__
    for p in region._params:
        kind = param_kind(cname, p)
        v = getattr(region, p)
        if not value_in_domain(kind, v):
            key = 'invalid-state'
            if kind in ('size-pix', 'size-sky') and not isinstance(v, (str, type(None), list)):
                try:
                    if not np.isfinite(getattr(v, 'value', v)):
                        key = K_NONFINITE
                except Exception:
                    pass
            obs.violation(key, f'{cname}.{p} holds {v!r} which is outside its domain ({kind}) after {where}')
            return False
    ok, pair = annulus_ok(region)
    if not ok:
        obs.violation(K_ANNULUS, f'{cname}: {pair[0]}={getattr(region, pair[0])!r} >= {pair[1]}={getattr(region, pair[1])!r} after {where}')
        return False
    for attr, keys in (('meta', META_KEYS), ('visual', VISUAL_KEYS)):
        d = getattr(region, attr)
        if not isinstance(d, dict):
            obs.violation('invalid-meta-object-stored', f'{cname}.{attr} holds a {type(d).__name__} after {where}')
            return False
        badk = [k for k in dict.keys(d) if k not in keys]
        if badk:
            obs.violation('invalid-meta-key-stored', f'{cname}.{attr} holds keys outside the vocabulary: {badk} after {where}')
            return False
    obs.ok(1, 'invariant')
    return True


# ---------------------------------------------------------------------------
REGION_CLASSES = gen.ALL_PIX + gen.ALL_SKY


def base_spec(prng, cls):
    if cls.endswith('PixelRegion'):
        return gen.pixel_region_spec(prng, cls=cls, size=gen.logu(prng, 0.5, 50), include='absent')
    return gen.sky_region_spec(prng, cls=cls, include='absent')


def generate(rng, tier, shard, nshards):
    n = 1200 if tier == 'quick' else 40000
    for i in range(n):
        r = rng.random()
        if r < 0.03:
            yield {'lane': 'compound-ctor', 'sky': rng.random() < 0.4, 'rs': rng.randrange(2 ** 31)}
        elif r < 0.25:
            cls = rng.choice(REGION_CLASSES)
            yield {'lane': 'ctor-invalid', 'cls': cls, 'rs': rng.randrange(2 ** 31)}
        elif r < 0.65:
            cls = rng.choice(REGION_CLASSES + ['CompoundPixelRegion'])
            yield {'lane': 'history', 'cls': cls, 'len': rng.randint(3, 20), 'rs': rng.randrange(2 ** 31)}
        elif r < 0.88:
            yield {'lane': 'meta', 'which': rng.choice(['RegionMeta', 'RegionVisual']), 'len': rng.randint(3, 20), 'rs': rng.randrange(2 ** 31)}
        elif r < 0.96:
            yield {'lane': 'regions-list', 'len': rng.randint(2, 12), 'rs': rng.randrange(2 ** 31)}
        else:
            yield {'lane': 'mask-bbox', 'rs': rng.randrange(2 ** 31)}


def classify_reject(exc):
    return isinstance(exc, REJECT)


def run_case(case, obs):
    prng = random.Random(case['rs'])
    lane = case['lane']
    if lane == 'ctor-invalid':
        return run_ctor(case, obs, prng)
    if lane == 'compound-ctor':
        return run_compound_ctor(case, obs, prng)
    if lane == 'history':
        return run_history(case, obs, prng)
    if lane == 'meta':
        return run_meta(case, obs, prng)
    if lane == 'regions-list':
        return run_regions(case, obs, prng)
    return run_mask_bbox(case, obs, prng)


def run_compound_ctor(case, obs, prng):
    """a compound is built from two regions of its own kind: anything else as either operand is rejected with ValueError / TypeError,
    whether or not meta / visual are given."""
    import operator
    import regions
    import astropy.units as u
    from astropy.coordinates import SkyCoord
    if case['sky']:
        cls, good = regions.CompoundSkyRegion, regions.CircleSkyRegion(SkyCoord(10, 20, unit='deg'), 1 * u.deg)
        wrong_kind = regions.CirclePixelRegion(regions.PixCoord(1, 2), 3)
    else:
        cls, good = regions.CompoundPixelRegion, regions.CirclePixelRegion(regions.PixCoord(1, 2), 3)
        wrong_kind = regions.CircleSkyRegion(SkyCoord(10, 20, unit='deg'), 1 * u.deg)
    bads = [None, 2.5, 'circle', [good], regions.PixCoord(1, 2), object(), wrong_kind, regions.RegionMeta(), regions.Regions([good])]
    for bad in bads:
        for pos in (0, 1):
            for given in ({}, {'meta': regions.RegionMeta({'label': 'x'})}, {'meta': regions.RegionMeta(), 'visual': regions.RegionVisual()}):
                args = (bad, good) if pos == 0 else (good, bad)
                obs.count('compound-ctor-invalid-operand')
                try:
                    r = cls(*args, prng.choice([operator.and_, operator.or_, operator.xor]), **given)
                except REJECT:
                    obs.ok(1, 'ctor-invalid-rejected')
                    continue
                except Exception as exc:
                    obs.violation('ctor-wrong-exception-type', f'{cls.__name__}(operand {pos + 1} = {type(bad).__name__}, {sorted(given)}) raised '
                                  f'{type(exc).__name__}: {exc}')
                    continue
                obs.violation('ctor-accepts-invalid:' + ('skyregion' if case['sky'] else 'pixregion'),
                              f'{cls.__name__}(operand {pos + 1} = {bad!r}) was accepted: {r!r}'[:300])


def ctor_kwargs(spec):
    kw = {}
    for k, v in spec['p'].items():
        kw[k] = v if k == 'text' else S.build(v)
    return kw


def run_ctor(case, obs, prng):
    import regions
    cls = getattr(regions, case['cls'])
    spec = base_spec(prng, case['cls'])
    kw = ctor_kwargs(spec)
    origin = kw.pop('origin', None)       # constructor option, not a shape parameter: kept valid, never judged
    if origin is not None:
        kw['vertices'] = kw['vertices'] + origin
    # sanity: the valid construction works and satisfies the invariant
    good = cls(**kw)
    check_invariant(obs, good, 'valid construction')
    for p in list(kw):
        kind = param_kind(case['cls'], p)
        for vid in INVALID.get(kind, []):
            bad = dict(kw)
            bad[p] = make_value(vid, prng)
            try:
                r = cls(**bad)
            except REJECT:
                obs.ok(1, 'ctor-invalid-rejected')
                continue
            except Exception as exc:
                obs.violation('ctor-wrong-exception-type', f'{case["cls"]}({p}={vid}) raised {type(exc).__name__}: {exc}')
                continue
            key = 'ctor-accepts-invalid:' + kind
            if vid in NONFINITE_VIDS:
                key = K_NONFINITE
            obs.violation(key, f'{case["cls"]}({p}={bad[p]!r}) was accepted (value kind {vid}, parameter kind {kind})')
    # the same domain under astropy's globally enabled unit equivalencies (a user's session may have them switched on):
    # a dimensionless or pixel quantity is still not an angle
    import astropy.units as u
    for p in list(kw):
        kind = param_kind(case['cls'], p)
        if kind not in ('size-sky', 'angle'):
            continue
        for ctxname, ctx, val in (('dimensionless_angles', lambda: u.set_enabled_equivalencies(u.dimensionless_angles()), 3 * u.dimensionless_unscaled),
                                  ('pixel_scale', lambda: u.add_enabled_equivalencies(u.pixel_scale(0.2 * u.arcsec / u.pix)), 3 * u.pix)):
            obs.count('invalid-under-enabled-equivalencies')
            good2 = cls(**kw)
            fpg = S.fingerprint(good2)
            with ctx():
                try:
                    cls(**dict(kw, **{p: val}))
                    obs.violation('ctor-accepts-invalid:' + kind, f'{case["cls"]}({p}={val!r}) was accepted while the {ctxname} equivalency was enabled')
                except REJECT:
                    obs.ok(1, 'ctor-invalid-rejected')
                except Exception as exc:
                    obs.violation('ctor-wrong-exception-type', f'{case["cls"]}({p}={val!r}) under {ctxname} raised {type(exc).__name__}: {exc}')
                try:
                    setattr(good2, p, val)
                    obs.violation('assign-accepts-invalid:' + kind, f'{case["cls"]}.{p} = {val!r} was accepted while the {ctxname} equivalency was enabled')
                except REJECT:
                    obs.check(S.fingerprint(good2) == fpg, 'rejected-assignment-changed-object', f'rejected {case["cls"]}.{p} changed the object', 'rejected-leaves-unchanged')
                except Exception as exc:
                    obs.violation('assign-wrong-exception-type', f'{case["cls"]}.{p} = {val!r} under {ctxname} raised {type(exc).__name__}: {exc}')
    # annulus ordering at construction
    for a, b in ANNULUS_PAIRS.items():
        if a in kw:
            for bad in (dict(kw, **{a: kw[b]}), dict(kw, **{a: kw[b] * 2})):
                try:
                    cls(**bad)
                    obs.violation('ctor-accepts-inner-ge-outer', f'{case["cls"]}: {a} >= {b} accepted at construction')
                except REJECT:
                    obs.ok(1, 'ctor-invalid-rejected')
    if case['cls'] == 'RegularPolygonPixelRegion':
        try:
            cls(**dict(kw, nvertices=2))
            obs.violation('ctor-accepts-invalid:nvertices', 'RegularPolygonPixelRegion(nvertices=2) accepted')
        except REJECT:
            obs.ok(1, 'ctor-invalid-rejected')
    # meta / visual with keys outside the vocabulary
    for attr in ('meta', 'visual'):
        bk = prng.choice([k for k in BAD_KEYS if isinstance(k, str)])
        try:
            cls(**dict(kw, **{attr: {bk: 1}}))
            obs.violation('ctor-accepts-invalid-meta-key', f'{case["cls"]}({attr}={{{bk!r}: 1}}) accepted')
        except REJECT:
            obs.ok(1, 'ctor-invalid-rejected')
        try:
            cls(**dict(kw, **{attr: 'notadict'}))
            obs.violation('ctor-accepts-non-dict-meta', f'{case["cls"]}({attr}="notadict") accepted')
        except REJECT:
            obs.ok(1, 'ctor-invalid-rejected')
        except Exception as exc:
            obs.violation('ctor-wrong-exception-type', f'{case["cls"]}({attr}="notadict") raised {type(exc).__name__}: {exc}')


def run_history(case, obs, prng):
    import regions
    if case['cls'] == 'CompoundPixelRegion':
        a = S.build(base_spec(prng, 'CirclePixelRegion'))
        b = S.build(base_spec(prng, 'RectanglePixelRegion'))
        import operator
        region = regions.CompoundPixelRegion(a, b, operator.or_)
        params = ['region1', 'region2']
    else:
        region = S.build(base_spec(prng, case['cls']))
        params = [p for p in region._params if p != 'text']
    cname = type(region).__name__
    check_invariant(obs, region, 'construction')
    for step in range(case['len']):
        fp0 = S.fingerprint(region)
        r = prng.random()
        p = prng.choice(params + ['meta', 'visual'])
        if r < 0.08:
            # deletion of a shape parameter must be refused
            q = prng.choice(params)
            try:
                delattr(region, q)
                obs.violation('parameter-deleted', f'del {cname}.{q} succeeded')
                return
            except (AttributeError, TypeError):
                obs.ok(1, 'delete-refused')
            obs.check(S.fingerprint(region) == fp0, 'refused-delete-changed-object', f'del {cname}.{q} was refused but changed the object', 'rejected-leaves-unchanged')
            continue
        if p in ('meta', 'visual'):
            if r < 0.5:
                good = gen.rich_meta(prng) if p == 'meta' else gen.rich_visual(prng)
                setattr(region, p, good)
                got = getattr(region, p)
                obs.check(dict(got) == good and type(got).__name__ == ('RegionMeta' if p == 'meta' else 'RegionVisual'), 'accepted-value-not-read-back',
                          f'{cname}.{p} = {good} reads back {dict(got)} ({type(got).__name__})', 'assign-valid-accepted')
            else:
                import regions as _r
                wrong_kind = _r.RegionVisual({'color': 'red', 'linewidth': 2}) if p == 'meta' else _r.RegionMeta({'label': 'x', 'include': False})
                bad = prng.choice([{prng.choice([k for k in BAD_KEYS if isinstance(k, str)]): 1}, 'str', 3, [('label', 'x')], None, wrong_kind, wrong_kind])
                try:
                    setattr(region, p, bad)
                    obs.violation('assign-accepts-invalid-meta', f'{cname}.{p} = {bad!r} accepted')
                except REJECT:
                    obs.ok(1, 'assign-invalid-rejected')
                except Exception as exc:
                    obs.violation('assign-wrong-exception-type', f'{cname}.{p} = {bad!r} raised {type(exc).__name__}: {exc}')
                obs.check(S.fingerprint(region) == fp0, 'rejected-assignment-changed-object', f'rejected {cname}.{p} = {bad!r} changed the object',
                          'rejected-leaves-unchanged')
            check_invariant(obs, region, f'{p} assignment')
            continue
        kind = param_kind(cname, p)
        if kind == 'size-sky' and prng.random() < 0.2:
            # an augmented assignment with an operand that makes the value invalid: `region.radius *= 0`, `*= nan`, `*= -1`
            import operator as _op
            factor = prng.choice([0, float('nan'), -1.0, float('inf')])
            fpb = S.fingerprint(region)
            obs.count('augmented-assignments-to-invalid')
            try:
                cur = getattr(region, p)                   # exactly what `region.p *= factor` does: get, in-place operator, set
                cur = _op.imul(cur, factor)
                setattr(region, p, cur)
                obs.violation('assign-accepts-invalid:' + kind, f'{cname}.{p} *= {factor!r} was accepted: {p} is now {getattr(region, p)!r}')
            except REJECT:
                obs.check(S.fingerprint(region) == fpb, K_INPLACE, f'{cname}.{p} *= {factor!r} raised but left {p} = {getattr(region, p)!r}', 'rejected-leaves-unchanged')
            except Exception as exc:
                obs.violation('assign-wrong-exception-type', f'{cname}.{p} *= {factor!r} raised {type(exc).__name__}: {exc}')
            # a valid value again, so that the history can go on
            object.__getattribute__(region, '__dict__')[p] = make_valid(kind, prng) if p not in ANNULUS_PAIRS and p not in ANNULUS_PAIRS.values() else getattr(S.build(base_spec(prng, cname)), p)
            ok_, pair_ = annulus_ok(region)
            if not ok_:
                object.__getattribute__(region, '__dict__')[pair_[0]] = getattr(region, pair_[1]) * 0.5
            continue
        if r < 0.55:
            v = make_valid(kind, prng)
            # keep annuli ordered: choose a valid value that respects inner < outer
            partner = ANNULUS_PAIRS.get(p) or {b: a for a, b in ANNULUS_PAIRS.items()}.get(p)
            if partner:
                other = getattr(region, partner)
                v = other * (0.5 if p.startswith('inner') else 2.0)
            try:
                setattr(region, p, v)
            except Exception as exc:
                obs.violation('valid-assignment-rejected', f'{cname}.{p} = {v!r} (valid, {kind}) raised {type(exc).__name__}: {exc}')
                continue
            got = getattr(region, p)
            obs.check(got is v or S.fingerprint(got) == S.fingerprint(v), 'accepted-value-not-read-back',
                      f'{cname}.{p} = {v!r} reads back {got!r}', 'assign-valid-accepted')
        elif r < 0.62 and (p in ANNULUS_PAIRS or p in ANNULUS_PAIRS.values()):
            # cross-field: a valid-looking value that breaks inner < outer
            partner = ANNULUS_PAIRS.get(p) or {b: a for a, b in ANNULUS_PAIRS.items()}[p]
            other = getattr(region, partner)
            v = other * (2.0 if p.startswith('inner') else 0.5)
            try:
                setattr(region, p, v)
                obs.violation(K_ANNULUS, f'{cname}.{p} = {v!r} accepted although {partner} = {other!r}')
                setattr(region, p, other * (0.5 if p.startswith('inner') else 2.0))      # restore so the history can go on
                continue
            except REJECT:
                obs.ok(1, 'assign-invalid-rejected')
            obs.check(S.fingerprint(region) == fp0, 'rejected-assignment-changed-object', f'rejected {cname}.{p} changed the object', 'rejected-leaves-unchanged')
        else:
            vids = INVALID.get(kind, []) + AMBIG.get(kind, [])
            if not vids:
                continue
            vid = prng.choice(vids)
            if vid == 'q-arr0d-like':
                continue
            v = make_value(vid, prng)
            try:
                setattr(region, p, v)
                accepted = True
            except REJECT:
                accepted = False
            except Exception as exc:
                obs.violation('assign-wrong-exception-type', f'{cname}.{p} = {v!r} raised {type(exc).__name__}: {exc}')
                continue
            if accepted and vid == 'arr0d' and isinstance(v, np.ndarray):
                # a 0-d array taken as a size is fine only if the region does not keep the caller's array: writing into that array
                # afterwards must not reach the region
                v[()] = -1.0
                still = getattr(region, p)
                obs.check(bool(np.all(np.asarray(still) > 0)), 'accepted-array-size-aliases-callers-array',
                          f'{cname}.{p} accepted a 0-d array and kept it: after the caller wrote -1 into the array, {cname}.{p} is {still!r}', 'array-size-not-aliased')
            if accepted and vid in AMBIG.get(kind, []):
                setattr(region, p, make_valid(kind, prng) if p not in ANNULUS_PAIRS and p not in ANNULUS_PAIRS.values() else getattr(S.build(base_spec(prng, cname)), p))
                # re-establish ordering for annuli
                ok, pair = annulus_ok(region)
                if not ok:
                    setattr(region, pair[0], getattr(region, pair[1]) * 0.5)
                continue
            if accepted:
                key = 'assign-accepts-invalid:' + kind
                if vid in NONFINITE_VIDS:
                    key = K_NONFINITE
                obs.violation(key, f'{cname}.{p} = {v!r} was accepted (value kind {vid}, parameter kind {kind})')
                # put a valid value back so the history can go on
                try:
                    setattr(region, p, getattr(S.build(base_spec(prng, cname)), p) if cname != 'CompoundPixelRegion' else make_valid(kind, prng))
                    ok, pair = annulus_ok(region)
                    if not ok:
                        setattr(region, pair[0], getattr(region, pair[1]) * 0.5)
                except Exception:
                    return
                continue
            obs.ok(1, 'assign-invalid-rejected')
            obs.check(S.fingerprint(region) == fp0, 'rejected-assignment-changed-object', f'rejected {cname}.{p} = {v!r} changed the object',
                      'rejected-leaves-unchanged')
        check_invariant(obs, region, f'assignment to {p}')


def run_meta(case, obs, prng):
    import regions
    cls = getattr(regions, case['which'])
    keys = META_KEYS if case['which'] == 'RegionMeta' else VISUAL_KEYS
    aliases = {} if case['which'] == 'RegionMeta' else VISUAL_ALIASES
    m = cls()

    def snapshot():
        return (list(dict.items(m)), type(m))

    def invariant(where):
        badk = [k for k in dict.keys(m) if k not in keys]
        obs.check(not badk, 'invalid-meta-key-stored', f'{case["which"]} holds keys outside the vocabulary {badk} after {where}', 'invariant')
        return not badk

    km0 = (dict(cls.key_mapping), list(cls.valid_keys))
    for step in range(case['len']):
        before = snapshot()
        if prng.random() < 0.3:
            # look-ups of a key outside the vocabulary (the `try: meta[k] except KeyError: ...` idiom) must not teach it to the class
            bk = prng.choice([k for k in BAD_KEYS if isinstance(k, str)] + ['flux', 'foo'])
            try:
                m[bk]
            except KeyError:
                pass
            m.get(bk)
            bk in m
            try:
                m.update({bk: 1})
                obs.violation('meta-accepts-invalid-key:update-after-lookup', f'{case["which"]}: key {bk!r} accepted by update() after it had been looked up')
                dict.pop(m, bk, None)
            except REJECT:
                obs.ok(1, 'meta-event')
            obs.check((dict(cls.key_mapping), list(cls.valid_keys)) == km0, 'meta-class-tables-changed',
                      f'{case["which"]}: class-level key tables changed: key_mapping={cls.key_mapping}', 'meta-event')
        op = prng.choice(['setitem', 'setitem', 'update-dict', 'update-kw', 'update-pairs', 'setdefault', 'ior', 'ctor', 'fromkeys', 'or-result',
                          'ior-other-kind', 'update-other-kind'])
        nvalid = prng.randint(0, 3)
        items = [(k, prng.choice(['v', 1, [1, 2]])) for k in prng.sample(keys + list(aliases), nvalid)]
        # never an alias together with its target in one operation (the later one would win)
        items = [(k, v) for k, v in items if not (k in aliases and any(k2 == aliases[k] for k2, _ in items))]
        inject = prng.random() < 0.55
        badkey = prng.choice(BAD_KEYS)
        if op in ('update-kw', 'ctor') and not isinstance(badkey, str):
            badkey = 'foo'
        if inject:
            pos = prng.randint(0, len(items))
            items = items[:pos] + [(badkey, 1)] + items[pos:]
        other_kind = None
        if op in ('ior-other-kind', 'update-other-kind'):
            # the right-hand side is itself a Meta object - of the OTHER kind (a RegionVisual merged into a RegionMeta or the reverse):
            # its keys are outside this vocabulary like any other foreign key
            import regions as _rg
            ocls = _rg.RegionVisual if cls is _rg.RegionMeta else _rg.RegionMeta
            badkey = 'color' if ocls is _rg.RegionVisual else 'label'
            other_kind = ocls({badkey: 'red'})
            items, inject = [(badkey, 'red')], True
        if not items:
            continue
        desc = f'{op} with keys {[k for k, _ in items]}'
        target = m
        try:
            if op == 'setitem':
                k, v = items[-1] if not inject else (badkey, 1)
                items = [(k, v)]
                m[k] = v
            elif op == 'update-dict':
                m.update(dict(items))
            elif op == 'update-kw':
                if not all(isinstance(k, str) and k.isidentifier() for k, _ in items):
                    continue
                m.update(**dict(items))
            elif op == 'update-pairs':
                m.update(list(items))
            elif op == 'setdefault':
                k, v = items[-1] if not inject else (badkey, 1)
                items = [(k, v)]
                m.setdefault(k, v)
            elif op == 'ior':
                m |= dict(items)
            elif op == 'ior-other-kind':
                m |= other_kind
            elif op == 'update-other-kind':
                m.update(other_kind)
            elif op == 'ctor':
                if not all(isinstance(k, str) and k.isidentifier() for k, _ in items):
                    continue
                target = cls(dict(items)) if prng.random() < 0.5 else cls(**dict(items))
            elif op == 'fromkeys':
                target = cls.fromkeys([k for k, _ in items], 1)
            elif op == 'or-result':
                res = m | dict(items)        # a new object; if it claims to be a Meta it must respect the vocabulary
                target = res if isinstance(res, cls) else None
            raised = None
        except REJECT as exc:
            raised = exc
        except Exception as exc:
            obs.violation('meta-wrong-exception-type', f'{case["which"]} {desc} raised {type(exc).__name__}: {exc}')
            continue
        obs.count('meta_events')
        if inject:
            if raised is None:
                if target is None:
                    obs.ok(1, 'meta-event')
                    continue
                stored_bad = [k for k in dict.keys(target) if k not in keys]
                key = K_IOR if op in ('ior', 'ior-other-kind') else 'meta-accepts-invalid-key:' + op
                if stored_bad:
                    obs.violation(key, f'{case["which"]} {desc}: key {badkey!r} outside the vocabulary was stored')
                    if target is m:
                        for k in stored_bad:
                            dict.__delitem__(m, k)
                else:
                    obs.violation(key + ':silently-ignored', f'{case["which"]} {desc}: invalid key neither stored nor rejected')
                continue
            if target is m:
                same = snapshot() == before
                key = 'rejected-meta-op-changed-object'
                if not same and op.startswith('update'):
                    key = K_UPDATE
                obs.check(same, key, f'{case["which"]} {desc} raised {type(raised).__name__} but left the object changed: '
                          f'{before[0]} -> {snapshot()[0]}', 'meta-event')
                if not same:
                    dict.clear(m)
                    for k, v in before[0]:
                        dict.__setitem__(m, k, v)
        else:
            if raised is not None:
                obs.violation('meta-valid-op-rejected', f'{case["which"]} {desc} raised {type(raised).__name__}: {raised}')
                continue
            if target is not None:
                exp = {aliases.get(k, k): v for k, v in items}
                ok = all(dict.get(target, k, '<missing>') == v or (op in ('setdefault',) and k in dict(before[0])) or op == 'fromkeys'
                         for k, v in exp.items())
                obs.check(ok, 'meta-accepted-value-not-read-back', f'{case["which"]} {desc}: stored {dict(target)}', 'meta-event')
                for k, v in items:
                    if op not in ('fromkeys', 'setdefault'):
                        obs.check(target[k] == v, 'meta-alias-read-back', f'{case["which"]}[{k!r}] reads {target[k]!r} after storing {v!r}', 'meta-event')
        invariant(desc)


def run_regions(case, obs, prng):
    from regions import Regions
    goods = [S.build(base_spec(prng, prng.choice(REGION_CLASSES))) for _ in range(3)]
    bads = ['x', 3, None, [goods[0]], {'a': 1}, 2.5]
    lst = Regions(list(goods[:prng.randint(0, 3)]))

    def members_ok(where):
        from regions import Region
        bad = [type(x).__name__ for x in lst.regions if not isinstance(x, Region)]
        obs.check(not bad, 'regions-list-holds-non-region', f'Regions holds {bad} after {where}', 'invariant')
        return not bad

    for _ in range(case['len']):
        before = list(lst.regions)
        op = prng.choice(['append', 'extend', 'insert', 'ctor', 'extend-regions'])
        bad = prng.random() < 0.6
        b = prng.choice(bads)
        pos = prng.randint(0, 3)
        seq = [prng.choice(goods) for _ in range(prng.randint(1, 3))]
        if bad:
            seq = seq[:pos] + [b] + seq[pos:]
        if op in ('ctor', 'extend') and bad:
            # the same members handed over in another container: a tuple, a one-shot iterator, a generator
            form = prng.choice(['list', 'list', 'tuple', 'iter', 'generator', 'map'])
            items = list(seq)
            seq = {'list': lambda: items, 'tuple': lambda: tuple(items), 'iter': lambda: iter(items),
                   'generator': lambda: (x for x in items), 'map': lambda: map(lambda x: x, items)}[form]()
            obs.count('non-region-member-in-' + form)
        if bad and prng.random() < 0.25 and len(lst.regions):
            # item / slice assignment and deletion: whether or not the list supports them, it must not end up holding a non-region
            form = prng.choice(['setitem-index', 'setitem-slice', 'setitem-empty-slice', 'setitem-full-slice-str'])
            obs.count('regions-' + form)
            try:
                if form == 'setitem-index':
                    lst[prng.randrange(len(lst.regions))] = b
                elif form == 'setitem-slice':
                    lst[0:1] = [b]
                elif form == 'setitem-empty-slice':
                    lst[1:1] = [goods[0], b]
                else:
                    lst[:] = 'ab'
            except REJECT:
                pass
            except Exception as exc:
                obs.violation('regions-wrong-exception-type', f'Regions {form} raised {type(exc).__name__}: {exc}')
            if not members_ok(form):
                lst.regions[:] = before
            continue
        try:
            if op == 'append':
                lst.append(b if bad else seq[0])
            elif op == 'extend':
                lst.extend(seq)
            elif op == 'extend-regions':
                if bad:
                    continue
                lst.extend(Regions(seq))
            elif op == 'insert':
                lst.insert(prng.randint(-2, 4), b if bad else seq[0])
            elif op == 'ctor':
                Regions(seq)
            raised = None
        except REJECT as exc:
            raised = exc
        except Exception as exc:
            obs.violation('regions-wrong-exception-type', f'Regions.{op} raised {type(exc).__name__}: {exc}')
            continue
        if bad:
            if raised is None:
                key = K_INSERT if op == 'insert' else 'regions-accepts-non-region:' + op
                obs.violation(key, f'Regions.{op} accepted a non-region member {b!r}')
                lst.regions[:] = before
                continue
            obs.check(list(lst.regions) == before and all(x is y for x, y in zip(lst.regions, before)), 'rejected-list-op-changed-list',
                      f'Regions.{op} raised but changed the list', 'regions-list-event')
        else:
            obs.check(raised is None, 'regions-valid-op-rejected', f'Regions.{op} with region members raised {raised!r}', 'regions-list-event')
        members_ok(op)


def run_mask_bbox(case, obs, prng):
    from regions import RegionBoundingBox, RegionMask
    bb = RegionBoundingBox(1, 4, 2, 7)          # shape (5, 3)
    for shape in [(3, 5), (5, 4), (5,), (0, 0), (5, 3, 1)]:
        try:
            RegionMask(np.ones(shape), bb)
            obs.violation('mask-accepts-shape-mismatch', f'RegionMask(data{shape}, box shape (5, 3)) accepted')
        except REJECT:
            obs.ok(1, 'regions-list-event')
    m = RegionMask(np.ones((5, 3)), bb)
    obs.check(m.data.shape == bb.shape, 'mask-shape', 'mask/box shape differ', 'invariant')
    for bad in [(1.5, 4, 2, 7), (4, 1, 2, 7), (1, 4, 7, 2), ('1', 4, 2, 7)]:
        try:
            RegionBoundingBox(*bad)
            obs.violation('bbox-accepts-invalid', f'RegionBoundingBox{bad} accepted')
        except REJECT:
            obs.ok(1, 'regions-list-event')


MUTANTS = [
    ('descriptor-store-before-validate', 'regions/core/attributes.py', '        self._validate(value)\n        instance.__dict__[self.name] = value\n',
     '        instance.__dict__[self.name] = value\n        self._validate(value)\n'),
    ('positive-scalar-allows-zero', 'regions/core/attributes.py', 'if not np.isscalar(value) or value <= 0 or not np.isfinite(value):', 'if not np.isscalar(value) or value < 0 or not np.isfinite(value):'),
    ('setdefault-bypasses-whitelist', 'regions/core/metadata.py', '        if key not in self:\n            self[key] = value\n        return self[key]',
     '        if key not in self:\n            dict.__setitem__(self, key, value)\n        return self[key]'),
    ('extend-checks-first-only', 'regions/core/regions.py', '            for item in regions:\n                if not isinstance(item, Region):\n                    raise TypeError(\'Input regions must be a list of Region \'\n                                    \'objects\')\n            self.regions.extend(regions)',
     '            for item in regions[:1]:\n                if not isinstance(item, Region):\n                    raise TypeError(\'Input regions must be a list of Region \'\n                                    \'objects\')\n            self.regions.extend(regions)'),
    ('delete-allowed', 'regions/core/attributes.py', "        raise AttributeError(f'cannot delete {self.name!r}')", "        del instance.__dict__[self.name]"),
    ('scalar-angle-accepts-any-quantity', 'regions/core/attributes.py',
     "            if not value.unit.physical_type == 'angle':\n                raise ValueError(f'{self.name!r} must have angular units')\n        else:\n            raise ValueError(f'{self.name!r} must be a scalar angle')",
     "            pass\n        else:\n            raise ValueError(f'{self.name!r} must be a scalar angle')"),
    ('scalar-pixcoord-accepts-arrays', 'regions/core/attributes.py', 'if not (isinstance(value, PixCoord) and value.isscalar):', 'if not isinstance(value, PixCoord):'),
    ('annulus-ctor-check-dropped', 'regions/shapes/annulus.py', "        if inner_radius >= outer_radius:", "        if False:"),
    ('positive-scalar-nan-accepted-again', 'regions/core/attributes.py', 'if not np.isscalar(value) or value <= 0 or not np.isfinite(value):', 'if not np.isscalar(value) or value <= 0:'),
    ('meta-ior-removed', 'regions/core/metadata.py', '    def __ior__(self, other):\n        self.update(other)\n        return self\n', ''),
    ('regions-insert-unchecked', 'regions/core/regions.py', "        if not isinstance(region, Region):\n            raise TypeError('Input region must be a Region object')\n        self.regions.insert(index, region)", "        self.regions.insert(index, region)"),
    ('meta-setitem-no-whitelist', 'regions/core/metadata.py', '        if key in self.valid_keys:\n            super().__setitem__(key, value)\n        else:\n            raise KeyError', '        if True:\n            super().__setitem__(key, value)\n        else:\n            raise KeyError'),
    ('mask-shape-check-dropped', 'regions/core/mask.py', '        if self.data.shape != bbox.shape:', '        if False:'),
    ('meta-descr-no-coercion-check', 'regions/core/attributes.py', "        if not isinstance(value, RegionMeta):\n            raise ValueError(f'{self.name!r} must be a dict or RegionMeta '\n                             'object')", "        pass"),
]
