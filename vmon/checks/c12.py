"""C12 - FITS region tables round-trip every supported pixel region.

Observed: the table returned by Regions/Region.serialize(format='fits'), what
Regions.parse makes of it, and what Regions.read returns for a file produced
by Regions/Region.write (under /tmp/c12-<pid>/).  Oracle: a description of
each input region computed from the spec (class, centre/vertices, lengths,
angle in degrees, exclusion sense, component) compared with the same
description of the regions that come back; hand-built tables in the notations
box / rotbox / rectangle / rotrectangle (+ circle, ellipse, annulus, point
rows for mixing) are compared with the rectangle the FITS REGION convention
predicts (box = centre + full sizes, rectangle = two opposite corners, the
rot* forms add ROTANG about the centre).
"""
import math
import os
import random
import shutil
import warnings

import numpy as np

from vmon import gen, spec as S

ID = 'C12'
LEVEL = 'exploration'
TECHNIQUE = ('runtime oracle on serialize/parse/write/read(format=fits): spec-derived region descriptions compared bit-for-bit '
             '(angles to 8 eps) with what comes back through the in-memory table and through a real file; FITS REGION '
             'convention model for hand-built tables; classifier repairs the artefact to tell known mechanisms apart')
RULE = ('round-trip cases = (list of 1..8 region specs drawn from the 8 FITS-representable pixel classes with mixed widths, '
        'include in {absent,True,False,0,1}, component in {absent, all ints, partial}, extra meta/visual, angle units, '
        'table|file, Region|Regions API); skip cases = such a list + 1..3 members FITS cannot express at random positions; '
        'read cases = hand-built QTable/Table rows in box/rotbox/rectangle/rotrectangle(+circle/ellipse/annulus/point) notation, '
        'case of SHAPE, column order/width/units, optional COMPONENT, table|file with a decoy extension; '
        'non-trivial = >=1 judged comparison; distinct = distinct case specs')
ASSUMPTIONS = ['astropy.table / astropy.io.fits are trusted to store float64 columns bit-exactly',
               'angles are compared in degrees to 8 eps relative (a column holds one unit, so other units are converted)',
               'a list in which no region has a component may come back without components (no COMPONENT column) or with pairwise distinct ones',
               'plain astropy Table input (no Quantity columns) is outside the judged domain for rotated shapes: the reader needs an angle Quantity']

REPRESENTABLE = ['PointPixelRegion', 'CirclePixelRegion', 'EllipsePixelRegion', 'CircleAnnulusPixelRegion',
                 'EllipseAnnulusPixelRegion', 'RectanglePixelRegion', 'PolygonPixelRegion', 'RegularPolygonPixelRegion']

# mechanism keys of defects confirmed on the unchanged tree (see the builder report)
K_ELL = 'fits-excluded-ellipse-not-halved'
K_RENAME = 'fits-excluded-shape-not-renamed'
K_COMPINC = 'fits-component-erases-include'
K_POLYPAD = 'fits-polygon-zero-padding'
K_PARTIAL = 'fits-partial-components-unwritable'
K_ROTUNIT = 'fits-rotang-unit-not-fits-expressible'

UNRENAMED = {'!circleannulus': '!annulus', '!ellipseannulus': '!elliptannulus', '!rectangle': '!rotbox'}

SCRATCH = f'/tmp/c12-{os.getpid()}'


def budget(tier):
    return 30 if tier == 'quick' else 400


def shards(tier):
    return 16


def required_counters(tier):
    k = 1 if tier == 'quick' else 10
    d = {'judged:class': 2000 * k, 'judged:geometry': 2000 * k, 'judged:include-sense': 2000 * k, 'judged:bang-flag': 2000 * k,
         'judged:component-given': 300 * k, 'judged:component-fresh': 100 * k, 'judged:fixed-point': 300 * k,
         'judged:file-vs-table': 100 * k, 'judged:file-roundtrip': 100 * k,
         'judged:skipped-warning': 100 * k, 'judged:skipped-solo': 100 * k, 'judged:skipped-rows': 100 * k,
         'judged:notation:box': 50 * k, 'judged:notation:rotbox': 50 * k, 'judged:notation:rectangle': 50 * k,
         'judged:notation:rotrectangle': 50 * k, 'judged:notation-file': 30 * k, 'judged:padded-row': 300 * k,
         'judged:excluded-row': 300 * k, 'judged:table-unchanged': 300 * k, 'judged:second-parse-equal': 100 * k}
    for c in REPRESENTABLE:
        d['rows:' + c] = 200 * k
    return d


# ---------------------------------------------------------------------------
# generators
def angle(rng):
    kind = rng.choice(['uniform', 'uniform', 'uniform', 'mult90', 'huge', 'zero', 'tiny', 'neg'])
    deg = {'uniform': rng.uniform(0, 360), 'mult90': 90.0 * rng.randint(-4, 8), 'huge': rng.uniform(-1e5, 1e5), 'zero': 0.0,
           'tiny': rng.uniform(-1e-6, 1e-6), 'neg': rng.uniform(-360, 0)}[kind]
    unit = rng.choice(['deg'] * 12 + ['rad'] * 3 + ['arcmin'] * 2 + ['arcsec'] * 2 + ['hourangle'])
    v = deg if unit == 'deg' else deg * gen._PER_DEG[unit]
    return S.q(v, unit, angle=rng.random() < 0.3)


def intify(spec, rng):
    """Replace centre / lengths by Python ints (legal inputs, stored in float64 columns)."""
    p = spec['p']
    for k, v in list(p.items()):
        if isinstance(v, dict) and v.get('t') == 'pix' and not isinstance(v['x'], dict):
            p[k] = S.pix(int(round(v['x'])), int(round(v['y'])))
        elif isinstance(v, dict) and 'np' in v:         # a typed scalar from the shared generator
            p[k] = max(1, int(round(v['v'])))
        elif isinstance(v, (int, float)) and not isinstance(v, bool) and k != 'nvertices':
            p[k] = max(1, int(round(v)))
    if 'inner_radius' in p and p['inner_radius'] >= p['outer_radius']:
        p['outer_radius'] = p['inner_radius'] + 1
    for a in ('width', 'height'):
        if 'inner_' + a in p and p['inner_' + a] >= p['outer_' + a]:
            p['outer_' + a] = p['inner_' + a] + 1
    return spec


def region_spec(rng, cls, include, nvert=None):
    L = gen.logu(rng, 1e-3, 1e6) if rng.random() < 0.5 else rng.uniform(0.5, 200)
    sp = gen.pixel_region_spec(rng, cls=cls, size=L, include=include, angle=angle(rng), max_aspect=100.0)
    if cls == 'PolygonPixelRegion' and nvert is not None:
        cx, cy = gen.center_xy(rng, L)
        xs = [cx + L * rng.uniform(-1, 1) for _ in range(nvert)]
        ys = [cy + L * rng.uniform(-1, 1) for _ in range(nvert)]
        if rng.random() < 0.15:                # a genuine vertex at the origin, also in last position
            xs[-1] = ys[-1] = 0.0
        sp['p']['vertices'] = S.pix(S.arr_spec(xs), S.arr_spec(ys))
    if cls == 'RegularPolygonPixelRegion' and nvert is not None:
        sp['p']['nvertices'] = nvert
    if rng.random() < 0.12 and cls not in ('PolygonPixelRegion',):
        intify(sp, rng)
    if sp.get('meta') is None and rng.random() < 0.5:
        sp.pop('meta', None)
    if rng.random() < 0.25:
        m = dict(sp.get('meta') or {})
        m.update(rng.choice([{'label': 'src 1'}, {'tag': ['a', 'b']}, {'comment': 'x'}, {'text': 'T'}]))
        sp['meta'] = m
    if rng.random() < 0.15:
        sp['visual'] = rng.choice([{'color': 'red'}, {'linewidth': 2, 'fill': 1}])
    return sp


def set_components(rng, specs, mode):
    if mode == 'absent':
        return
    base = rng.choice([0, 1, 1, 5, 100, -3, 10 ** 6])
    for s in specs:
        if mode == 'partial' and rng.random() < 0.5:
            continue
        m = dict(s.get('meta') or {})
        m['component'] = base + rng.randint(0, 6)        # duplicates allowed: one component may own several rows
        s['meta'] = m
    if mode == 'partial' and len(specs) > 1:
        # make sure it is really partial
        have = [('component' in (s.get('meta') or {})) for s in specs]
        if all(have):
            specs[rng.randrange(len(specs))]['meta'].pop('component')
        elif not any(have):
            m = dict(specs[0].get('meta') or {})
            m['component'] = base
            specs[0]['meta'] = m


def region_list(rng, profile):
    n = rng.choice([1, 1, 2, 2, 3, 3, 4, 5, 6, 7, 8])
    nvert = rng.randint(3, 12) if profile == 'clean' else None
    if profile == 'clean':
        # inputs that stay clear of the mechanisms already known to fail, so that everything else gets judged
        incs = ['absent', True, 1]
        specs = []
        for _ in range(n):
            cls = rng.choice(REPRESENTABLE)
            inc = rng.choice(incs + ([False, 0] if cls in ('PointPixelRegion', 'CirclePixelRegion', 'PolygonPixelRegion',
                                                              'RegularPolygonPixelRegion') else []))
            specs.append(region_spec(rng, cls, inc, nvert=nvert))
        comp = rng.choice(['absent', 'absent', 'ints'])
        if comp == 'ints':
            for s in specs:        # the include flag does not survive a COMPONENT column (known), keep them apart
                if (s.get('meta') or {}).get('include', True) in (False, 0):
                    s['meta'].pop('include')
    else:
        specs = [region_spec(rng, rng.choice(REPRESENTABLE), rng.choice(gen.INCLUDE_CHOICES),
                             nvert=rng.choice([None, None, 3, rng.randint(3, 30)])) for _ in range(n)]
        comp = rng.choice(['absent', 'ints', 'ints', 'partial'])
        if profile == 'hostile-file':      # a partial COMPONENT column cannot be written at all (known): keep most file cases clear of it
            comp = rng.choice(['absent', 'ints', 'ints', 'ints', 'partial'])
    set_components(rng, specs, comp)
    return specs, comp


def skipped_member(rng):
    kind = rng.choice(['sky-circle', 'sky-point', 'sky-polygon', 'line', 'text', 'rectangle-annulus', 'compound-pix', 'compound-sky'])
    if kind.startswith('sky-'):
        cls = {'sky-circle': 'CircleSkyRegion', 'sky-point': 'PointSkyRegion', 'sky-polygon': 'PolygonSkyRegion'}[kind]
        return gen.sky_region_spec(rng, cls=cls, include=rng.choice(['absent', False]))
    if kind == 'compound-sky':
        a = gen.sky_region_spec(rng, cls='CircleSkyRegion', include='absent', frame='icrs')
        b = gen.sky_region_spec(rng, cls='EllipseSkyRegion', include='absent', frame='icrs')
        return S.reg('CompoundSkyRegion', region1=a, region2=b, operator=rng.choice(['and', 'or', 'xor']))
    if kind == 'compound-pix':
        a = gen.pixel_region_spec(rng, cls='CirclePixelRegion', include='absent')
        b = gen.pixel_region_spec(rng, cls=rng.choice(['EllipsePixelRegion', 'PolygonPixelRegion']), include='absent')
        return S.reg('CompoundPixelRegion', region1=a, region2=b, operator=rng.choice(['and', 'or', 'xor']))
    cls = {'line': 'LinePixelRegion', 'text': 'TextPixelRegion', 'rectangle-annulus': 'RectangleAnnulusPixelRegion'}[kind]
    sp = gen.pixel_region_spec(rng, cls=cls, include=rng.choice(['absent', False, 1]))
    if rng.random() < 0.3:
        m = dict(sp.get('meta') or {})
        m['component'] = rng.randint(0, 50)       # must not leak into the numbering of the others
        sp['meta'] = m
    return sp


NOTATIONS = ['box', 'rotbox', 'rectangle', 'rotrectangle']
MIXERS = ['circle', 'ellipse', 'annulus', 'point']


def notation_case(rng):
    n = rng.choice([1, 1, 2, 3, 4, 6])
    rows = []
    nice = rng.random() < 0.5
    num = (lambda lo, hi: gen.dyadic(rng, lo, hi, 3)) if nice else (lambda lo, hi: rng.uniform(lo, hi))
    for _ in range(n):
        shape = rng.choice(NOTATIONS * 3 + MIXERS)
        scale = rng.choice([1.0, 1.0, 100.0, 1e4])
        x0, y0 = num(-50, 50) * scale, num(-50, 50) * scale
        row = {'shape': shape, 'excl': rng.random() < 0.25, 'case': rng.choice(['lower', 'lower', 'upper', 'title']), 'rot': 0.0}
        if shape in ('box', 'rotbox'):
            row.update(x=[x0], y=[y0], r=[num(0.125, 40) * scale, num(0.125, 40) * scale])
        elif shape in ('rectangle', 'rotrectangle'):
            row.update(x=[x0, x0 + num(0.125, 40) * scale], y=[y0, y0 + num(0.125, 40) * scale], r=[])
        elif shape == 'circle':
            row.update(x=[x0], y=[y0], r=[num(0.125, 40) * scale])
        elif shape == 'ellipse':
            row.update(x=[x0], y=[y0], r=[num(0.125, 40) * scale, num(0.125, 40) * scale], rot=rng.uniform(0, 360))
        elif shape == 'annulus':
            r0 = num(0.125, 20) * scale
            row.update(x=[x0], y=[y0], r=[r0, r0 + num(0.125, 20) * scale])
        else:
            row.update(x=[x0], y=[y0], r=[])
        if shape in ('rotbox', 'rotrectangle'):
            row['rot'] = rng.choice([0.0, 30.0, 90.0, rng.uniform(-360, 360), rng.uniform(0, 360)])
        elif shape in ('box', 'rectangle', 'circle', 'annulus', 'point') and rng.random() < 0.35:
            # a table whose ROTANG column is filled in every row: the unrotated notations do not use it
            row['rot'] = rng.choice([30.0, 90.0, rng.uniform(-360, 360)])
        rows.append(row)
    comp = rng.random() < 0.3
    if comp:
        for i, row in enumerate(rows):
            row['comp'] = rng.randint(1, 9)
    need_rot = any(r['shape'] in ('rotbox', 'rotrectangle', 'ellipse') for r in rows)
    need_r = any(r['r'] for r in rows)
    cols = ['SHAPE', 'X', 'Y'] + (['R'] if need_r or rng.random() < 0.5 else []) + \
           (['ROTANG'] if need_rot or rng.random() < 0.5 else []) + (['COMPONENT'] if comp else [])
    rng.shuffle(cols)
    return {'lane': 'read-notation', 'rows': rows, 'xw': max(len(r['x']) for r in rows) + rng.choice([0, 0, 1, 3]),
            'rw': max([len(r['r']) for r in rows] + [1]) + rng.choice([0, 0, 2]), 'units': rng.choice(['pix', 'pix', 'none']),
            'cols': cols, 'via': rng.choice(['qtable', 'qtable', 'file-qtable', 'file-table']), 'decoy': rng.random() < 0.5}


def generate(rng, tier, shard, nshards):
    n = 1500 if tier == "quick" else 20000
    for i in range(n):
        r = rng.random()
        if r < 0.22:
            yield notation_case(rng)
            continue
        if r < 0.40:
            profile = 'clean'
        else:
            profile = 'hostile'
        via = 'file' if rng.random() < 0.3 else 'table'
        if profile == 'hostile' and via == 'file':
            profile = 'hostile-file'
        specs, comp = region_list(rng, profile)
        case = {'lane': f'roundtrip-{via}:{profile.split("-")[0]}', 'regions': specs, 'via': via, 'comp': comp,
                'api': 'Region' if (len(specs) == 1 and rng.random() < 0.5) else 'Regions'}
        if rng.random() < 0.3:
            # members FITS cannot express, at random positions
            k = rng.choice([1, 1, 2, 3])
            skipped = []
            full = list(specs)
            if rng.random() < 0.1:
                full = []                      # nothing representable at all
            for _ in range(k):
                pos = rng.randint(0, len(full))
                full.insert(pos, skipped_member(rng))
            marks = []
            kept = []
            for sp in full:
                isk = not (sp['cls'] in REPRESENTABLE)
                marks.append(isk)
                if not isk:
                    kept.append(sp)
            case.update(lane=f'skipped-{via}', regions=kept, full=full, skipmask=marks, api='Regions')
        yield case


# ---------------------------------------------------------------------------
# descriptions
def _f(v):
    return float(v)


def describe_live(region):
    """class + ordered parameters of a live region, as exact floats."""
    import astropy.units as u
    name = type(region).__name__
    if name == 'RegularPolygonPixelRegion':
        region = region.to_polygon()
        name = 'PolygonPixelRegion'
    params = []
    for p in region._params:
        v = getattr(region, p)
        if p in ('center',):
            params.append((p, 'xy', (_f(v.x), _f(v.y))))
        elif p == 'vertices':
            params.append((p, 'poly', (np.asarray(v.x, dtype=float).copy(), np.asarray(v.y, dtype=float).copy())))
        elif p == 'angle':
            params.append((p, 'ang', (_f(u.Quantity(v).to_value(u.deg)), str(u.Quantity(v).unit))))
        else:
            params.append((p, 'len', _f(v)))
    meta = region.meta
    inc = meta.get('include', True)
    comp = meta.get('component', None)
    return {'cls': name, 'params': params, 'excluded': not bool(inc), 'component': comp}


def bits_equal(a, b):
    return a == b or (a != a and b != b)


def compare(exp, got, shape_cell=None, has_component_col=False, ang_only_tol=True, max_poly=None):
    """-> list of (key, msg, what) problems; empty when got matches exp."""
    probs = []
    if exp['cls'] != got['cls']:
        return [('fits-class-changed', f"{exp['cls']} came back as {got['cls']}", 'class')]
    en = [p[0] for p in exp['params']]
    gn = [p[0] for p in got['params']]
    if en != gn:
        return [('fits-class-changed', f'parameter names {en} vs {gn}', 'class')]
    unrenamed = shape_cell in UNRENAMED
    lens_e = {p[0]: p[2] for p in exp['params'] if p[1] == 'len'}
    lens_g = {p[0]: p[2] for p in got['params'] if p[1] == 'len'}
    for (name, kind, ev), (_, _, gv) in zip(exp['params'], got['params']):
        if kind == 'xy':
            if not (bits_equal(ev[0], gv[0]) and bits_equal(ev[1], gv[1])):
                probs.append((K_RENAME if unrenamed else 'fits-geometry-changed', f'{name} {ev} -> {gv}', 'geometry'))
        elif kind == 'len':
            if not bits_equal(ev, gv):
                if exp['cls'] == 'EllipsePixelRegion' and exp['excluded'] and shape_cell == '!ellipse' and \
                        all(lens_g[k] == 2.0 * lens_e[k] for k in lens_e):
                    key = K_ELL
                elif unrenamed:
                    key = K_RENAME
                else:
                    key = 'fits-geometry-changed'
                probs.append((key, f'{name} {ev!r} -> {gv!r}', 'geometry'))
        elif kind == 'poly':
            ex, ey = ev
            gx, gy = gv
            n = len(ex)
            if len(gx) == n and np.array_equal(gx, ex) and np.array_equal(gy, ey):
                continue
            # the known mechanism pads a polygon row up to the vertex count of the WIDEST POLYGON of the list - extra vertices
            # beyond that (or without any wider polygon in the list) have another cause
            if len(gx) > n and np.array_equal(gx[:n], ex) and np.array_equal(gy[:n], ey) and \
                    not np.any(gx[n:]) and not np.any(gy[n:]) and (max_poly is None or len(gx) <= max_poly):
                probs.append((K_POLYPAD, f'polygon with {n} vertices came back with {len(gx) - n} extra (0, 0) vertices', 'geometry'))
            else:
                probs.append(('fits-geometry-changed', f'vertices changed ({n} -> {len(gx)} vertices)', 'geometry'))
        elif kind == 'ang':
            e, g = ev[0], gv[0]
            if not (abs(e - g) <= 8 * np.finfo(float).eps * max(abs(e), abs(g))):
                probs.append((K_RENAME if unrenamed else 'fits-angle-changed', f'angle {e!r} deg -> {g!r} deg', 'geometry'))
    if exp['excluded'] != got['excluded']:
        if exp['excluded'] and has_component_col and got['component'] is not None:
            key = K_COMPINC
        elif unrenamed:
            key = K_RENAME
        else:
            key = 'fits-include-sense-changed'
        probs.append((key, f"excluded={exp['excluded']} came back as excluded={got['excluded']}", 'include-sense'))
    return probs


# ---------------------------------------------------------------------------
class Ctx:
    """Per-case reporter: each mechanism key is reported once per case."""

    def __init__(self, obs):
        self.obs = obs
        self.seen = set()

    def bad(self, key, msg, **detail):
        if key in self.seen:
            return
        self.seen.add(key)
        self.obs.violation(key, msg, **detail)

    def check(self, cond, key, msg, what):
        if cond:
            self.obs.ok(1, what)
        else:
            self.bad(key, msg)
        return cond


def shape_cells(table):
    if 'SHAPE' not in table.colnames:
        return []
    return [str(s).strip().lower() for s in table['SHAPE']]


def repaired(table):
    t = table.copy()
    t['SHAPE'] = [UNRENAMED.get(str(s).strip().lower(), str(s)) for s in table['SHAPE']]
    return t


def serialize(regs, api):
    from regions import Regions
    with warnings.catch_warnings(record=True) as w:
        warnings.simplefilter('always')
        if api == 'Region':
            t = regs[0].serialize(format='fits')
        else:
            t = Regions(regs).serialize(format='fits')
    return t, list(w)


_PARSE_EVENTS = []       # (kind, message) recorded by parse(); judged at the end of the case
_NPARSE = [0]


def _table_fp(table):
    from vmon.checks.c13 import rfp
    return rfp(table)


def parse(table):
    """Parse an in-memory table; the table is an input and must come out bit-identical, and parsing it a second
    time must give equal regions (the reader must not edit the caller's table)."""
    from regions import Regions
    with warnings.catch_warnings():
        warnings.simplefilter('ignore')
        before = _table_fp(table)
        out = list(Regions.parse(table, format='fits'))
        if _table_fp(table) != before:
            _PARSE_EVENTS.append(('fits-parse-mutates-input-table', 'Regions.parse(table, format="fits") changed the table it was given'))
        else:
            _PARSE_EVENTS.append(('ok', 'table-unchanged'))
        _NPARSE[0] += 1
        if _NPARSE[0] % 3 == 0:
            again = list(Regions.parse(table, format='fits'))
            same = len(again) == len(out) and all(S.fingerprint(a) == S.fingerprint(b) for a, b in zip(again, out))
            _PARSE_EVENTS.append(('ok', 'second-parse-equal') if same else
                                 ('fits-second-parse-differs', 'parsing the same in-memory table a second time gives different regions'))
        return out


def parse_judged(table, exps, ctx, what):
    """Parse a serialised table; when it carries shape names the reader does
    not know (known mechanism) and fails on them, go on with a repaired copy
    so that the other rows are still judged.  -> list of regions or None."""
    cells = shape_cells(table)
    un = [i for i, c in enumerate(cells) if c in UNRENAMED]
    try:
        out = parse(table)
        err = None
    except Exception as exc:      # noqa
        out, err = None, exc
    if un:
        failed = err is not None
        if not failed and len(out) == len(exps):
            hascomp = 'COMPONENT' in table.colnames
            failed = any(compare(exps[i], describe_live(out[i]), cells[i], hascomp) for i in un)
        elif not failed:
            failed = True
        if failed:
            ctx.bad(K_RENAME, f'rows written as {sorted(set(cells[i] for i in un))} are not read back as written: '
                              f'{type(err).__name__ + ": " + str(err)[:200] if err else "wrong region"}')
            ctx.obs.count('continued-on-repaired-table')
            try:
                return parse(repaired(table))
            except Exception as exc:      # noqa
                ctx.bad('fits-parse-raised', f'{what}: parse of the (repaired) table raised {type(exc).__name__}: {exc}')
                return None
        return out
    if err is not None:
        ctx.bad('fits-parse-raised', f'{what}: Regions.parse raised {type(err).__name__}: {str(err)[:300]}')
        return None
    return out


def judge_rows(exps, got_regions, table, ctx, what, count_rows=True):
    """Compare the regions that came back with the expected descriptions."""
    obs = ctx.obs
    if not ctx.check(len(got_regions) == len(exps), 'fits-row-count', f'{what}: {len(exps)} regions written, {len(got_regions)} came back', 'row-count'):
        return None
    cells = shape_cells(table) if table is not None else [None] * len(exps)
    hascomp = table is not None and 'COMPONENT' in table.colnames
    xw = 1
    if table is not None and 'X' in table.colnames and table['X'].ndim > 1:
        xw = table['X'].shape[1]
    gots = []
    max_poly = max([len(e['params'][0][2][0]) for e in exps if e['params'] and e['params'][0][1] == 'poly'] + [0])
    for i, (e, r) in enumerate(zip(exps, got_regions)):
        g = describe_live(r)
        gots.append(g)
        probs = compare(e, g, cells[i] if i < len(cells) else None, hascomp, max_poly=max_poly)
        whats = {'class': True, 'geometry': True, 'include-sense': True}
        for key, msg, w in probs:
            whats[w] = False
            if w == 'class':
                whats['geometry'] = whats['include-sense'] = None
            ctx.bad(key, f'{what}: row {i} ({e["cls"]}): {msg}', row=i, shape=cells[i] if i < len(cells) else None)
        for w, okay in whats.items():
            if okay:
                obs.ok(1, w)
        if not probs:
            if count_rows:
                obs.count('rows:' + e['orig_cls'])
            if e['excluded']:
                obs.ok(1, 'excluded-row')
            nx = len(e['params'][0][2][0]) if e['params'][0][1] == 'poly' else 1
            if nx < xw:
                obs.ok(1, 'padded-row')
    # components
    given = [e['component'] for e in exps]
    back = [g['component'] for g in gots]
    for i, (gv, b) in enumerate(zip(given, back)):
        if gv is not None:
            ctx.check(b is not None and int(b) == int(gv) and not isinstance(b, bool), 'fits-component-not-preserved',
                      f'{what}: row {i}: component {gv} came back as {b!r}', 'component-given')
    fresh = [b for gv, b in zip(given, back) if gv is None]
    if fresh:
        if any(gv is not None for gv in given):
            okay = all(b is not None for b in fresh) and len(set(fresh)) == len(fresh) and \
                not (set(fresh) & set(int(v) for v in given if v is not None))
            ctx.check(okay, 'fits-fresh-component-collides', f'{what}: given components {given} came back as {back}', 'component-fresh')
        else:
            okay = all(b is None for b in fresh) or (all(b is not None for b in fresh) and len(set(fresh)) == len(fresh))
            ctx.check(okay, 'fits-fresh-component-collides', f'{what}: no component given, came back as {back}', 'component-absent')
    return gots


KNOWN_KEYS = (K_ELL, K_RENAME, K_COMPINC, K_POLYPAD)


def judge_fixed_point(d1, p2, t2, ctx):
    """parse(ser(P1)) must equal P1; differences caused by a mechanism that
    has its own key keep that key."""
    if len(p2) != len(d1):
        ctx.bad('fits-not-a-fixed-point', f'second pass returns {len(p2)} regions instead of {len(d1)}')
        return
    cells = shape_cells(t2)
    hascomp = 'COMPONENT' in t2.colnames
    clean = True
    for i, (e, r) in enumerate(zip(d1, p2)):
        g = describe_live(r)
        probs = compare(e, g, cells[i] if i < len(cells) else None, hascomp)
        if e['component'] != g['component'] and e['component'] is not None:
            probs.append(('fits-not-a-fixed-point', f'component {e["component"]} -> {g["component"]}', 'component'))
        for key, msg, _ in probs:
            clean = False
            ctx.bad(key if key in KNOWN_KEYS else 'fits-not-a-fixed-point', f'second pass, row {i} ({e["cls"]}): {msg}')
    if clean:
        ctx.obs.ok(1, 'fixed-point')


def same_regions(a, b):
    """strict equality of two parsed lists (descriptions)."""
    if len(a) != len(b):
        return f'{len(a)} vs {len(b)} regions'
    for i, (x, y) in enumerate(zip(a, b)):
        dx, dy = describe_live(x), describe_live(y)
        pr = compare(dx, dy)
        if pr:
            return f'row {i}: {pr[0][1]}'
        if dx['component'] != dy['component']:
            return f'row {i}: component {dx["component"]} vs {dy["component"]}'
    return None


def tables_equal(t1, t2):
    if t1.colnames != t2.colnames:
        return f'columns {t1.colnames} vs {t2.colnames}'
    if len(t1) != len(t2):
        return f'{len(t1)} vs {len(t2)} rows'
    for c in t1.colnames:
        a, b = t1[c], t2[c]
        ua, ub = getattr(a, 'unit', None), getattr(b, 'unit', None)
        if ua != ub:
            return f'column {c}: unit {ua} vs {ub}'
        va = np.asarray(getattr(a, 'value', a))
        vb = np.asarray(getattr(b, 'value', b))
        if va.shape != vb.shape:
            return f'column {c}: shape {va.shape} vs {vb.shape}'
        if va.dtype == object or vb.dtype == object:
            same = [str(x) for x in va.ravel()] == [str(x) for x in vb.ravel()]
        elif va.dtype.kind in 'US':
            same = [str(x) for x in va.ravel()] == [str(x) for x in vb.ravel()]
        else:
            same = np.array_equal(va, vb)
        if not same:
            return f'column {c} differs'
    return None


def scratch_path(name):
    os.makedirs(SCRATCH, exist_ok=True)
    return os.path.join(SCRATCH, name)


def finish(obs):
    shutil.rmtree(SCRATCH, ignore_errors=True)


def _rm(path):
    try:
        os.remove(path)
    except OSError:
        pass


# ---------------------------------------------------------------------------
def run_case(case, obs):
    try:
        if case['lane'] == 'read-notation':
            run_notation(case, obs)
        else:
            run_roundtrip(case, obs)
    finally:
        for kind, msg in _PARSE_EVENTS:
            if kind == 'ok':
                obs.ok(1, msg)
            else:
                obs.violation(kind, msg)
        del _PARSE_EVENTS[:]
        if os.path.isdir(SCRATCH):
            for fn in os.listdir(SCRATCH):
                _rm(os.path.join(SCRATCH, fn))
            if obs.tier == 'replay':
                shutil.rmtree(SCRATCH, ignore_errors=True)


def run_roundtrip(case, obs):
    from regions import Regions
    ctx = Ctx(obs)
    regs = S.build(case['regions'])
    exps = []
    for sp, r in zip(case['regions'], regs):
        e = describe_live(r)
        e['orig_cls'] = sp['cls']
        exps.append(e)
    api = case['api']

    full = None
    if 'full' in case:
        full = S.build(case['full'])
        table, warns = serialize(full, 'Regions')
        nskip = sum(case['skipmask'])
        ctx.check(len(warns) >= 1, 'fits-skipped-without-warning',
                  f'{nskip} member(s) FITS cannot express ({[s["cls"] for s, m in zip(case["full"], case["skipmask"]) if m]}) were dropped without a warning',
                  'skipped-warning')
        for sp, r, m in zip(case['full'], full, case['skipmask']):
            if m:
                t1, w1 = serialize([r], 'Regions')
                ctx.check(len(w1) >= 1 and len(t1) == 0, 'fits-skipped-without-warning' if len(t1) == 0 else 'fits-inexpressible-member-written',
                          f'{sp["cls"]} alone: {len(w1)} warnings, {len(t1)} rows', 'skipped-solo')
        if regs:
            ref, _ = serialize(regs, 'Regions')
            diff = tables_equal(table, ref)
            ctx.check(diff is None, 'fits-skipped-member-corrupts-rows',
                      f'rows differ from those of the list without the skipped members: {diff}', 'skipped-rows')
        else:
            ctx.check(len(table) == 0, 'fits-inexpressible-member-written', f'{len(table)} rows for a list without representable members', 'skipped-rows')
    else:
        table, warns = serialize(regs, api)

    # '!' <=> excluded
    cells = shape_cells(table)
    if len(cells) == len(exps):
        for i, (c, e) in enumerate(zip(cells, exps)):
            ctx.check(c.startswith('!') == e['excluded'], 'fits-exclamation-flag-wrong',
                      f'row {i}: SHAPE {c!r} for a region with excluded={e["excluded"]}', 'bang-flag')
    elif exps or len(table):
        ctx.bad('fits-row-count', f'{len(exps)} representable regions gave {len(table)} table rows')
        return

    p1 = parse_judged(table, exps, ctx, 'table')
    if p1 is not None:
        judge_rows(exps, p1, table, ctx, 'table')
        # fixed point
        if len(p1) == len(exps):
            t2, _ = serialize(p1, 'Regions') if p1 else (table, None)
            d1 = [dict(describe_live(r), orig_cls='') for r in p1]
            p2 = parse_judged(t2, d1, ctx, 'second pass')
            if p2 is not None:
                judge_fixed_point(d1, p2, t2, ctx)

    if case['via'] != 'file':
        return
    # through a real file
    path = scratch_path('rt.fits')
    _rm(path)
    try:
        with warnings.catch_warnings(record=True) as wfile:
            warnings.simplefilter('always')
            target = full if full is not None else regs
            if api == 'Region':
                target[0].write(path, format='fits')
            else:
                Regions(target).write(path, format='fits')
        if full is not None and api != 'Region':
            # the file path warns about skipped members just as serialising does
            ctx.check(len(wfile) >= 1, 'fits-skipped-without-warning',
                      f'Regions.write(format="fits") dropped {sum(case["skipmask"])} member(s) FITS cannot express without a warning (serialize() warned {len(warns)}x)',
                      'skipped-warning')
    except Exception as exc:      # noqa
        name = type(exc).__name__
        if 'COMPONENT' in table.colnames and np.asarray(table['COMPONENT']).dtype == object and isinstance(exc, TypeError):
            ctx.bad(K_PARTIAL, f'a list in which only some regions have a component cannot be written to a file: {name}: {exc}')
        elif name == 'UnitScaleError' or ('ROTANG' in table.colnames and str(getattr(table['ROTANG'], 'unit', 'deg')) not in ('deg', 'rad', 'arcmin', 'arcsec')
                                          and 'ROTANG' in str(exc)):
            ctx.bad(K_ROTUNIT, f'ROTANG column in unit {getattr(table["ROTANG"], "unit", None)} cannot be written: {name}: {str(exc)[:200]}')
        else:
            ctx.bad('fits-file-write-raised', f'write raised {name}: {str(exc)[:300]}')
        return
    try:
        with warnings.catch_warnings():
            warnings.simplefilter('ignore')
            f1 = list(Regions.read(path, format='fits'))
    except Exception as exc:      # noqa
        if any(c in UNRENAMED for c in cells):
            ctx.bad(K_RENAME, f'file with rows {sorted(set(c for c in cells if c in UNRENAMED))} cannot be read back: {type(exc).__name__}: {exc}')
            obs.skip(1, 'file-unreadable-known')
        else:
            ctx.bad('fits-file-read-raised', f'read raised {type(exc).__name__}: {str(exc)[:300]}')
        return
    if any(c in UNRENAMED for c in cells):
        # rows the reader misreads (known); the remaining comparison would only repeat it
        if len(f1) == len(exps):
            hascomp = 'COMPONENT' in table.colnames
            if any(compare(exps[i], describe_live(f1[i]), cells[i], hascomp) for i, c in enumerate(cells) if c in UNRENAMED):
                ctx.bad(K_RENAME, 'file rows with unrenamed excluded shapes are misread')
                obs.skip(1, 'file-misread-known')
                return
    if judge_rows(exps, f1, table, ctx, 'file', count_rows=False) is not None:
        obs.ok(1, 'file-roundtrip')
    if p1 is not None and not (ctx.seen & {K_RENAME}):
        diff = same_regions(p1, f1)
        ctx.check(diff is None, 'fits-file-differs-from-table', f'Regions.read(file) != Regions.parse(table): {diff}', 'file-vs-table')


# ---------------------------------------------------------------------------
def notation_expected(row):
    x, y, r = row['x'], row['y'], row['r']
    shape = row['shape']
    ang = ('angle', 'ang', (float(row['rot']), 'deg'))
    zero = ('angle', 'ang', (0.0, 'deg'))
    if shape in ('box', 'rotbox'):
        params = [('center', 'xy', (x[0], y[0])), ('width', 'len', r[0]), ('height', 'len', r[1]), ang if shape == 'rotbox' else zero]
        cls = 'RectanglePixelRegion'
    elif shape in ('rectangle', 'rotrectangle'):
        params = [('center', 'xy', (0.5 * (x[0] + x[1]), 0.5 * (y[0] + y[1]))), ('width', 'len', x[1] - x[0]), ('height', 'len', y[1] - y[0]),
                  ang if shape == 'rotrectangle' else zero]
        cls = 'RectanglePixelRegion'
    elif shape == 'circle':
        params = [('center', 'xy', (x[0], y[0])), ('radius', 'len', r[0])]
        cls = 'CirclePixelRegion'
    elif shape == 'ellipse':
        params = [('center', 'xy', (x[0], y[0])), ('width', 'len', 2.0 * r[0]), ('height', 'len', 2.0 * r[1]), ang]
        cls = 'EllipsePixelRegion'
    elif shape == 'annulus':
        params = [('center', 'xy', (x[0], y[0])), ('inner_radius', 'len', r[0]), ('outer_radius', 'len', r[1])]
        cls = 'CircleAnnulusPixelRegion'
    else:
        params = [('center', 'xy', (x[0], y[0]))]
        cls = 'PointPixelRegion'
    return {'cls': cls, 'params': params, 'excluded': row['excl'], 'component': row.get('comp')}


def close(a, b, scale):
    return abs(a - b) <= 4 * np.finfo(float).eps * scale


def build_table(case, rows, qtable):
    import astropy.units as u
    from astropy.table import QTable, Table
    n = len(rows)
    xw, rw = case['xw'], case['rw']

    def col(key, w):
        a = np.zeros((n, w))
        for i, row in enumerate(rows):
            a[i, :len(row[key])] = row[key]
        return a[:, 0] if w == 1 else a

    def cased(row):
        s = row['shape']
        s = {'lower': s, 'upper': s.upper(), 'title': s.title()}[row['case']]
        return ('!' if row['excl'] else '') + s

    t = QTable() if qtable else Table()
    for c in case['cols']:
        if c == 'SHAPE':
            t[c] = [cased(r) for r in rows]
        elif c in ('X', 'Y', 'R'):
            a = col(c.lower(), xw if c != 'R' else rw)
            if case['units'] == 'pix':
                if qtable:
                    t[c] = a * u.pix
                else:
                    t[c] = a
                    t[c].unit = u.pix
            else:
                t[c] = a
        elif c == 'ROTANG':
            a = np.array([float(r['rot']) for r in rows])
            if qtable:
                t[c] = a * u.deg
            else:
                t[c] = a
                t[c].unit = u.deg
        elif c == 'COMPONENT':
            t[c] = np.array([r['comp'] for r in rows], dtype=np.int64)
    return t


def run_notation(case, obs):
    from astropy.io import fits
    from regions import Regions
    ctx = Ctx(obs)
    rows = case['rows']
    exps = [notation_expected(r) for r in rows]
    via = case['via']
    t = build_table(case, rows, qtable=(via != 'file-table'))
    if via == 'qtable':
        try:
            out = parse(t)
        except Exception as exc:      # noqa
            ctx.bad('fits-notation-parse-raised', f'hand-built table with shapes {[r["shape"] for r in rows]} raised {type(exc).__name__}: {str(exc)[:300]}')
            return
    else:
        path = scratch_path('hand.fits')
        _rm(path)
        hdus = [fits.PrimaryHDU()]
        if case['decoy']:
            decoy_rows = [dict(r, x=[v + 1000.0 for v in r['x']], y=[v - 1000.0 for v in r['y']]) for r in rows]
            with warnings.catch_warnings():
                warnings.simplefilter('ignore')
                hdus.append(fits.BinTableHDU(build_table(case, decoy_rows, qtable=(via != 'file-table')), name='SRCLIST'))
        with warnings.catch_warnings():
            warnings.simplefilter('ignore')
            hdus.append(fits.BinTableHDU(t, name='REGION'))
            fits.HDUList(hdus).writeto(path)
        try:
            with warnings.catch_warnings():
                warnings.simplefilter('ignore')
                out = list(Regions.read(path, format='fits'))
        except Exception as exc:      # noqa
            ctx.bad('fits-notation-read-raised', f'hand-built file with shapes {[r["shape"] for r in rows]} raised {type(exc).__name__}: {str(exc)[:300]}')
            return
    if not ctx.check(len(out) == len(exps), 'fits-notation-row-count', f'{len(exps)} rows gave {len(out)} regions', 'row-count'):
        return
    hascomp = 'COMPONENT' in case['cols']
    allok = True
    for i, (row, e, r) in enumerate(zip(rows, exps, out)):
        g = describe_live(r)
        shape = row['shape']
        prob = None
        if g['cls'] != e['cls'] or [p[0] for p in g['params']] != [p[0] for p in e['params']]:
            prob = f"class {g['cls']} instead of {e['cls']}"
        else:
            scale = max([abs(v) for v in row['x'] + row['y'] + row['r']] + [1e-300])
            for (name, kind, ev), (_, _, gv) in zip(e['params'], g['params']):
                if kind == 'xy':
                    okay = close(ev[0], gv[0], scale) and close(ev[1], gv[1], scale)
                elif kind == 'len':
                    okay = close(ev, gv, scale)
                else:
                    okay = abs(ev[0] - gv[0]) <= 8 * np.finfo(float).eps * max(abs(ev[0]), abs(gv[0]))
                if not okay:
                    prob = f'{name}: model {ev} but read {gv}'
                    break
        if prob:
            allok = False
            ctx.bad('fits-notation-' + shape, f'row {i} {shape} X={row["x"]} Y={row["y"]} R={row["r"]} ROTANG={row["rot"]}: {prob}')
        else:
            obs.ok(1, 'notation:' + shape)
        if g['excluded'] != e['excluded']:
            allok = False
            key = K_COMPINC if (e['excluded'] and hascomp and g['component'] is not None) else 'fits-notation-include-sense'
            ctx.bad(key, f"row {i} {'!' if row['excl'] else ''}{shape}: excluded={e['excluded']} read as excluded={g['excluded']}")
        else:
            obs.ok(1, 'notation-include')
        if hascomp:
            ctx.check(g['component'] is not None and int(g['component']) == row['comp'], 'fits-notation-component',
                      f'row {i}: COMPONENT {row["comp"]} read as {g["component"]!r}', 'notation-component')
    if via != 'qtable' and allok:
        obs.ok(1, 'notation-file')


MUTANTS = [
    ('annulus-radii-halved-on-write', 'regions/io/fits/write.py', "            if shape == 'ellipse':\n                value /= 2.0",
     "            if shape in ('ellipse', 'annulus'):\n                value /= 2.0"),
    ('exclusion-lost-on-read', 'regions/io/fits/read.py', "    if shape[0] == '!':\n        include = 0\n        shape = shape[1:]",
     "    if shape[0] == '!':\n        shape = shape[1:]"),
    ('fresh-components-reuse-the-maximum', 'regions/io/fits/write.py', 'start_component = np.max(comps) + 1', 'start_component = np.max(comps)'),
    ('padding-on-the-left', 'regions/io/fits/write.py', "arr = np.pad(arr, (0, pad_width), mode='constant')",
     "arr = np.pad(arr, (pad_width, 0), mode='constant')"),
    ('rectangle-centre-is-first-corner', 'regions/io/fits/read.py', 'xcenter = 0.5 * (xmin + xmax)', 'xcenter = xmin'),
    ('ellipse-only-first-axis-doubled', 'regions/io/fits/read.py', "values[2:-1] = list(np.array(values[2:-1]) * 2.)",
     "values[2:-2] = list(np.array(values[2:-2]) * 2.)"),
    ('unsupported-shape-dropped-silently', 'regions/io/fits/write.py',
     "        warnings.warn(f'({region_clsname} cannot be serialized using the '\n                      'FITS format, skipping.', AstropyUserWarning)\n        return None",
     "        return None"),
    ('first-extension-instead-of-REGION', 'regions/io/fits/read.py', "            if hdu.name == 'REGION':", "            if hdu.name != 'PRIMARY':"),
    ('include-zero-not-excluded', 'regions/io/fits/write.py', "if region.meta.get('include', None) == 0:", "if region.meta.get('include', None) is False:"),
    ('rotrectangle-angle-dropped', 'regions/io/fits/read.py', "        if shape == 'rotrectangle':\n            shape_params.append(values[-1])  # angle",
     "        if shape == 'rotrectangle' and False:\n            shape_params.append(values[-1])  # angle"),
    ('shape-case-not-folded', 'regions/io/fits/read.py', "shape = region_row[shape_key].lower()", "shape = region_row[shape_key]"),
    ('sky-member-aborts-the-list', 'regions/io/fits/write.py',
     "                          'region format, skipping.', AstropyUserWarning)\n            continue",
     "                          'region format, skipping.', AstropyUserWarning)\n            break"),
    ('component-read-from-row-index', 'regions/io/fits/read.py', "component = int(region_row[shape_key])", "component = int(region_row.index) + 1"),
]
