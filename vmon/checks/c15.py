"""C15 - membership, area, boxes and masks follow the region under rigid motions.

Observed: PixelRegion.rotate(center, angle) results and to_mask/bounding_box of
integer-translated copies.  Oracle: the harness's own complex rotation of the
query points + the geometric membership model on both the original and the
rotated region; the C02 sampled-mask oracle marks the rounding-ambiguous pixels
at which translated masks may legitimately differ.
"""
import math
import random

import numpy as np

from vmon import gen, geom, monitors, spec as S
from vmon.checks import c01, c04

ID = 'C15'
LEVEL = 'exploration'
TECHNIQUE = 'runtime oracle on rotate()/translated masks: independent complex rotation of queries + geometric membership model; bit-comparison of translated masks outside rounding-ambiguous pixels'
RULE = ('rotation cases = (pixel region spec incl. regular polygons/annuli/compounds, pivot in {own centre, origin, far, random}, '
        'angle any magnitude/sign/unit, query-set spec); translation cases = (dyadic-parameter region spec, integer shift |t|<=1e4, '
        'mode in {center, subpixels n, exact}); non-trivial = >=1 judged comparison; distinct = distinct case specs')
ASSUMPTIONS = ['translated masks may differ only at pixels where a sample centre lies within rounding of the boundary (polygon kernel works in absolute coordinates)']


def budget(tier):
    return 50 if tier == 'quick' else 420


def shards(tier):
    return 16


def required_counters(tier):
    return {'judged:rot-membership': 1000, 'judged:rot-class-meta': 100, 'judged:rot-area': 50, 'judged:rot-back': 100, 'judged:rot-params': 100,
            'judged:rot-original-untouched': 100, 'judged:trans-bbox': 100, 'judged:trans-mask': 100, 'judged:trans-mask-exact': 100}


def generate(rng, tier, shard, nshards):
    n = 2000 if tier == 'quick' else 40000
    for i in range(n):
        if rng.random() < 0.6:
            r = rng.random()
            if r < 0.15:
                leaf = lambda: gen.pixel_region_spec(rng, classes=gen.MASKABLE + ['PointPixelRegion', 'LinePixelRegion'],
                                                     size=gen.logu(rng, 1, 100), center=(rng.uniform(-30, 30), rng.uniform(-30, 30)))
                region = gen.compound_spec(rng, rng.randint(1, 2), leaf)
            else:
                region = gen.pixel_region_spec(rng, size_range=(1e-2, 1e4),
                                               meta_extra=({'label': 'x', 'tag': ['a', 'b']} if rng.random() < 0.4 else
                                                           {k: v for k, v in gen.rich_meta(rng, include='absent', nmax=6).items()}) if rng.random() < 0.6 else None)
                if rng.random() < 0.3:
                    region['visual'] = {'color': 'red', 'linewidth': 2}
                if rng.random() < 0.12:
                    # DS9's "this region may not be rotated / moved in the GUI" flags are metadata, not geometry
                    region['meta'] = dict(region.get('meta') or {}, rotate=0, move=0, fixed=1)
            if region['cls'] == 'TextPixelRegion' and rng.random() < 0.6:
                region['visual'] = dict(region.get('visual') or {}, rotation=rng.choice([30.0, 0.0, -45.0]), fontsize=12)      # as parsed from DS9 textangle=
            elif rng.random() < 0.2:
                region['visual'] = gen.rich_visual(rng)
            tiny = rng.random() < 0.06
            yield {'lane': 'rotate:' + region['cls'], 'region': region, 'pivot': 'very-far' if tiny else rng.choice(['centre', 'origin', 'far', 'random']),
                   # angles so small that cos(angle) rounds to 1 while sin(angle) does not vanish, about a pivot millions of pixels away
                   'angle': S.q(rng.choice([-1, 1]) * gen.logu(rng, 1e-9, 1.4e-8), 'rad') if tiny else gen.angle_spec(rng),
                   'q': {'kind': rng.choice(['bbox', 'boundary', 'mixed']), 'form': '1d', 'shape': None, 'dtype': 'float64',
                         'n': rng.choice([33, 120]), 'rs': rng.randrange(2 ** 31)}, 'rs': rng.randrange(2 ** 31)}
        elif rng.random() < 0.2:
            # lattice polygons sampled on power-of-two sub-grids: every quantity the kernel forms for a sample lying exactly on an
            # edge is exact, and no sample can lie within rounding of an edge without lying on it, so translated masks must be
            # bit-identical (no ambiguity exception)
            yield {'lane': 'translate-exact-polygon', 'nv': rng.choice([3, 3, 5, 6, 7, 9, 4]), 'q': rng.choice([1, 2, 4]), 'n': rng.choice([1, 2, 4, 8]),
                   'tx': rng.choice([0, 1, -3, rng.randint(-10 ** 4, 10 ** 4)]), 'ty': rng.choice([1, 0, 7, rng.randint(-10 ** 4, 10 ** 4)]),
                   'rs': rng.randrange(2 ** 31)}
        elif rng.random() < 0.25:
            # bounding boxes of the regions without a mask (point / text / line), coordinates on the 1/8 lattice incl. pixel edges
            # (k + 1/2) and pixel centres, odd and even integer shifts
            yield {'lane': 'translate-box', 'cls': rng.choice(['PointPixelRegion', 'TextPixelRegion', 'LinePixelRegion']),
                   'tx': rng.choice([1, -1, 2, 7, -3, rng.randint(-10 ** 4, 10 ** 4)]), 'ty': rng.choice([0, 1, 3, -5, rng.randint(-10 ** 4, 10 ** 4)]),
                   'rs': rng.randrange(2 ** 31)}
        else:
            cls = rng.choice(gen.MASKABLE + ['compound'])
            mode = 'center' if (cls == 'compound' or 'Annulus' in cls) else rng.choice(['center', 'subpixels', 'subpixels', 'exact'])
            if mode == 'exact' and cls not in ('CirclePixelRegion', 'EllipsePixelRegion'):
                mode = 'subpixels'
            yield {'lane': 'translate:' + cls + ':' + mode, 'cls': cls, 'mode': mode, 'n': rng.randint(1, 8),
                   'tx': rng.choice([1, -1, 7, rng.randint(-10 ** 4, 10 ** 4)]), 'ty': rng.choice([0, 3, rng.randint(-10 ** 4, 10 ** 4)]),
                   'rs': rng.randrange(2 ** 31)}


def dyadic_region_spec(prng, cls):
    D = lambda lo, hi: gen.dyadic(prng, lo, hi, 3)
    c = S.pix(D(-40, 40), D(-40, 40))
    ang = S.q(prng.choice([0.0, 30.0, 45.0, 90.0, prng.uniform(-360, 360)]), 'deg')
    if cls == 'CirclePixelRegion':
        return S.reg(cls, center=c, radius=D(0.25, 20))
    if cls in ('EllipsePixelRegion', 'RectanglePixelRegion'):
        return S.reg(cls, center=c, width=D(0.25, 30), height=D(0.25, 30), angle=ang)
    if cls == 'PolygonPixelRegion':
        n = prng.randint(3, 9)
        return S.reg(cls, vertices=S.pix(S.arr_spec([D(-20, 20) for _ in range(n)]), S.arr_spec([D(-20, 20) for _ in range(n)])))
    if cls == 'RegularPolygonPixelRegion':
        return S.reg(cls, center=c, nvertices=prng.randint(3, 9), radius=D(0.5, 20), angle=ang)
    if cls == 'CircleAnnulusPixelRegion':
        ro = D(1, 20)
        return S.reg(cls, center=c, inner_radius=ro / 2, outer_radius=ro)
    if cls in ('EllipseAnnulusPixelRegion', 'RectangleAnnulusPixelRegion'):
        w, h = D(1, 30), D(1, 30)
        return S.reg(cls, center=c, inner_width=w / 2, outer_width=w, inner_height=h / 4, outer_height=h, angle=ang)
    if cls == 'compound':
        a = dyadic_region_spec(prng, prng.choice(gen.SIMPLE_PIX))
        b = dyadic_region_spec(prng, prng.choice(gen.MASKABLE))
        return S.reg('CompoundPixelRegion', region1=a, region2=b, operator=prng.choice(['and', 'or', 'xor']))
    raise ValueError(cls)


def shift_tree(spec, tx, ty):
    if spec['cls'] == 'CompoundPixelRegion':
        import copy
        s = copy.deepcopy(spec)
        s['p']['region1'] = shift_tree(spec['p']['region1'], tx, ty)
        s['p']['region2'] = shift_tree(spec['p']['region2'], tx, ty)
        return s
    return c04.shift_spec(spec, tx, ty)


def edge_ambiguous(region):
    if type(region).__name__ == 'CompoundPixelRegion':
        return edge_ambiguous(region.region1) or edge_ambiguous(region.region2)
    x0, x1, y0, y1, tol = geom.true_extent(region)
    if tol == 0:
        return False
    ex = c04.exact_extent(region)
    if ex is not None:
        from fractions import Fraction
        if all(Fraction(float(a)) == b for a, b in zip((x0, x1, y0, y1), ex)):
            return False        # all arithmetic exact: nothing is ambiguous
    tol = 4 * tol
    for v in (x0, x1, y0, y1):
        f = (v - 0.5) - math.floor(v - 0.5)
        if min(f, 1 - f) <= tol:
            return True
    return False


def numeric_params(region):
    """flat list of (name, float value, kind) for comparing parameters."""
    import astropy.units as u
    out = []
    for name in region._params:
        v = getattr(region, name)
        if name == 'operator' or name == 'text':
            out.append((name, v, 'id'))
        elif hasattr(v, '_params'):
            out.extend((name + '.' + n, val, k) for n, val, k in numeric_params(v))
        elif hasattr(v, 'xy'):
            out.append((name + '.x', np.asarray(v.x, dtype=float), 'pos'))
            out.append((name + '.y', np.asarray(v.y, dtype=float), 'pos'))
        elif isinstance(v, u.Quantity):
            out.append((name, float(v.to_value(u.deg)), 'angle'))
        else:
            out.append((name, float(v), 'size'))
    return out


def run_case(case, obs):
    import astropy.units as u
    from regions import PixCoord
    prng = random.Random(case['rs'])
    if case['lane'].startswith('rotate'):
        region = S.build(case['region'])
        fp0 = S.fingerprint(region)
        cx, cy, L = c01.region_scale(region)
        D = max(2.0 ** 30, 1e8 * L)
        pv = {'centre': (cx, cy), 'origin': (0.0, 0.0), 'far': (cx + 1e3 * L, cy - 1e3 * L), 'very-far': (cx + D, cy - 0.5 * D),
              'random': (cx + prng.uniform(-3, 3) * L, cy + prng.uniform(-3, 3) * L)}[case['pivot']]
        if case['pivot'] == 'very-far':
            obs.count('tiny-angle-about-a-very-far-pivot')
        A = S.build(case['angle'])
        th = float(A.to_value(u.rad))
        pivot = PixCoord(*pv)
        # the documented signature is rotate(center, angle): positional, by keyword, or mixed
        form = case['rs'] % 4
        if form == 0:
            rr = region.rotate(center=pivot, angle=A)
            obs.count('rotate-called-with-keywords')
        elif form == 1:
            rr = region.rotate(angle=A, center=pivot)
            obs.count('rotate-called-with-keywords')
        elif form == 2:
            rr = region.rotate(pivot, angle=A)
        else:
            rr = region.rotate(pivot, A)
        obs.check(type(rr) is type(region), 'rotate-class-changed', f'{type(region).__name__}.rotate gave {type(rr).__name__}', 'rot-class-meta')
        obs.check(dict(rr.meta) == dict(region.meta) and dict(rr.visual) == dict(region.visual) and type(rr.meta) is type(region.meta),
                  'rotate-meta-changed', f'rotate changed meta/visual: {dict(rr.meta)} vs {dict(region.meta)}', 'rot-class-meta')
        obs.check(S.fingerprint(region) == fp0, 'rotate-mutates-original', f'{type(region).__name__}.rotate changed the original object', 'rot-original-untouched')
        obs.check(rr is not region, 'rotate-returns-self', 'rotate returned the same object', 'rot-original-untouched')
        # the rotated region is a region of its own: no mutable object in common with the original (also for a rotation by exactly 0)
        ids0, ids1 = S.mutable_ids(region), S.mutable_ids(rr)
        shared = set(ids0) & set(ids1)
        obs.check(not shared, 'rotate-result-shares-state', f'{type(region).__name__}.rotate({A!r}): the result shares {[ids0[k] for k in list(shared)[:3]]} with the original',
                  'rot-original-untouched')
        if th == 0.0:
            obs.count('rotations-by-exactly-zero')
        # area
        try:
            a0, a1 = region.area, rr.area
            tol_a = 1e-12 * abs(a0)
            if 'Polygon' in type(region).__name__:
                # polygon areas are computed from the (rotated, hence re-rounded) vertices: each vertex moves by up to
                # eps * (largest coordinate involved), which changes the area by at most that times the perimeter
                nv = len(region.vertices.x)
                cmax = abs(cx) + abs(cy) + abs(pv[0]) + abs(pv[1]) + 2 * math.hypot(cx - pv[0], cy - pv[1]) + 2 * L
                tol_a += 64 * geom.EPS64 * cmax * (2 * L * nv) * (1 + abs(th) * 1e-3) + 1e-9 * abs(a0) * 0
            obs.check(abs(a1 - a0) <= tol_a, 'rotate-area-changed', f'area {a0!r} -> {a1!r} (tolerance {tol_a:.3g})', 'rot-area')
        except NotImplementedError:
            pass
        # membership follows the rotation
        pc = c01.make_queries(region, case['q'])
        px, py = np.asarray(pc.x, dtype=float), np.asarray(pc.y, dtype=float)
        z = ((px - pv[0]) + 1j * (py - pv[1])) * complex(math.cos(th), math.sin(th))
        qx, qy = pv[0] + z.real, pv[1] + z.imag
        m0, d0 = geom.contains_member(region, px, py)
        m1, d1 = geom.contains_member(rr, qx, qy)
        # rotating far from the pivot costs |p - pivot| * eps * (1 + |theta|) of position accuracy
        reach = np.hypot(px - pv[0], py - pv[1])
        extra = 8 * geom.EPS64 * reach * (1 + abs(th)) + 64 * geom.EPS64 * (abs(pv[0]) + abs(pv[1]))
        if type(region).__name__ != 'CompoundPixelRegion':
            mg0, b0 = geom.shape_margin(region, px, py)
            mg1, b1 = geom.shape_margin(rr, qx, qy)
            d0 = np.abs(mg0) > b0 + extra
            d1 = np.abs(mg1) > b1 + extra
            both = d0 & d1
        else:
            both = d0 & d1 & (reach < 1e3 * L)
        got0 = np.asarray(region.contains(pc)).reshape(px.shape)
        got1 = np.asarray(rr.contains(PixCoord(qx, qy))).reshape(px.shape)
        bad = both & ((m0 != m1) | (got0 != got1))
        obs.skip(int((~both).sum()), 'rot-membership')
        if bad.any():
            i = int(np.flatnonzero(bad)[0])
            obs.violation('rotate-membership-differs:' + type(region).__name__,
                          f'{type(region).__name__}.rotate(pivot={pv}, {A}): point ({px[i]!r},{py[i]!r}) member={bool(got0[i])} (model {bool(m0[i])}) '
                          f'but rotated point ({qx[i]!r},{qy[i]!r}) member of rotated region={bool(got1[i])} (model {bool(m1[i])})',
                          region=repr(region)[:300], rotated=repr(rr)[:300])
        else:
            obs.ok(int(both.sum()), 'rot-membership')
        # the positions themselves rotated with the library's PixCoord.rotate, as held in a catalogue grid (2-D / 3-D arrays, a scalar):
        # they land where the rotation puts them, and are members of the rotated region exactly when the originals were of the original
        k2 = (px.size // 2) * 2
        if k2 >= 2:
            shp = [(2, k2 // 2), (k2 // 2, 2), (k2 // 2, 1, 2)][case['rs'] % 3]
            pcn = PixCoord(px[:k2].reshape(shp), py[:k2].reshape(shp))
            try:
                rot = pcn.rotate(pivot, A)
                okr = np.shape(rot.x) == shp and np.shape(rot.y) == shp
                if okr:
                    dev = np.hypot(np.asarray(rot.x, dtype=float).ravel() - qx[:k2], np.asarray(rot.y, dtype=float).ravel() - qy[:k2])
                    tolq = 1e-9 * (1 + reach[:k2]) * (1 + abs(th)) + 64 * geom.EPS64 * (abs(pv[0]) + abs(pv[1]))
                    okr = bool(np.all(dev <= tolq))
                obs.check(okr, 'rotated-positions-wrong', f'PixCoord of shape {shp}.rotate(pivot={pv}, {A}) gives shape {np.shape(rot.x)}'
                          + ('' if np.shape(rot.x) != shp else f', positions up to {float(dev.max()):.3g} px from where the rotation puts them'), 'rot-positions')
                if okr:
                    got_n = np.asarray(rr.contains(rot)).ravel()
                    badn = both[:k2] & (got_n != got0[:k2])
                    obs.check(not badn.any(), 'rotate-membership-differs:' + type(region).__name__,
                              f'{type(region).__name__}: positions of shape {shp} rotated with PixCoord.rotate are members of the rotated region where the '
                              f'originals were not (or the reverse): {int(badn.sum())} positions', 'rot-membership')
            except Exception as exc:
                obs.violation('rotated-positions-wrong', f'PixCoord of shape {shp}.rotate raised {type(exc).__name__}: {exc}')
        # parameters of the rotated region: positions rotated by the harness's own rotation, angle advanced, sizes kept
        ok, why = True, ''
        tolp = 1e-9 * (L + math.hypot(cx - pv[0], cy - pv[1])) + 64 * geom.EPS64 * (abs(pv[0]) + abs(pv[1]) + abs(cx) + abs(cy)) * (1 + abs(th))
        if type(region).__name__ not in ('RegularPolygonPixelRegion',):
            P0, P1 = numeric_params(region), numeric_params(rr)
            d0 = {n: (v, k) for n, v, k in P0}
            d1 = {n: (v, k) for n, v, k in P1}
            for name, (v, k) in d0.items():
                if name not in d1:
                    ok, why = False, f'{name} missing'
                    continue
                w = d1[name][0]
                if k == 'pos' and name.endswith('.x'):
                    yname = name[:-2] + '.y'
                    zz = ((v - pv[0]) + 1j * (d0[yname][0] - pv[1])) * complex(math.cos(th), math.sin(th))
                    ex_, ey_ = pv[0] + zz.real, pv[1] + zz.imag
                    rch = np.hypot(v - pv[0], d0[yname][0] - pv[1])
                    t_ = tolp + 8 * geom.EPS64 * rch * (1 + abs(th))
                    if not (np.shape(w) == np.shape(ex_) and np.all(np.abs(w - ex_) <= t_) and np.all(np.abs(d1[yname][0] - ey_) <= t_)):
                        ok, why = False, f'{name[:-2]}: expected ({ex_!r},{ey_!r}) got ({w!r},{d1[yname][0]!r})'
                elif k == 'angle':
                    dd = (w - v - math.degrees(th)) % 360.0
                    if min(dd, 360 - dd) > 1e-9 * max(1.0, abs(v), abs(math.degrees(th))):
                        ok, why = False, f'{name}: {v!r} deg -> {w!r} deg for a rotation by {math.degrees(th)!r} deg'
                elif k == 'size' and v != w:
                    ok, why = False, f'{name}: size {v!r} -> {w!r}'
                elif k == 'id' and v != w:
                    ok, why = False, f'{name}: {v!r} -> {w!r}'
            obs.check(ok, 'rotate-parameters-wrong:' + type(region).__name__, f'{type(region).__name__}.rotate(pivot={pv}, {A}): {why}', 'rot-params')
        # rotate back
        r2 = rr.rotate(pivot, -A)
        ok, why = True, ''
        tolpos = 1e-9 * (L + math.hypot(cx - pv[0], cy - pv[1])) + 64 * geom.EPS64 * (abs(pv[0]) + abs(pv[1]) + abs(cx) + abs(cy)) * (1 + abs(th))
        for (n0, v0, k0), (n1, v1, k1) in zip(numeric_params(region), numeric_params(r2)):
            if k0 == 'id':
                good = v0 == v1
            elif k0 == 'pos':
                good = np.shape(v0) == np.shape(v1) and bool(np.all(np.abs(v0 - v1) <= tolpos))
            elif k0 == 'angle':
                good = abs(v0 - v1) <= 1e-9 * max(1.0, abs(v0), abs(math.degrees(th)))
            else:
                good = v0 == v1
            if not good:
                ok, why = False, f'{n0}: {v0!r} -> {v1!r}'
        obs.check(ok, 'rotate-back-does-not-restore', f'{type(region).__name__}: rotate(c, a).rotate(c, -a) changed {why}', 'rot-back')
        return

    if case['lane'] == 'translate-exact-polygon':
        from regions import PolygonPixelRegion
        q, nv = case['q'], case['nv']
        vx = [prng.randint(-20 * q, 20 * q) / q for _ in range(nv)]
        vy = [prng.randint(-20 * q, 20 * q) / q for _ in range(nv)]
        if max(vx) == min(vx) or max(vy) == min(vy):
            return
        if prng.random() < 0.3:
            vx, vy = [0.0, 4.0, 0.0][:3] + vx[3:], [0.0, 0.0, 4.0][:3] + vy[3:]      # edges through many sample centres
        tx, ty = case['tx'], case['ty']
        r0 = PolygonPixelRegion(PixCoord(vx, vy))
        r1 = PolygonPixelRegion(PixCoord([x + tx for x in vx], [y + ty for y in vy]))
        for mode, kw in (('center', {}), ('subpixels', {'subpixels': case['n']})):
            m0, m1 = r0.to_mask(mode=mode, **kw), r1.to_mask(mode=mode, **kw)
            same = np.asarray(m0.data).shape == np.asarray(m1.data).shape and bool(np.array_equal(np.asarray(m0.data), np.asarray(m1.data)))
            obs.check(same, 'translated-lattice-polygon-mask-differs',
                      f'polygon with vertices on the 1/{q} lattice, {mode} n={case["n"]}: mask changed under integer translation ({tx},{ty})', 'trans-mask-exact')
            b0, b1 = m0.bbox, m1.bbox
            obs.check((b1.ixmin, b1.ixmax, b1.iymin, b1.iymax) == (b0.ixmin + tx, b0.ixmax + tx, b0.iymin + ty, b0.iymax + ty),
                      'translated-bbox-differs', f'lattice polygon: box {b0!r} translated by ({tx},{ty}) became {b1!r}', 'trans-bbox')
        return
    if case['lane'] == 'translate-box':
        D = lambda: prng.randint(-40, 40) + prng.choice([0.0, 0.5, 0.5, 0.25, 0.125, 0.75])
        cls = case['cls']
        if cls == 'LinePixelRegion':
            spec = S.reg(cls, start=S.pix(D(), D()), end=S.pix(D(), D()))
        else:
            spec = S.reg(cls, center=S.pix(D(), D()))
            if cls == 'TextPixelRegion':
                spec['p']['text'] = 't'
        tx, ty = case['tx'], case['ty']
        r0, r1 = S.build(spec), S.build(c04.shift_spec(spec, float(tx), float(ty)))
        b0, b1 = r0.bounding_box, r1.bounding_box
        obs.check((b1.ixmin, b1.ixmax, b1.iymin, b1.iymax) == (b0.ixmin + tx, b0.ixmax + tx, b0.iymin + ty, b0.iymax + ty),
                  'translated-bbox-differs', f'{cls} {spec["p"]}: box {b0!r} translated by ({tx},{ty}) became {b1!r}', 'trans-bbox')
        return
    # translation
    spec = dyadic_region_spec(prng, case['cls'])
    tx, ty = case['tx'], case['ty']
    spec_t = shift_tree(spec, float(tx), float(ty))
    r0, r1 = S.build(spec), S.build(spec_t)
    b0, b1 = r0.bounding_box, r1.bounding_box
    if edge_ambiguous(r0) or edge_ambiguous(r1):
        # an extreme computed with cos/sin (regular polygon, rotated shapes) sits within rounding of a pixel edge:
        # translation is not exact for it, so the box may legitimately move by one
        obs.skip(1, 'trans-bbox')
        return
    obs.check((b1.ixmin, b1.ixmax, b1.iymin, b1.iymax) == (b0.ixmin + tx, b0.ixmax + tx, b0.iymin + ty, b0.iymax + ty),
              'translated-bbox-differs', f'{case["cls"]}: box {b0!r} translated by ({tx},{ty}) became {b1!r}', 'trans-bbox')
    mode, n = case['mode'], case['n']
    kw = {'mode': mode}
    if mode == 'subpixels':
        kw['subpixels'] = n
    m0, m1 = r0.to_mask(**kw), r1.to_mask(**kw)
    d0, d1 = np.asarray(m0.data), np.asarray(m1.data)
    if d0.shape != d1.shape:
        obs.violation('translated-mask-shape-differs', f'{case["cls"]} {mode}: mask shape {d0.shape} -> {d1.shape} after translation by ({tx},{ty})')
        return
    diff = d0 != d1
    if not diff.any():
        obs.ok(1, 'trans-mask')
        return
    if mode == 'exact':
        obs.violation('translated-exact-mask-differs', f'{case["cls"]} exact: mask changed under integer translation ({tx},{ty}); max diff {np.abs(d0 - d1).max():.3g}')
        return
    nn = 1 if mode == 'center' else n
    n_in, n_amb = monitors.sampled_oracle(r0, b0, nn)
    _, n_amb1 = monitors.sampled_oracle(r1, b1, nn)
    allowed = (n_amb + n_amb1) / (nn * nn)
    bad = np.abs(d0 - d1) > allowed + 1e-12
    obs.skip(int((diff & ~bad).sum()), 'trans-mask')
    obs.check(not bad.any(), 'translated-mask-differs',
              f'{case["cls"]} {mode} n={nn}: mask changed under integer translation ({tx},{ty}) at {int(bad.sum())} unambiguous pixels', 'trans-mask')


MUTANTS = [
    ('circle-rotate-centre-not-rotated', 'regions/shapes/circle.py', '        center = self.center.rotate(center, angle)\n        return self.copy(center=center)', '        return self.copy()'),
    ('ellipse-rotate-angle-subtracted', 'regions/shapes/ellipse.py', '        angle = self.angle + angle\n        return self.copy(center=center, angle=angle)', '        angle = self.angle - angle\n        return self.copy(center=center, angle=angle)'),
    ('regular-polygon-rotate-drops-angle', 'regions/shapes/polygon.py', '        angle = self.angle + angle\n        return self.copy(center=center, angle=angle)', '        return self.copy(center=center)'),
    ('compound-rotate-forgets-region2', 'regions/core/compound.py', '        region2 = self.region2.rotate(center, angle)\n', '        region2 = self.region2\n'),
    ('annulus-rotate-angle-not-added', 'regions/shapes/annulus.py', "            changes['angle'] = self.angle + angle", "            changes['angle'] = self.angle"),
    ('pixcoord-rotate-about-origin', 'regions/core/pixcoord.py', '        dx = self.x - center.x\n        dy = self.y - center.y\n        vec = np.array([dx, dy])', '        dx = self.x\n        dy = self.y\n        vec = np.array([dx, dy])'),
    ('line-rotate-end-not-rotated', 'regions/shapes/line.py', '        end = self.end.rotate(center, angle)', '        end = self.end'),
    ('polygon-grid-anchored-at-first-vertex', 'regions/shapes/polygon.py', '        xmin = float(bbox.ixmin) - 0.5\n        xmax = float(bbox.ixmax) - 0.5', '        xmin = float(bbox.ixmin) - 0.5 + 1e-3 * (self.vertices.x[0] % 7)\n        xmax = float(bbox.ixmax) - 0.5 + 1e-3 * (self.vertices.x[0] % 7)'),
    ('rectangle-rotate-mutates-meta', 'regions/shapes/rectangle.py', '        center = self.center.rotate(center, angle)\n        angle = self.angle + angle\n        return self.copy(center=center, angle=angle)', "        center = self.center.rotate(center, angle)\n        angle = self.angle + angle\n        self.meta['comment'] = 'rotated'\n        return self.copy(center=center, angle=angle)"),
]
