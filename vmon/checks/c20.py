"""C20 - pixel coordinates behave as broadcast (x, y) arrays under every operation.

Oracle: NumPy itself on the separate x and y arrays, the harness's own
complex-multiplication rotation, and astropy's WCS for the sky round trip.
"""
import math
import random

import numpy as np

from vmon import gen, spec as S

ID = 'C20'
LEVEL = 'exploration'
TECHNIQUE = 'runtime oracle: NumPy on separate x/y arrays, complex-multiplication rotation, WCS round trip; every PixCoord operation result compared'
RULE = ('cases = (operation lane, shape pair, dtype, index expression / centre / angle / WCS) from seeded generators: '
        'broadcastable and non-broadcastable shape pairs (scalar, 0-length, 1-D, N-D, mixed), int/float dtypes, index '
        'expressions (ints, negatives, slices, boolean/integer arrays, tuples, Ellipsis), rotation about random centres by '
        'any angle/unit, WCS family x origin {0,1} x mode {all,wcs}; non-trivial = >=1 judged comparison')
ASSUMPTIONS = ['numpy broadcasting/indexing semantics and astropy.wcs are the trusted reference']

SHAPES = [(), (), (0,), (1,), (5,), (7,), (3, 1), (1, 4), (3, 4), (2, 3, 4), (2, 1, 3), (0, 3)]
DTYPES = ['float64', 'float64', 'float32', 'int64', 'int32', 'int16']
K_ROT_ND = 'rotate-ndim-ge-2'


def budget(tier):
    return 50 if tier == 'quick' else 420


def shards(tier):
    return 16


def required_counters(tier):
    return {'judged:construct': 100, 'judged:getitem': 100, 'judged:addsub': 100, 'judged:separation': 100,
            'judged:rotate': 100, 'judged:copy': 50, 'judged:sky-roundtrip': 50, 'judged:iter': 50, 'sky-sip-wcs': 20, 'sky-sip-modes-differ': 10, 'sky-lat-first-wcs': 20}


LANES = ['construct', 'construct-bad', 'getitem', 'iterlen', 'addsub', 'separation', 'rotate', 'rotate', 'copy', 'eq', 'sky']


def generate(rng, tier, shard, nshards):
    n = 6000 if tier == 'quick' else 120000
    for i in range(n):
        lane = rng.choice(LANES)
        yield {'lane': lane, 'sx': rng.choice(SHAPES), 'sy': rng.choice(SHAPES), 'dt': rng.choice(DTYPES),
               'dt2': rng.choice(DTYPES), 'rs': rng.randrange(2 ** 31)}


def rand_arr(nrng, shape, dt):
    dt = np.dtype(dt)
    if dt.kind == 'i':
        a = nrng.integers(-1000, 1000, shape).astype(dt)
    else:
        a = (nrng.normal(0, 1, shape) * 10.0 ** nrng.integers(-2, 5)).astype(dt)
    if shape == ():
        return a.item() if nrng.random() < 0.7 else a[()]
    return relayout(nrng, a)


def relayout(nrng, a):
    """the same values in another memory layout (strides are not part of a coordinate's value)."""
    kind = ['C', 'C', 'F', 'T', 'neg', 'strided', 'readonly'][int(nrng.integers(7))]
    if kind == 'F' and a.ndim >= 2:
        return np.asfortranarray(a)
    if kind == 'T' and a.ndim >= 2:
        return np.ascontiguousarray(a.T).T              # a transposed view
    if kind == 'neg' and a.ndim >= 1:
        return np.ascontiguousarray(a[::-1])[::-1]      # negative stride along the first axis
    if kind == 'strided' and a.ndim >= 1:
        return np.repeat(a, 2, axis=-1)[..., ::2]       # every other element of a wider buffer
    if kind == 'readonly':
        b = a.copy()
        b.setflags(write=False)
        return b
    return a


def broadcastable(sx, sy):
    try:
        np.broadcast_shapes(tuple(sx), tuple(sy))
        return True
    except ValueError:
        return False


def pair(nrng, case, same_shape=False):
    from regions import PixCoord
    sx, sy = tuple(case['sx']), tuple(case['sy'])
    if same_shape or not broadcastable(sx, sy):
        sy = sx
    x, y = rand_arr(nrng, sx, case['dt']), rand_arr(nrng, sy, case['dt2'])
    return x, y, PixCoord(x, y)


def arr_same(a, b):
    a, b = np.asarray(a), np.asarray(b)
    return a.shape == b.shape and bool(np.array_equal(a, b, equal_nan=True))


def rand_key(nrng, shape):
    """an index expression valid (mostly) for arrays of this shape."""
    nd = len(shape)
    kind = nrng.integers(0, 13)
    n0 = shape[0]
    # the same index expressions as plain Python lists / NumPy scalars (what x[key] accepts, p[key] accepts)
    if kind == 9:
        return (nrng.random(n0) < 0.5).tolist()                      # boolean mask as a list of bools
    if kind == 10:
        return nrng.integers(-n0, n0, int(nrng.integers(0, 6))).tolist() if n0 else []
    if kind == 11:
        return np.int64(nrng.integers(-n0, n0)) if n0 else 0
    if kind == 12:
        return (nrng.random(shape) < 0.5).tolist() if len(shape) >= 2 else [True] * n0
    if kind == 0:
        return int(nrng.integers(-n0, n0)) if n0 else 0
    if kind == 1:
        a, b = sorted(int(v) for v in nrng.integers(-n0 - 1, n0 + 2, 2))
        form = int(nrng.integers(8))
        if form == 0:
            return slice(None, None, int(nrng.choice([-1, -2, -3])))           # reversed views with open bounds
        if form == 1:
            return slice(b, None, -1)
        if form == 2:
            return slice(b, -n0 - 5, int(nrng.choice([-1, -2])))
        if form == 3:
            return slice(b, a, -1)                                              # a genuine backwards range
        if form == 4:
            return slice(None, b, None)
        return slice(a, b, [None, 1, 2, -1][nrng.integers(4)])
    if kind == 2:
        return nrng.random(n0) < 0.5
    if kind == 3:
        return nrng.integers(-n0, n0, int(nrng.integers(0, 6))) if n0 else np.array([], dtype=int)
    if kind == 4:
        return Ellipsis
    if kind == 5 and nd >= 2:
        return tuple(int(nrng.integers(-s, s)) if s else 0 for s in shape[:2])
    if kind == 6 and nd >= 2:
        return (slice(None), int(nrng.integers(-shape[1], shape[1])) if shape[1] else 0)
    if kind == 7:
        return (Ellipsis, 0) if shape[-1] else Ellipsis
    if kind == 8:
        return nrng.random(shape) < 0.5          # full boolean mask
    return slice(None)


def to_complex_rot(x, y, cx, cy, theta):
    z = ((np.asarray(x, dtype=float) - cx) + 1j * (np.asarray(y, dtype=float) - cy)) * complex(math.cos(theta), math.sin(theta))
    return cx + z.real, cy + z.imag


def run_case(case, obs):
    from regions import PixCoord
    import astropy.units as u
    nrng = np.random.default_rng(case['rs'])
    lane = case['lane']
    sx, sy = tuple(case['sx']), tuple(case['sy'])

    if lane == 'construct':
        if not broadcastable(sx, sy):
            sy = sx
        x, y = rand_arr(nrng, sx, case['dt']), rand_arr(nrng, sy, case['dt2'])
        p = PixCoord(x, y)
        bx, by = np.broadcast_arrays(x, y)
        obs.check(arr_same(p.x, bx) and arr_same(p.y, by), 'construct-values',
                  f'PixCoord(x{sx}, y{sy}) does not hold the broadcast values', 'construct')
        scalar = bx.shape == ()
        obs.check(p.isscalar == scalar, 'construct-isscalar', f'isscalar={p.isscalar} for shapes {sx},{sy}', 'construct')
        if scalar:
            obs.check(np.ndim(p.x) == 0 and not isinstance(p.x, np.ndarray) and not isinstance(p.y, np.ndarray),
                      'scalar-not-unwrapped', f'scalar pair stored as {type(p.x).__name__}', 'construct')
        xy = p.xy
        obs.check(isinstance(xy, tuple) and len(xy) == 2 and arr_same(xy[0], bx) and arr_same(xy[1], by), 'xy-wrong',
                  'xy is not (x, y)', 'construct')
        if np.asarray(bx).dtype.kind == np.asarray(x).dtype.kind:
            obs.check(np.asarray(p.x).dtype == np.asarray(x).dtype or scalar, 'construct-dtype',
                      f'dtype changed {np.asarray(x).dtype}->{np.asarray(p.x).dtype}', 'construct')
    elif lane == 'construct-bad':
        if broadcastable(sx, sy):
            sx, sy = (3,), (4,)
        x, y = rand_arr(nrng, sx, case['dt']), rand_arr(nrng, sy, case['dt2'])
        try:
            PixCoord(x, y)
            obs.violation('nonbroadcastable-accepted', f'PixCoord(x{sx}, y{sy}) did not raise')
        except ValueError:
            obs.ok(1, 'construct')
    elif lane == 'getitem':
        if sx == () or not broadcastable(sx, sy) or np.broadcast_shapes(sx, sy) == ():
            sx = sy = (5,)
        x, y, p = pair(nrng, case) if broadcastable(sx, sy) and sx != () else pair(nrng, dict(case, sx=sx, sy=sy))
        bx, by = np.broadcast_arrays(x, y)
        if bx.shape == ():
            return
        for _ in range(6):
            key = rand_key(nrng, bx.shape)
            try:
                ex, ey = bx[key], by[key]
                exc = None
            except Exception as e:
                exc = e
            try:
                got = p[key]
                gexc = None
            except Exception as e:
                gexc = e
            if exc is not None:
                obs.check(gexc is not None and isinstance(gexc, type(exc)), 'getitem-error-mismatch',
                          f'x[{key!r}] raises {type(exc).__name__} but PixCoord gave {gexc!r}', 'getitem')
                continue
            ok = gexc is None and isinstance(got, PixCoord) and arr_same(got.x, ex) and arr_same(got.y, ey)
            if ok and np.ndim(ex) == 0:
                ok = got.isscalar
            obs.check(ok, 'getitem-mismatch', f'p[{key!r}] (shape {bx.shape}) differs from indexing x and y: {gexc!r}', 'getitem')
        # scalar coordinates cannot be indexed
        s = PixCoord(1.0, 2.0)
        try:
            s[0]
            obs.violation('scalar-indexable', 'scalar PixCoord[0] did not raise')
        except (IndexError, TypeError):
            obs.ok(1, 'getitem')
    elif lane == 'iterlen':
        if not broadcastable(sx, sy):
            sy = sx
        x, y = rand_arr(nrng, sx, case['dt']), rand_arr(nrng, sy, case['dt2'])
        p = PixCoord(x, y)
        bx, by = np.broadcast_arrays(x, y)
        if bx.shape == ():
            try:
                len(p)
                obs.violation('scalar-has-len', 'len(scalar PixCoord) did not raise')
            except TypeError:
                obs.ok(1, 'iter')
            # ... and cannot be iterated, like the plain numbers it holds (an empty loop would silently drop the position)
            for how, fn in (('list(p)', lambda: list(p)), ('for', lambda: [q for q in p]), ('zip', lambda: list(zip(p, p))), ('unpack', lambda: [*p])):
                try:
                    got = fn()
                    obs.violation('scalar-iterable', f'{how} over a scalar PixCoord gave {got!r} instead of raising TypeError (iterating its x does)')
                except TypeError:
                    obs.ok(1, 'iter')
            return
        obs.check(len(p) == len(bx), 'len-mismatch', f'len {len(p)} vs {len(bx)}', 'iter')
        items = list(p)
        ok = len(items) == len(bx) and all(isinstance(it, PixCoord) and arr_same(it.x, ex) and arr_same(it.y, ey)
                                           for it, ex, ey in zip(items, bx, by))
        obs.check(ok, 'iter-mismatch', f'iteration over shape {bx.shape} differs from iterating x and y', 'iter')
        # iterations are independent of each other, as for the arrays: nested loops, two iterators alive at once, zip with itself
        n = len(bx)
        npairs = sum(1 for _a in p for _b in p)
        it1, it2 = iter(p), iter(p)
        inter = []
        for _ in range(min(n, 3)):
            inter.append((next(it1), next(it2)))
        zipped = list(zip(p, p))
        ok2 = npairs == n * n and len(zipped) == n and all(arr_same(a.x, b.x) and arr_same(a.y, b.y) for a, b in inter + zipped) \
            and all(arr_same(a.x, ex) for (a, _b), ex in zip(zipped, bx))
        obs.check(ok2, 'iter-mismatch', f'concurrent iterations over one PixCoord of length {n} disturb each other ({npairs} pairs from a nested loop, '
                  f'{len(zipped)} from zip(p, p))', 'iter')
        obs.check(len(list(p)) == n, 'iter-mismatch', 'a second pass over the same PixCoord gives a different number of items', 'iter')
    elif lane == 'addsub':
        good = broadcastable(sx, sy)
        a_x, a_y = rand_arr(nrng, sx, case['dt']), rand_arr(nrng, sx, case['dt'])
        b_x, b_y = rand_arr(nrng, sy, case['dt2']), rand_arr(nrng, sy, case['dt2'])
        a, b = PixCoord(a_x, a_y), PixCoord(b_x, b_y)
        if not good:
            for op in (lambda: a + b, lambda: a - b):
                try:
                    op()
                    obs.violation('nonbroadcastable-addsub-accepted', f'shapes {sx} and {sy} combined without error')
                except ValueError:
                    obs.ok(1, 'addsub')
            return
        s, d = a + b, a - b
        with np.errstate(all='ignore'):
            # values compared in float64 (dtype promotion of python-vs-numpy scalars is numpy's business)
            F = lambda v: np.asarray(v, dtype=float)
            e32 = float(np.finfo(np.float32).eps)

            def close(g, e, mag):
                g, e = np.asarray(g, dtype=float), np.asarray(e, dtype=float)
                return g.shape == e.shape and bool(np.all(np.abs(g - e) <= 4 * e32 * mag))
            mx, my = np.abs(F(a_x)) + np.abs(F(b_x)), np.abs(F(a_y)) + np.abs(F(b_y))
            obs.check(close(s.x, F(a_x) + F(b_x), mx) and close(s.y, F(a_y) + F(b_y), my), 'add-not-componentwise',
                      f'a+b differs from (ax+bx, ay+by) for shapes {sx},{sy}', 'addsub')
            obs.check(close(d.x, F(a_x) - F(b_x), mx) and close(d.y, F(a_y) - F(b_y), my), 'sub-not-componentwise',
                      f'a-b differs from (ax-bx, ay-by) for shapes {sx},{sy}', 'addsub')
            back = (a + b) - b
            ax_b = np.broadcast_arrays(a_x, b_x)[0]
            tol = 4 * np.finfo(np.float32 if 'float32' in (case['dt'], case['dt2']) else np.float64).eps * (
                np.abs(np.asarray(ax_b, dtype=float)) + np.abs(np.asarray(np.broadcast_arrays(a_x, b_x)[1], dtype=float)))
            if np.asarray(s.x).dtype.kind == 'i':
                tol = tol * 0
                if np.asarray(s.x).dtype.itemsize < 4:
                    return          # int16 sums may wrap; numpy semantics, not judged
            obs.check(bool(np.all(np.abs(np.asarray(back.x, dtype=float) - np.asarray(ax_b, dtype=float)) <= tol)),
                      'addsub-not-inverse', '(a+b)-b differs from a beyond rounding', 'addsub')
        for other in (3.0, (1, 2), None):
            try:
                a + other
                obs.violation('add-nonpixcoord-accepted', f'PixCoord + {other!r} did not raise')
            except TypeError:
                obs.ok(1, 'addsub')
    elif lane == 'separation':
        if not broadcastable(sx, sy):
            sy = sx
        a_x, a_y = rand_arr(nrng, sx, 'float64'), rand_arr(nrng, sx, 'float64')
        b_x, b_y = rand_arr(nrng, sy, case['dt2']), rand_arr(nrng, sy, case['dt2'])
        if case['rs'] % 4 == 0:
            # large / tiny magnitudes and narrow integer types on both sides: the distance itself is representable,
            # its square need not be
            dt = np.dtype(case['dt'])
            if dt.kind == 'i':
                lim = {2: 150, 4: 40000, 8: 3 * 10 ** 9}[dt.itemsize]
                a_x, a_y = nrng.integers(-lim, lim, sx).astype(dt), nrng.integers(-lim, lim, sx).astype(dt)
                b_x, b_y = nrng.integers(-lim, lim, sy).astype(dt), nrng.integers(-lim, lim, sy).astype(dt)
                if sx == ():
                    a_x, a_y = a_x[()], a_y[()]
                if sy == ():
                    b_x, b_y = b_x[()], b_y[()]
            else:
                mag = 10.0 ** nrng.choice([-200, -30, 25, 160]) if dt.itemsize == 8 else 10.0 ** nrng.choice([-25, 15])
                a_x, a_y = (nrng.normal(0, 1, sx) * mag).astype(dt), (nrng.normal(0, 1, sx) * mag).astype(dt)
                b_x, b_y = (nrng.normal(0, 1, sy) * mag).astype(dt), (nrng.normal(0, 1, sy) * mag).astype(dt)
            obs.count('separation-extreme')
            a, b = PixCoord(a_x, a_y), PixCoord(b_x, b_y)
            sep_raw = np.asarray(a.separation(b))
            sep = sep_raw.astype(float)
            dxe = np.asarray(b.x, dtype=np.longdouble) - np.asarray(a.x, dtype=np.longdouble)
            dye = np.asarray(b.y, dtype=np.longdouble) - np.asarray(a.y, dtype=np.longdouble)
            m = np.maximum(np.abs(dxe), np.abs(dye))
            with np.errstate(all='ignore'):
                expe = np.where(m > 0, m * np.sqrt((dxe / np.where(m > 0, m, 1)) ** 2 + (dye / np.where(m > 0, m, 1)) ** 2), 0)
            # numpy evaluates hypot of int16 / float32 inputs in float32: allow the rounding of the result's own dtype
            rel = max(1e-9, 16 * float(np.finfo(sep_raw.dtype).eps)) if sep_raw.dtype.kind == 'f' else 1e-9
            ok = np.shape(sep) == np.shape(expe) and bool(np.all(np.abs(sep - expe.astype(float)) <= rel * np.abs(expe.astype(float)) + 1e-300))
            obs.check(ok, 'separation-not-euclidean', f'separation differs from the Euclidean distance for dtype {dt} at extreme magnitudes '
                      f'(e.g. got {np.ravel(sep)[:2]}, expected {np.ravel(expe.astype(float))[:2]})', 'separation')
            return
        a, b = PixCoord(a_x, a_y), PixCoord(b_x, b_y)
        sep = a.separation(b)
        dx = np.asarray(b_x, dtype=float) - np.asarray(a_x, dtype=float)
        dy = np.asarray(b_y, dtype=float) - np.asarray(a_y, dtype=float)
        exp = np.sqrt(dx * dx + dy * dy)
        mag = np.abs(np.asarray(a_x, dtype=float)) + np.abs(np.asarray(b_x, dtype=float)) + np.abs(np.asarray(a_y, dtype=float)) + np.abs(np.asarray(b_y, dtype=float))
        ok = np.shape(sep) == np.shape(exp) and bool(np.all(np.abs(np.asarray(sep) - exp) <= 1e-12 * (1 + np.abs(exp))
                                                            + 8 * np.finfo(np.float32).eps * mag * ('float32' == case['dt2'])))
        obs.check(ok, 'separation-not-euclidean', f'separation differs from sqrt(dx^2+dy^2) for shapes {sx},{sy}', 'separation')
        obs.check(arr_same(np.asarray(b.separation(a)), np.asarray(sep)), 'separation-not-symmetric', 'sep(a,b) != sep(b,a)', 'separation')
        z = a.separation(a)
        obs.check(bool(np.all(np.asarray(z) == 0)), 'separation-self-nonzero', 'sep(a,a) != 0', 'separation')
    elif lane == 'rotate':
        rdt = case['dt'] if (case['rs'] % 3 == 0 and np.dtype(case['dt']).kind == 'i') else 'float64'          # integer coordinates are coordinates too
        x, y = rand_arr(nrng, sx, rdt), rand_arr(nrng, sx, rdt)
        p = PixCoord(x, y)
        prng = random.Random(case['rs'])
        ang1, ang2 = gen.angle_spec(prng), gen.angle_spec(prng)
        A1, A2 = S.build(ang1), S.build(ang2)
        t1, t2 = float(A1.to_value(u.rad)), float(A2.to_value(u.rad))
        scale = float(np.max(np.abs(np.asarray(x, dtype=float)), initial=1.0))
        ckind = nrng.integers(4)
        cx, cy = [(0.0, 0.0), (float(nrng.normal(0, scale)), float(nrng.normal(0, scale))), (1e4 * scale, -1e4 * scale),
                  (int(nrng.integers(-50, 50)), int(nrng.integers(-50, 50)))][ckind]          # the last: genuine Python ints
        c = PixCoord(cx, cy)
        nd = len(sx)
        try:
            r = p.rotate(c, A1)
        except Exception as exc:
            if nd >= 2:
                obs.violation(K_ROT_ND, f'rotate raised {type(exc).__name__}: {exc} for coordinates of shape {sx}')
                return
            raise
        ex, ey = to_complex_rot(x, y, cx, cy, t1)
        reach = np.hypot(np.asarray(x, dtype=float) - cx, np.asarray(y, dtype=float) - cy)
        tol = 1e-12 * (reach + abs(cx) + abs(cy) + 1e-300) + 4 * np.finfo(float).eps * abs(t1) * reach
        ok = np.shape(r.x) == np.shape(ex) and bool(np.all(np.abs(np.asarray(r.x) - ex) <= tol) and np.all(np.abs(np.asarray(r.y) - ey) <= tol))
        key = K_ROT_ND if nd >= 2 else 'rotate-wrong'
        obs.check(ok, key, f'rotate(shape {sx}, centre ({cx},{cy}), {A1}) differs from the complex-rotation oracle', 'rotate')
        if not ok:
            return
        # isometry
        r_reach = np.hypot(np.asarray(r.x) - cx, np.asarray(r.y) - cy)
        obs.check(bool(np.all(np.abs(r_reach - reach) <= tol)), 'rotate-not-isometry', 'distance to the centre changed', 'rotate')
        # additive composition
        r12 = r.rotate(c, A2)
        r_sum = p.rotate(c, A1 + A2)
        tol2 = 2 * tol + 4 * np.finfo(float).eps * (abs(t2) + abs(t1 + t2)) * reach
        obs.check(bool(np.all(np.abs(np.asarray(r12.x) - np.asarray(r_sum.x)) <= tol2)
                       and np.all(np.abs(np.asarray(r12.y) - np.asarray(r_sum.y)) <= tol2)),
                  'rotate-not-additive', f'rotate(a).rotate(b) != rotate(a+b) for a={A1}, b={A2}', 'rotate')
        # centre fixed
        cc = c.rotate(c, A1)
        obs.check(cc.x == cx and cc.y == cy, 'rotate-centre-moves', f'centre moved to ({cc.x},{cc.y})', 'rotate')
        # independent copy, input untouched
        obs.check(arr_same(p.x, x) and arr_same(p.y, y), 'rotate-mutates', 'rotate changed its input', 'rotate')
    elif lane == 'copy':
        if not broadcastable(sx, sy):
            sy = sx
        x, y = rand_arr(nrng, sx, case['dt']), rand_arr(nrng, sy, case['dt2'])
        p = PixCoord(x, y)
        q = p.copy()
        obs.check(type(q) is PixCoord and arr_same(q.x, p.x) and arr_same(q.y, p.y), 'copy-differs', 'copy != original', 'copy')
        if not p.isscalar and np.size(p.x):
            x0, y0 = np.array(p.x), np.array(p.y)
            qx = np.array(q.x) if not q.x.flags.writeable else q.x
            if q.x.flags.writeable:
                q.x[...] = -123
                q.y[...] = -77
                obs.check(arr_same(p.x, x0) and arr_same(p.y, y0), 'copy-shares-memory', 'writing into the copy changed the original', 'copy')
            obs.check(not np.shares_memory(q.x, p.x) and not np.shares_memory(q.y, p.y), 'copy-shares-memory',
                      'copy shares memory with the original', 'copy')
    elif lane == 'eq':
        x, y, p = pair(nrng, case)
        obs.check((p == p) is True or bool(p == p) is True, 'eq-not-reflexive', 'p != p', 'eq')
        obs.check((p == 3) is False and (p == (1, 2)) is False, 'eq-other-type', 'PixCoord == non-PixCoord is not False', 'eq')
        q = p.copy()
        obs.check(bool(p == q), 'eq-copy', 'p != p.copy()', 'eq')
    elif lane == 'sky':
        prng = random.Random(case['rs'])
        ws = gen.wcs_spec(prng, form='cd')
        latfirst = False
        sip = prng.random() < 0.35
        if sip:
            # a distorted (SIP) celestial WCS: 'all' includes the distortion, 'wcs' is the core transformation only
            ws = gen.wcs_spec(prng, proj='TAN', scale=gen.logu(prng, 1e-5, 1e-3), form='cd')
            h = ws['hdr']
            h['CTYPE1'], h['CTYPE2'] = h['CTYPE1'] + '-SIP', h['CTYPE2'] + '-SIP'
            h.update({'A_ORDER': 2, 'B_ORDER': 2, 'A_2_0': prng.uniform(-2e-5, 2e-5), 'A_0_2': prng.uniform(-2e-5, 2e-5), 'A_1_1': prng.uniform(-2e-5, 2e-5),
                      'B_2_0': prng.uniform(-2e-5, 2e-5), 'B_0_2': prng.uniform(-2e-5, 2e-5), 'B_1_1': prng.uniform(-2e-5, 2e-5)})
            obs.count('sky-sip-wcs')
        elif prng.random() < 0.25:
            # a celestial WCS whose first pixel axis is the latitude (axis order is a header choice)
            h = ws['hdr']
            h['CTYPE1'], h['CTYPE2'] = h['CTYPE2'], h['CTYPE1']
            h['CRVAL1'], h['CRVAL2'] = h['CRVAL2'], h['CRVAL1']
            h['CD1_1'], h['CD2_1'] = h['CD2_1'], h['CD1_1']
            h['CD1_2'], h['CD2_2'] = h['CD2_2'], h['CD1_2']
            obs.count('sky-lat-first-wcs')
            latfirst = True
        w = S.build(ws)
        shape = sx if sx != (0, 3) else (4,)
        x = w.wcs.crpix[0] + nrng.uniform(-300, 300, shape)
        y = w.wcs.crpix[1] + nrng.uniform(-300, 300, shape)
        if shape == ():
            x, y = float(x), float(y)
        p = PixCoord(x, y)
        for origin in (0, 1):
            for mode in ('all', 'wcs'):
                sk = p.to_sky(w, origin=origin, mode=mode)
                back = PixCoord.from_sky(sk, w, origin=origin, mode=mode)
                finite = np.isfinite(np.asarray(back.x)) & np.isfinite(np.asarray(sk.data.lon.value))
                if not np.all(finite):
                    obs.skip(int(np.size(finite) - finite.sum()), 'sky-offsky')
                d = np.hypot(np.asarray(back.x) - np.asarray(x), np.asarray(back.y) - np.asarray(y))
                tol_px = 1e-7 if not (sip and mode == 'all') else 1e-5        # 'all' on a distorted WCS inverts iteratively (astropy tolerance 1e-4 px by default is documented; observed << 1e-5)
                ok = np.shape(back.x) == np.shape(x) and bool(np.all(d[finite] <= tol_px)) if np.ndim(d) else (not finite or d <= tol_px)
                obs.check(bool(ok), 'sky-roundtrip', f'from_sky(to_sky(p)) moved by up to {np.max(d) if np.size(d) else 0:.3g} px '
                          f'(origin={origin}, mode={mode}, {ws["proj"]}, scale {ws["scale"]:.3g})', 'sky-roundtrip')
        # default origin is 0: equals wcs.pixel_to_world
        if sip:
            # the two modes really differ on a distorted WCS (otherwise the lane would not exercise `mode`)
            a_, w_ = p.to_sky(w, mode='all'), p.to_sky(w, mode='wcs')
            if np.size(x) and np.max(np.asarray(a_.separation(w_).deg)) > 0:
                obs.count('sky-sip-modes-differ')
        if latfirst:
            return          # astropy's SkyCoord.from_pixel and WCS.pixel_to_world disagree for such a WCS; only the round trip is stated
        sk0 = p.to_sky(w)
        ref = w.pixel_to_world(x, y)
        sep = sk0.separation(ref).deg
        obs.check(bool(np.all(np.asarray(sep)[np.isfinite(np.asarray(sep))] < 1e-10)), 'sky-default-origin',
                  'to_sky default differs from wcs.pixel_to_world (0-based)', 'sky-roundtrip')


MUTANTS = [
    ('item-unwrapping-dropped', 'regions/core/pixcoord.py', 'self.x, self.y = x.item(), y.item()', 'self.x, self.y = x, y'),
    ('getitem-y-different-key', 'regions/core/pixcoord.py', '        y = self.y[key]\n', '        y = self.y[key] if not isinstance(key, slice) else self.y[slice(key.start, key.stop)]\n'),
    ('rotation-sign', 'regions/core/pixcoord.py', 'rotation_matrix = np.array([[cosa, -sina], [sina, cosa]])', 'rotation_matrix = np.array([[cosa, sina], [-sina, cosa]])'),
    ('separation-no-hypot', 'regions/core/pixcoord.py', 'return np.hypot(dx, dy)', 'return np.abs(dx) + np.abs(dy)'),
    ('sub-uses-add-on-y', 'regions/core/pixcoord.py', 'return self.__class__(self.x - other.x, self.y - other.y)', 'return self.__class__(self.x - other.x, self.y + other.y)'),
    ('copy-shallow', 'regions/core/pixcoord.py', 'return self.__class__(copy.deepcopy(self.x), copy.deepcopy(self.y))', 'return self.__class__(self.x, self.y)'),
    ('from_sky-ignores-origin', 'regions/core/pixcoord.py', 'x, y = skycoord.to_pixel(wcs=wcs, origin=origin, mode=mode)', 'x, y = skycoord.to_pixel(wcs=wcs, origin=0, mode=mode)'),
    ('rotate-centre-not-added-back', 'regions/core/pixcoord.py', 'return self.__class__(center.x + vec[0], center.y + vec[1])', 'return self.__class__(center.x + vec[0], center.x + vec[1])'),
    ('iter-reversed', 'regions/core/pixcoord.py', 'for (x, y) in zip(self.x, self.y, strict=True):', 'for (x, y) in zip(self.x[::-1], self.y[::-1], strict=True):'),
]
