"""C07 - a sky region's pixel image has the size and orientation the WCS dictates.

Round trips cannot see an error made in both directions through the shared
helper, so this oracle never calls it: sky points at the region's angular
semi-axes (astropy's SkyCoord.directional_offset_by) are pushed through
wcs.world_to_pixel and must land on the pixel shape's boundary.
"""
import math
import random

import numpy as np

from vmon import gen, spec as S

ID = 'C07'
LEVEL = 'exploration'
TECHNIQUE = 'runtime oracle on SkyRegion.to_pixel: astropy-computed sky offsets at the angular semi-axes pushed through wcs.world_to_pixel must land on the pixel shape boundary; centre and lengths vs proj_plane_pixel_scales'
RULE = ('cases = (circle/ellipse/rectangle/annulus sky region with sizes of 1-50 px, axis ratio >= 1.25, angle >= 5 deg away from multiples of 90, '
        'conformal WCS: rotation +-180, scale 1e-5..1e-2 deg/px, TAN/SIN, standard parity, ICRS/FK5/Galactic, |lat|<85, centre within 300 px of CRPIX); '
        'non-trivial = >=1 judged probe; distinct = distinct case specs')
ASSUMPTIONS = ['astropy spherical offsets and astropy.wcs are the trusted reference',
               'tolerance 1e-5 + 3*rho^2 (rho = angular distance of the farthest probe from the reference point, radians) covers the projection\'s own scale anisotropy',
               'the sky region is given in the celestial frame of the WCS']


def budget(tier):
    return 50 if tier == 'quick' else 450


def shards(tier):
    return 16


def required_counters(tier):
    return {'judged:centre': 200, 'judged:boundary-probe': 1000, 'judged:length-vs-scale': 300, 'judged:class': 200,
            'lane:CircleSkyRegion': 10, 'lane:EllipseSkyRegion': 10, 'lane:RectangleSkyRegion': 10, 'lane:CircleAnnulusSkyRegion': 10,
            'lane:EllipseAnnulusSkyRegion': 10, 'lane:RectangleAnnulusSkyRegion': 10, 'region-in-other-frame': 30,
            'centre-exactly-on-equator': 20, 'annulus-hole-with-equal-axes': 20, 'centre-exactly-at-crval': 20, 'centre-with-distance': 20,
            'judged:length-vs-local-scale': 300, 'wcs-given-as-sliced-cube-plane': 20,
            'centre-within-an-arcsecond-of-its-frames-pole': 10}


CLASSES = ['CircleSkyRegion', 'EllipseSkyRegion', 'RectangleSkyRegion', 'CircleAnnulusSkyRegion', 'EllipseAnnulusSkyRegion',
           'RectangleAnnulusSkyRegion']


def generate(rng, tier, shard, nshards):
    n = 500 if tier == 'quick' else 6000
    for i in range(n):
        equator = rng.random() < 0.12
        if equator:
            # an image that straddles the equator of its frame; the region centre is put EXACTLY on latitude 0 (or longitude 0)
            sc = gen.logu(rng, 1e-5, 1e-2)
            w = gen.wcs_spec(rng, conformal=True, scale=sc, crval=(rng.choice([rng.uniform(0, 360), 0.0, 1e-3]), rng.uniform(-100, 100) * sc))
        else:
            w = gen.wcs_spec(rng, conformal=True)
        if not equator and rng.random() < 0.06:
            # the large, coarse corner of the domain: 40-50 px shapes on 6e-3 .. 1e-2 deg/px images (axes of 15-30 arcmin)
            w = gen.wcs_spec(rng, conformal=True, scale=rng.uniform(6e-3, 1e-2))
            big_corner = True
        else:
            big_corner = False
        near_pole = None
        if not equator and rng.random() < 0.04:
            # a region given in Galactic coordinates within an arcsecond of the north Galactic pole, on an equatorial image of that field
            # (its own frame's north is a few tenths of an arcsecond away: offsets "towards north" walk over the pole)
            w = gen.wcs_spec(rng, conformal=True, frame=rng.choice(['icrs', 'fk5']), crval=(192.85948 + rng.uniform(-1, 1) * 50 * w['scale'],
                                                                                           27.12825 + rng.uniform(-1, 1) * 50 * w['scale']), scale=w['scale'])
            near_pole = {'l': rng.uniform(0, 360), 'delta_arcsec': rng.uniform(0.15, 0.9), 'south': False}
        cls = rng.choice(CLASSES)
        ang = rng.choice([0, 90, 180, 270]) + rng.choice([-1, 1]) * rng.uniform(5, 85) + 360 * rng.randint(-2, 2)
        if rng.random() < 0.15:
            ang = rng.choice([0, 0, 0.0, 90, 180, 270, -90, 360])          # exactly axis-aligned on the sky (0 is the constructor default)
        unit = rng.choice(['deg', 'rad', 'arcmin'])
        # mostly moderate aspect ratios; one case in seven is slit-like (8..40, both axes still within 1-50 px)
        ratio = rng.uniform(1.25, 4.0) if rng.random() < 0.85 else rng.uniform(8.0, 40.0)
        a_px = rng.uniform(1, 50) if ratio < 8 else rng.uniform(ratio, 50)
        yield {'lane': cls, 'cls': cls, 'wcs': w, 'dx': rng.uniform(-300, 300), 'dy': rng.uniform(-300, 300),
               'a_px': (rng.uniform(40, 50) if big_corner else a_px), 'ratio': ratio, 'wide': rng.random() < 0.5,
               'inner': rng.uniform(0.2, 0.8), 'angle_deg': ang, 'angle_unit': unit, 'size_unit': rng.choice(['arcsec', 'arcmin', 'deg']),
               'size_unit2': rng.choice(['arcsec', 'arcmin', 'deg', 'mas']),
               'other_frame': (rng.choice([f for f in ('icrs', 'galactic', 'fk5', 'fk4') if f != w['frame']])
                               if rng.random() < 0.35 and not equator else None),
               'equator': equator, 'near_pole': near_pole,
               'rs': rng.randrange(2 ** 31)}


def run_case(case, obs):
    import astropy.units as u
    from astropy.coordinates import SkyCoord
    from astropy.wcs.utils import proj_plane_pixel_scales
    import regions
    w = S.build(case['wcs'])
    scale = case['wcs']['scale']          # deg / px (square pixels)
    x0, y0 = w.wcs.crpix[0] - 1 + case['dx'], w.wcs.crpix[1] - 1 + case['dy']
    centre = w.pixel_to_world(x0, y0)
    if case.get('other_frame'):
        # the sky region may be given in another celestial frame than the image's: its angle is then measured from that
        # frame's north (the oracle offsets are made in the region's own frame and pushed through world_to_pixel)
        centre = centre.transform_to(case['other_frame'])
        obs.count('region-in-other-frame')
    if case['rs'] % 9 == 0 and not case.get('other_frame') and not case.get('equator'):
        # the reference coordinate of the image itself (CRVAL), given in the image's own frame: an ordinary place to centre a region
        centre = SkyCoord(w.wcs.crval[0] * u.deg, w.wcs.crval[1] * u.deg, frame=centre.frame)
        obs.count('centre-exactly-at-crval')
    if case['rs'] % 7 == 0:
        # a catalogue position that also carries a distance (the direction is what defines the region)
        centre = SkyCoord(centre.spherical.lon, centre.spherical.lat, distance=[8.2 * u.kpc, 140 * u.pc, 0.03 * u.Mpc][case['rs'] % 3], frame=centre.frame)
        obs.count('centre-with-distance')
    if case.get('equator'):
        lon = 0.0 * u.deg if (abs(centre.spherical.lon.wrap_at(180 * u.deg).deg) < 1.0 and case['rs'] % 2) else centre.spherical.lon
        centre = SkyCoord(lon, 0.0 * u.deg, frame=centre.frame)
        obs.count('centre-exactly-on-equator')
    if case.get('near_pole'):
        npole = case['near_pole']
        centre = SkyCoord(npole['l'] * u.deg, (90.0 - npole['delta_arcsec'] / 3600.0) * u.deg, frame='galactic')
        obs.count('centre-within-an-arcsecond-of-its-frames-pole')
    ref = w.pixel_to_world(w.wcs.crpix[0] - 1, w.wcs.crpix[1] - 1)
    major = case['a_px'] * scale * u.deg
    minor = major / case['ratio']
    width, height = (major, minor) if case['wide'] else (minor, major)
    width, height = width.to(u.Unit(case['size_unit'])), height.to(u.Unit(case.get('size_unit2', case['size_unit'])))
    angle = u.Quantity(case['angle_deg'], u.deg).to(u.Unit(case['angle_unit']))
    cls = getattr(regions, case['cls'])
    name = case['cls']
    f = case['inner']
    if name == 'CircleSkyRegion':
        reg = cls(centre, width / 2)
        shells = [('radius', width / 2, width / 2)]
    elif name == 'CircleAnnulusSkyRegion':
        reg = cls(centre, f * width / 2, width / 2)
        shells = [('inner', f * width / 2, f * width / 2), ('outer', width / 2, width / 2)]
    elif name in ('EllipseSkyRegion', 'RectangleSkyRegion'):
        reg = cls(centre, width, height, angle)
        shells = [('', width / 2, height / 2)]
    else:
        iw, ih = f * width, f * height
        hole = case['rs'] % 5
        if hole == 0:
            # a hole with equal axes (round / square) inside an elongated outline - and the other way round
            iw = ih = f * min(width, height)
            obs.count('annulus-hole-with-equal-axes')
        elif hole == 1:
            width = height = max(width, height)
            iw, ih = f * width, 0.5 * f * height
        reg = cls(centre, iw, width, ih, height, angle)
        shells = [('inner', iw / 2, ih / 2), ('outer', width / 2, height / 2)]
    w_arg = w
    if case['rs'] % 11 == 3:
        # the same celestial plane as other libraries hand it out: the first channel of a (lon, lat, channel) cube, sliced - an
        # undistorted celestial WCS object of the shared WCS interface, but not an astropy.wcs.WCS instance
        from astropy.wcs.wcsapi import SlicedLowLevelWCS, HighLevelWCSWrapper
        w_arg = HighLevelWCSWrapper(SlicedLowLevelWCS(w.sub([1, 2, 0]), 0))
        obs.count('wcs-given-as-sliced-cube-plane')
    try:
        pix = reg.to_pixel(w_arg)
    except Exception as exc:
        if w_arg is w:
            raise
        obs.violation('to_pixel-raised-for-sliced-cube-plane', f'{name}.to_pixel raised {type(exc).__name__}: {exc} for the celestial plane of a cube '
                      '(HighLevelWCSWrapper(SlicedLowLevelWCS(cube, 0))); the same plane as a plain WCS converts')
        return
    obs.check(type(pix).__name__ == name.replace('Sky', 'Pixel'), 'to_pixel-wrong-class', f'{name}.to_pixel gave {type(pix).__name__}', 'class')
    # centre
    ex, ey = w.world_to_pixel(centre)
    ref = ref.transform_to(centre.frame) if case.get('other_frame') else ref
    d = math.hypot(float(pix.center.x) - float(ex), float(pix.center.y) - float(ey))
    obs.check(d <= 1e-6, 'pixel-centre-not-wcs-image-of-sky-centre', f'{name}: pixel centre is {d:.3g} px from world_to_pixel(sky centre)', 'centre')
    cx, cy = float(ex), float(ey)
    # the farthest probe from the reference point sets the tolerance
    rho = float(ref.separation(centre).rad) + float(max(width, height).to_value(u.rad))
    tol = 1e-5 + 3.0 * rho * rho
    # a one-arcsecond step taken in longitude / latitude arithmetic loses digits next to a pole of the region's frame (astropy's
    # offset formulae divide by cos(latitude)): rounding of eps / cos(lat) radians against a step of 4.85e-6 rad
    # (the same holds for the oracle's own probes at the semi-axes, which can be much shorter than an arcsecond)
    step = min([4.85e-6] + [float(min(sa_, sb_).to_value(u.rad)) for _l, sa_, sb_ in shells])
    polar = 16 * 2.2e-16 / (max(math.cos(float(centre.spherical.lat.rad)), 1e-12) * step)
    tol += polar
    obs.note_max('max:tolerance', tol)
    circular = name.startswith('Circle')
    th = None if circular else float(pix.angle.to_value(u.rad))
    # "the local pixel scale": pixels per arcsecond AT THE CENTRE, measured with astropy alone in 16 directions (north and south
    # among them).  Away from the reference point it depends a little on the direction; every length must be the angular size
    # times a value inside the measured range - whatever direction a conversion uses, a scale from elsewhere in the image is not local
    ks = []
    for kdir in range(16):
        q = centre.directional_offset_by(22.5 * kdir * u.deg, 1 * u.arcsec)
        qx, qy = w.world_to_pixel(q)
        ks.append(math.hypot(float(qx) - cx, float(qy) - cy))
    kmin, kmax = min(ks), max(ks)
    obs.note_max('max:local-scale-anisotropy', kmax / kmin - 1)

    def local(nm, got, ang_size):
        k = got / float(ang_size.to_value(u.arcsec))
        obs.check(kmin * (1 - 2e-6 - polar) <= k <= kmax * (1 + 2e-6 + polar), 'length-not-angular-size-over-local-scale',
                  f'{name} {nm}: pixel length {got!r} for {ang_size} is {k!r} px/arcsec; the pixel scale at the centre is between {kmin!r} and {kmax!r} px/arcsec '
                  f'({math.degrees(rho):.3g} deg from the reference point)', 'length-vs-local-scale')
    for label, sa, sb in shells:
        if circular:
            r_pix = float(getattr(pix, {'radius': 'radius', 'inner': 'inner_radius', 'outer': 'outer_radius'}[label]))
            for k in range(8):
                pa = (22.5 + 45.0 * k) * u.deg
                p = centre.directional_offset_by(pa, sa)
                px, py = w.world_to_pixel(p)
                r = math.hypot(float(px) - cx, float(py) - cy) / r_pix
                obs.note_max('max:probe-deviation/tol', abs(r - 1) / tol)
                obs.check(abs(r - 1) <= tol, 'circle-radius-not-angular-size-over-scale',
                          f'{name} {label}: sky point at the angular radius (PA {pa}) lands at {r:.6f} pixel radii (tolerance {tol:.3g})', 'boundary-probe')
            local(label, r_pix, sa)
            ps = float(np.mean(proj_plane_pixel_scales(w)))
            exp = float(sa.to_value(u.deg)) / ps
            obs.check(abs(r_pix / exp - 1) <= tol, 'length-not-angular-size-over-scale',
                      f'{name} {label}: pixel radius {r_pix!r} but angular radius / pixel scale = {exp!r}', 'length-vs-scale')
            continue
        if label == 'inner':
            wp, hp = float(pix.inner_width), float(pix.inner_height)
        elif label == 'outer':
            wp, hp = float(pix.outer_width), float(pix.outer_height)
        else:
            wp, hp = float(pix.width), float(pix.height)
        # width axis: position angle (angle - 90 deg); height axis: position angle = angle   (axes are lines: +-180 immaterial)
        for axis, pa, semi, half_pix, other_half in (('width', angle - 90 * u.deg, sa, wp / 2, hp / 2), ('height', angle, sb, hp / 2, wp / 2)):
            for sign in (0, 180):
                p = centre.directional_offset_by(pa + sign * u.deg, semi)
                px, py = w.world_to_pixel(p)
                # into the pixel shape's own frame (rotation by -theta, complex arithmetic)
                z = complex(float(px) - cx, float(py) - cy) * complex(math.cos(th), -math.sin(th))
                along, across = (z.real, z.imag) if axis == 'width' else (z.imag, z.real)
                r_along = abs(along) / half_pix
                r_across = abs(across) / other_half
                obs.note_max('max:probe-deviation/tol', abs(r_along - 1) / tol)
                ok = abs(r_along - 1) <= tol and r_across <= 10 * tol + 1e-3
                obs.check(ok, 'pixel-shape-axis-not-where-the-wcs-puts-it:' + axis,
                          f'{name} {label}: sky point at the angular semi-{axis} (PA {pa + sign * u.deg:.4f}) lands at {r_along:.5f} semi-{axis}s along and '
                          f'{r_across:.5f} of the other semi-axis across the pixel shape\'s {axis} axis (tolerance {tol:.3g}); pixel angle {pix.angle}',
                          'boundary-probe')
        ps = float(np.mean(proj_plane_pixel_scales(w)))
        for nm, got, ang_size in (('width', wp, 2 * sa), ('height', hp, 2 * sb)):
            local(f'{label} {nm}', got, ang_size)
            exp = float(ang_size.to_value(u.deg)) / ps
            obs.check(abs(got / exp - 1) <= tol, 'length-not-angular-size-over-scale', f'{name} {label} {nm}: pixel length {got!r} but angular size / pixel scale = {exp!r}',
                      'length-vs-scale')


MUTANTS = [
    ('arctan2-args-swapped', 'regions/_utils/wcs_helpers.py', 'angle = (np.arctan2(dy, dx) * u.radian).to(u.deg)', 'angle = (np.arctan2(dx, dy) * u.radian).to(u.deg)'),
    ('angle-not-in-degrees', 'regions/_utils/wcs_helpers.py', 'angle = (np.arctan2(dy, dx) * u.radian).to(u.deg)', 'angle = (np.arctan2(dy, dx) * u.deg)'),
    ('north-angle-no-90', 'regions/shapes/ellipse.py', '        angle = self.angle + (north_angle - 90 * u.deg)', '        angle = self.angle + north_angle'),
    ('rect-north-angle-dropped', 'regions/shapes/rectangle.py', '        angle = self.angle + (north_angle - 90 * u.deg)', '        angle = self.angle + 0 * north_angle'),
    ('scale-from-dx-only', 'regions/_utils/wcs_helpers.py', 'scale = offset.to(u.arcsec) / (np.hypot(dx, dy) * u.pixel)', 'scale = offset.to(u.arcsec) / (np.abs(dx) * u.pixel + 1e-30 * u.pixel)'),
    ('ellipse-width-height-exchanged', 'regions/shapes/ellipse.py', '        return EllipsePixelRegion(center, width, height, angle=angle,', '        return EllipsePixelRegion(center, height, width, angle=angle,'),
    ('annulus-angle-sign', 'regions/shapes/annulus.py', '        angle = self.angle + (north_angle - 90 * u.deg)', '        angle = -self.angle + (north_angle - 90 * u.deg)'),
    ('offset-east-instead-of-north', 'regions/_utils/wcs_helpers.py', 'skycoord_offset = skycoord.directional_offset_by(0.0, offset)', 'skycoord_offset = skycoord.directional_offset_by(90.0 * u.deg, offset)'),
    ('circle-radius-diameter', 'regions/shapes/circle.py', '        radius = (self.radius / pixscale).to(u.pix).value\n        return CirclePixelRegion', '        radius = 2 * (self.radius / pixscale).to(u.pix).value\n        return CirclePixelRegion'),
    ('offset-one-arcmin-scale-arcsec', 'regions/_utils/wcs_helpers.py', 'scale = offset.to(u.arcsec) / (np.hypot(dx, dy) * u.pixel)', 'scale = offset.to(u.arcsec) / (np.hypot(dx, dy) * u.pixel) * 1.02'),
]
