"""C06 - pixel<->sky conversion round-trips and membership is conversion-invariant.

Observed: PixelRegion.to_sky(wcs), SkyRegion.to_pixel(wcs), SkyRegion.contains.
Oracle: parameter-wise comparison after the round trip (1e-6 relative), dict
equality of meta/visual, and membership compared through independently
converted coordinates (astropy.wcs), outside the geometric ambiguity band.
"""
import math
import random

import numpy as np

from vmon import gen, geom, spec as S
from vmon.checks import c01, c02

ID = 'C06'
LEVEL = 'exploration'
TECHNIQUE = 'runtime oracle on to_sky/to_pixel/SkyRegion.contains: parameter-wise round-trip comparison, meta equality, membership via independently converted coordinates (astropy.wcs trusted)'
RULE = ('cases = (region spec of any class incl. text/point/line/annuli/compounds, WCS spec from TAN/SIN/CAR x rotation x scale 0.01"..0.1deg/px x '
        'both parities x ICRS/FK5/FK4/Galactic, positions within 300 px of CRPIX, include flag, rich meta/visual); directions pixel->sky->pixel and '
        'sky->pixel->sky; non-trivial = >=1 judged parameter or membership comparison; distinct = distinct case specs')
ASSUMPTIONS = ['astropy.wcs / astropy.coordinates are the trusted reference', 'membership is compared only at points outside a 1e-6*L band of the boundary',
               'a RegularPolygonPixelRegion converts to a PolygonSkyRegion (its documented counterpart)']

COUNTERPART = {'RegularPolygonPixelRegion': 'PolygonSkyRegion'}


def budget(tier):
    return 55 if tier == 'quick' else 500


def shards(tier):
    return 16


def required_counters(tier):
    return {'judged:class': 200, 'judged:param': 500, 'judged:meta': 200, 'judged:membership-sky-vs-pixel': 500,
            'judged:membership-pixel-vs-sky': 500, 'judged:text-rotation': 5, 'lane:pix2sky2pix:CompoundPixelRegion': 3,
            'lane:sky2pix2sky:CompoundSkyRegion': 3, 'history-steps': 50, 'judged:history': 50, 'grid-sky-queries': 100, 'wide-field-cases': 8, 'queries-in-another-frame': 100,
            'queries-in-same-frame-class-other-equinox': 10, 'judged:membership-other-query-frame': 300, 'judged:orientation': 60}


def generate(rng, tier, shard, nshards):
    n = 190 if tier == 'quick' else 3000
    for i in range(n):
        w = gen.wcs_spec(rng)
        crpix = (w['hdr']['CRPIX1'], w['hdr']['CRPIX2'])
        if rng.random() < 0.5:
            # pixel region near the reference pixel
            def leaf(classes=None):
                L = gen.logu(rng, 1, 50)
                c = (crpix[0] + rng.uniform(-300, 300), crpix[1] + rng.uniform(-300, 300))
                sp = gen.pixel_region_spec(rng, classes=classes, size=L, center=(0.0, 0.0), max_aspect=8.0)
                return c02.shift_to(sp, *c) if ('center' in sp['p'] or 'vertices' in sp['p']) else _shift_line(sp, c)
            if rng.random() < 0.12:
                # operands of every kind, also the point-like ones (their membership answer is a plain False)
                kinds = rng.choice([gen.MASKABLE, gen.MASKABLE, gen.MASKABLE + ['PointPixelRegion', 'LinePixelRegion', 'TextPixelRegion'],
                                    ['PointPixelRegion', 'LinePixelRegion', 'TextPixelRegion']])
                reg = S.reg('CompoundPixelRegion', region1=leaf(kinds), region2=leaf(kinds), operator=rng.choice(['and', 'or', 'xor']))
                if rng.random() < 0.5:
                    reg['meta'] = {'include': rng.choice([True, False, 0, 1]), 'label': 'cmp'}
            else:
                reg = leaf()
                m = gen.rich_meta(rng, include=rng.choice(gen.INCLUDE_CHOICES))
                reg['meta'] = m if m else reg.get('meta')
                reg['visual'] = gen.rich_visual(rng)
                if reg['cls'] == 'TextPixelRegion' and rng.random() < 0.7:
                    reg['visual']['rotation'] = rng.choice([rng.uniform(-180, 180), 0, 0.0, 90.0])
            if reg.get('meta') is None:
                reg.pop('meta', None)
            yield {'lane': 'pix2sky2pix:' + reg['cls'], 'region': reg, 'wcs': w, 'rs': rng.randrange(2 ** 31)}
        else:
            scale = w['scale']
            # 65 %: the sky region is given in the WCS's own celestial frame (exact round trip expected);
            # otherwise in another frame: the round trip then returns it in the WCS frame (angles are measured from a
            # different north, scales along a different direction), so only class, centre, meta and membership are judged
            frame = w['frame'] if rng.random() < 0.65 else rng.choice(gen.SKY_FRAMES)

            def sleaf(classes=None):
                return {'pending': True, 'cls': rng.choice(classes or gen.ALL_SKY), 'dx': rng.uniform(-300, 300), 'dy': rng.uniform(-300, 300),
                        'size_deg': gen.logu(rng, 1, 50) * scale, 'seed': rng.randrange(2 ** 31), 'frame': frame}
            if rng.random() < 0.12:
                kinds = rng.choice([gen.SKY_SIMPLE + gen.SKY_ANNULI, gen.SKY_SIMPLE + gen.SKY_ANNULI, gen.ALL_SKY, gen.SKY_EMPTY])
                reg = {'compound': True, 'r1': sleaf(kinds), 'r2': sleaf(kinds),
                       'op': rng.choice(['and', 'or', 'xor']), 'meta': rng.choice([None, {'include': False}, {'include': 1, 'label': 'c'}])}
                lane = 'sky2pix2sky:CompoundSkyRegion'
            else:
                reg = sleaf()
                lane = 'sky2pix2sky:' + reg['cls']
            yield {'lane': lane, 'skyreg': reg, 'wcs': w, 'rs': rng.randrange(2 ** 31)}
            if i % 12 == 5:
                # wide fields: regions tens of degrees across on a coarse zenithal image (edges are long arcs on the sky)
                w2 = gen.wcs_spec(rng, proj=rng.choice(['TAN', 'SIN']), scale=rng.uniform(0.05, 0.15))
                fr2 = w2['frame'] if rng.random() < 0.65 else rng.choice(gen.SKY_FRAMES)
                cls2 = rng.choice(gen.SKY_SIMPLE + ['PolygonSkyRegion', 'PolygonSkyRegion'])
                reg2 = {'pending': True, 'cls': cls2, 'dx': rng.uniform(-60, 60), 'dy': rng.uniform(-60, 60),
                        'size_deg': rng.uniform(80, 220) * w2['scale'], 'seed': rng.randrange(2 ** 31), 'frame': fr2}
                yield {'lane': 'sky2pix2sky:wide:' + cls2, 'skyreg': reg2, 'wcs': w2, 'rs': rng.randrange(2 ** 31)}


def _shift_line(sp, c):
    p = sp['p']
    dx, dy = p['end']['x'] - p['start']['x'], p['end']['y'] - p['start']['y']
    p['start'] = S.pix(c[0], c[1])
    p['end'] = S.pix(c[0] + dx, c[1] + dy)
    return sp


def build_sky_leaf(d, w):
    """sky region whose centre is the sky image of a pixel near CRPIX."""
    prng = random.Random(d['seed'])
    x, y = w.wcs.crpix[0] - 1 + d['dx'], w.wcs.crpix[1] - 1 + d['dy']
    c = w.pixel_to_world(x, y)
    if c.frame.name != d['frame']:
        c = c.transform_to(d['frame'])      # else: keep the WCS's own frame, with its attributes (e.g. FK5 equinox)
    sph = c.spherical
    sp = gen.sky_region_spec(prng, cls=d['cls'], frame=d['frame'], lon=float(sph.lon.deg), lat=float(sph.lat.deg), size_deg=d['size_deg'])
    m = gen.rich_meta(prng, include=prng.choice(gen.INCLUDE_CHOICES))
    if m:
        sp['meta'] = m
    elif sp.get('meta') is None:
        sp.pop('meta', None)
    sp['visual'] = gen.rich_visual(prng)
    if d['cls'] == 'TextSkyRegion' and prng.random() < 0.7:
        sp['visual']['rotation'] = prng.choice([prng.uniform(-180, 180), 0, 0.0, 90.0])
    reg = S.build(sp)
    if d['cls'] == 'LineSkyRegion' and prng.random() < 0.4:
        # the two end points of a line need not be given in the same frame
        other = prng.choice([f for f in ('icrs', 'galactic', 'fk4', 'fk5') if f != reg.end.frame.name])
        reg.end = reg.end.transform_to(other)
    if c.frame.name == d['frame'] and c.frame.name == 'fk5' and abs(c.frame.equinox.jyear - 2000.0) > 1e-9:
        # re-create the coordinates in the WCS's exact frame (S.sky() specs name frames without attributes)
        from astropy.coordinates import SkyCoord
        for pname in reg._params:
            v = getattr(reg, pname)
            if isinstance(v, SkyCoord):
                setattr(reg, pname, SkyCoord(v.data.lon, v.data.lat, frame=c.frame.replicate_without_data()))
    return reg


def build_sky(d, w):
    import regions
    if d.get('compound'):
        from vmon.checks.c08 import OPS
        kw = {}
        if d['meta'] is not None:
            kw['meta'] = regions.RegionMeta(d['meta'])
        return regions.CompoundSkyRegion(build_sky_leaf(d['r1'], w), build_sky_leaf(d['r2'], w), OPS[d['op']], **kw)
    return build_sky_leaf(d, w)


def ang_diff_deg(a, b):
    d = (a - b) % 360.0
    return min(d, 360.0 - d)


def compare_regions(obs, a, b, what, wcs=None, weak=False):
    """parameter-wise comparison of two regions of the same kind to 1e-6 relative.
    weak=True (sky region given in another frame than the WCS's): centre only."""
    import astropy.units as u
    from astropy.coordinates import SkyCoord
    from regions import PixCoord
    if type(a).__name__ == 'RegularPolygonPixelRegion':
        a = a.to_polygon()
    if type(a) is not type(b):
        obs.violation('roundtrip-class-changed', f'{what}: {type(a).__name__} came back as {type(b).__name__}')
        return
    obs.ok(1, 'class')
    cname = type(a).__name__
    if cname.startswith('Compound'):
        obs.check(a.operator is b.operator, 'roundtrip-operator-changed', f'{what}: operator {a.operator} -> {b.operator}', 'param')
        compare_regions(obs, a.region1, b.region1, what + '.region1', wcs, weak)
        compare_regions(obs, a.region2, b.region2, what + '.region2', wcs, weak)
    else:
        # a size scale for position tolerances
        L = None
        for p in a._params:
            v = getattr(a, p)
            if isinstance(v, (int, float, np.floating)) or (isinstance(v, u.Quantity) and p != 'angle' and not isinstance(v, SkyCoord)):
                val = float(v.to_value(u.deg)) if isinstance(v, u.Quantity) else float(v)
                L = max(L or 0.0, val)
        for p in a._params:
            va, vb = getattr(a, p), getattr(b, p)
            if p == 'text':
                obs.check(va == vb, 'roundtrip-text-changed', f'{what}.text {va!r} -> {vb!r}', 'param')
            elif isinstance(va, PixCoord):
                tol = 1e-6 * max(L or 1.0, 1.0)
                if np.shape(va.x) != np.shape(vb.x):
                    obs.violation('roundtrip-position-changed', f'{what}.{p} has shape {np.shape(vb.x)} after the round trip, {np.shape(va.x)} before')
                    continue
                d = np.hypot(np.asarray(va.x, dtype=float) - np.asarray(vb.x, dtype=float), np.asarray(va.y, dtype=float) - np.asarray(vb.y, dtype=float))
                obs.check(np.shape(va.x) == np.shape(vb.x) and bool(np.all(d <= tol)), 'roundtrip-position-changed',
                          f'{what}.{p} moved by {np.max(d):.3g} px (tolerance {tol:.3g})', 'param')
            elif isinstance(va, SkyCoord):
                same_frame = va.frame.name == vb.frame.name
                if np.shape(va.data.lon) != np.shape(vb.data.lon):
                    obs.violation('roundtrip-sky-position-changed', f'{what}.{p} has shape {np.shape(vb.data.lon)} after the round trip, {np.shape(va.data.lon)} before')
                    continue
                sep = va.separation(vb.transform_to(va.frame) if not same_frame else vb).deg
                if not np.all(np.isfinite(np.asarray(sep))):
                    obs.skip(1, 'offsky')          # an end point outside the projection's domain: nothing to compare
                    continue
                tol = 1e-6 * (L if L else 1.0 / 3600) + (1e-6 if (weak or not same_frame) else 0.0)      # FK4<->FK5/ICRS e-term round trip noise in astropy itself (observed up to 1.4e-8 deg)
                obs.check(np.shape(sep) == np.shape(va.data.lon) and bool(np.all(np.asarray(sep) <= max(tol, 1e-11))), 'roundtrip-sky-position-changed',
                          f'{what}.{p} moved by {np.max(sep):.3g} deg (tolerance {tol:.3g})', 'param')
            elif weak:
                obs.skip(1, 'param-other-frame')
            elif p == 'angle':
                d = ang_diff_deg(float(va.to_value(u.deg)), float(vb.to_value(u.deg)))
                obs.check(d <= 1e-6, 'roundtrip-angle-changed', f'{what}.angle {va} -> {vb} (differs by {d:.3g} deg mod 360)', 'param')
            elif isinstance(va, u.Quantity):
                x, y = float(va.to_value(u.deg)), float(vb.to_value(u.deg))
                obs.check(abs(x - y) <= 1e-6 * abs(x), 'roundtrip-size-changed', f'{what}.{p} {va} -> {vb}', 'param')
            else:
                obs.check(abs(float(va) - float(vb)) <= 1e-6 * abs(float(va)), 'roundtrip-size-changed', f'{what}.{p} {va!r} -> {vb!r}', 'param')
    # meta / visual content (text rotation is adjusted by the conversion: compared to 1e-6 deg)
    ma, mb = dict(a.meta), dict(b.meta)
    obs.check(ma == mb and type(a.meta) is type(b.meta), 'roundtrip-meta-changed', f'{what}: meta {ma} -> {mb}', 'meta')
    va_, vb_ = dict(a.visual), dict(b.visual)
    ra, rb = va_.pop('rotation', None), vb_.pop('rotation', None)
    obs.check(va_ == vb_, 'roundtrip-visual-changed', f'{what}: visual {va_} -> {vb_}', 'meta')
    if (ra is not None or rb is not None) and weak:
        obs.check(ra is not None and rb is not None, 'roundtrip-text-rotation-changed', f'{what}: visual rotation {ra!r} -> {rb!r}', 'text-rotation')
    elif ra is not None or rb is not None:
        ok = ra is not None and rb is not None and ang_diff_deg(float(ra), float(rb)) <= 1e-6
        obs.check(ok, 'roundtrip-text-rotation-changed', f'{what}: visual rotation {ra!r} -> {rb!r}', 'text-rotation')


def expected_counterpart(name):
    if name in COUNTERPART:
        return COUNTERPART[name]
    return name.replace('PixelRegion', 'SkyRegion') if 'Pixel' in name else name.replace('SkyRegion', 'PixelRegion')


def check_counterpart(obs, src, dst, what):
    exp = expected_counterpart(type(src).__name__)
    obs.check(type(dst).__name__ == exp, 'conversion-wrong-class', f'{what}: {type(src).__name__} converted to {type(dst).__name__}, expected {exp}', 'class')
    obs.check(dict(src.meta) == dict(dst.meta), 'conversion-loses-meta', f'{what}: meta {dict(src.meta)} became {dict(dst.meta)}', 'meta')
    vs, vd = dict(src.visual), dict(dst.visual)
    vs.pop('rotation', None)
    vd.pop('rotation', None)
    obs.check(vs == vd, 'conversion-loses-visual', f'{what}: visual {vs} became {vd}', 'meta')
    if type(src).__name__.startswith('Compound') and type(dst).__name__.startswith('Compound'):
        check_counterpart(obs, src.region1, dst.region1, what + '.region1')
        check_counterpart(obs, src.region2, dst.region2, what + '.region2')


def orientation_probe(obs, sky, pix, w):
    """independent of both conversions (they could be wrong the same way): for an elongated shape with an angle, the sky point at 0.8
    of the LONG semi-axis from the centre - offset along the region's own axis, in the region's own frame, with astropy - lies inside
    the pixel outline, the one at 1.25 of the SHORT semi-axis along the short axis lies outside it."""
    import astropy.units as u
    import regions
    if not hasattr(sky, 'angle') or not hasattr(sky, 'center'):
        return
    wd = getattr(sky, 'width', getattr(sky, 'outer_width', None))
    ht = getattr(sky, 'height', getattr(sky, 'outer_height', None))
    if wd is None or ht is None:
        return
    a, b = float(wd.to_value(u.deg)), float(ht.to_value(u.deg))
    if max(a, b) / min(a, b) < 1.6 or max(a, b) / min(a, b) > 8.0 or max(a, b) > 0.1:
        # nearly round; or a needle / a region of more than a few arcminutes, for which the direction of north changes measurably
        # from one end to the other (meridians converge: 1.4 deg over a 0.6 deg needle at latitude 80) and the outline is not straight
        return
    long_pa, short_pa = (sky.angle - 90 * u.deg, sky.angle) if a >= b else (sky.angle, sky.angle - 90 * u.deg)
    p_in = sky.center.directional_offset_by(long_pa, 0.8 * max(a, b) / 2 * u.deg)
    p_out = sky.center.directional_offset_by(short_pa, 1.25 * min(a, b) / 2 * u.deg)
    name = type(pix).__name__
    if 'Annulus' in name:
        outer = (regions.EllipsePixelRegion if name.startswith('Ellipse') else regions.RectanglePixelRegion)(pix.center, pix.outer_width, pix.outer_height, pix.angle)
    else:
        outer = pix.copy(meta=regions.RegionMeta())
    xi, yi = w.world_to_pixel(p_in)
    xo, yo = w.world_to_pixel(p_out)
    if not all(np.isfinite(float(v)) for v in (xi, yi, xo, yo)):
        return
    ok = bool(outer.contains(regions.PixCoord(float(xi), float(yi)))) and not bool(outer.contains(regions.PixCoord(float(xo), float(yo))))
    obs.check(ok, 'pixel-shape-not-oriented-like-the-sky-shape', f'{type(sky).__name__} (angle {sky.angle}, {a:.4g} x {b:.4g} deg, frame {sky.center.frame.name}): the sky '
              f'point at 0.8 of the long semi-axis / 1.25 of the short one lies outside / inside the pixel outline (pixel angle {pix.angle})', 'orientation')


def membership_checks(obs, pix, sky, w, case):
    """sky.contains(s, w) vs pixel image; pix.contains(p) vs sky conversion."""
    from regions import PixCoord
    q = {'kind': 'mixed', 'form': '1d', 'shape': None, 'dtype': 'float64', 'n': 80, 'rs': case['rs']}
    pc = c01.make_queries(pix, q)
    px, py = np.asarray(pc.x, dtype=float), np.asarray(pc.y, dtype=float)
    # the region's own defining positions are ordinary query positions (a catalogue usually holds them)
    own = [getattr(pix, a) for a in ('center', 'start', 'end') if hasattr(pix, a)]
    if own:
        px = np.concatenate([px, [float(o.x) for o in own]])
        py = np.concatenate([py, [float(o.y) for o in own]])
        pc = PixCoord(px, py)
    sc = w.pixel_to_world(px, py)
    finite = np.isfinite(np.asarray(sc.data.lon.value)) & np.isfinite(np.asarray(sc.data.lat.value))
    if not finite.all():
        obs.skip(int((~finite).sum()), 'offsky')
        px, py = px[finite], py[finite]
        sc = w.pixel_to_world(px, py)
        pc = PixCoord(px, py)
    if px.size == 0:
        return
    # (1) sky region asked about sky positions == its pixel image asked about the converted positions
    got = np.asarray(sky.contains(sc, w))
    pimg = sky.to_pixel(w)
    conv = PixCoord.from_sky(sc, w)
    exp = np.asarray(pimg.contains(conv))
    exp_b = np.broadcast_to(exp, px.shape)
    got_b = np.broadcast_to(got, px.shape)
    # judged outside the band of the pixel image (conversion noise ~1e-9 px)
    ins, dec = geom.contains_member(pimg, np.asarray(conv.x, dtype=float), np.asarray(conv.y, dtype=float))
    cx, cy, L = c01.region_scale(pimg)
    if type(pimg).__name__ != 'CompoundPixelRegion':
        m, band = geom.shape_margin(pimg, np.asarray(conv.x, dtype=float), np.asarray(conv.y, dtype=float))
        dec = np.abs(m) > band + 1e-6 * L
    bad = dec & (got_b != exp_b)
    obs.skip(int((~dec).sum()), 'membership')
    if bad.any():
        i = int(np.flatnonzero(bad)[0])
        obs.violation('sky-membership-differs-from-pixel-image', f'{type(sky).__name__}.contains gave {bool(got_b[i])} but its pixel image says {bool(exp_b[i])} '
                      f'at pixel ({conv.x[i]!r}, {conv.y[i]!r})')
    else:
        obs.ok(int(dec.sum()), 'membership-sky-vs-pixel')
    # the oracle itself on the pixel image (independent model)
    bad2 = dec & (got_b != np.asarray(ins))
    if bad2.any():
        i = int(np.flatnonzero(bad2)[0])
        obs.violation('sky-membership-differs-from-geometric-model', f'{type(sky).__name__}.contains gave {bool(got_b[i])} but the geometric model of its '
                      f'pixel image says {bool(np.asarray(ins)[i])} at pixel ({conv.x[i]!r}, {conv.y[i]!r})')
    # (1b) one position at a time (a scalar SkyCoord / PixCoord): the same answers as within the array
    for i in [int(v) for v in np.flatnonzero(dec)[:3]] + [int(v) for v in np.flatnonzero(dec & exp_b)[:1]]:
        s_i = sky.contains(sc[i], w)
        p_i = pimg.contains(PixCoord(float(conv.x[i]), float(conv.y[i])))
        obs.count('scalar-sky-queries')
        obs.check(bool(s_i) == bool(exp_b[i]) and bool(p_i) == bool(exp_b[i]) and np.ndim(s_i) == 0, 'scalar-membership-differs-from-array-membership',
                  f'{type(sky).__name__}.contains(scalar position) gave {s_i!r}, its pixel image {p_i!r}, the array query {bool(exp_b[i])} '
                  f'(include={dict.get(sky.meta, "include", "absent")!r})', 'membership-sky-vs-pixel')
    # (1d) the same positions handed over in another celestial frame - another frame class, or the image's own frame class at
    # another equinox (an FK5 J1975 catalogue on an FK5 J2000 image): the same places on the sky, so the same answers
    from astropy.coordinates import FK5, FK4, ICRS, Galactic
    fname = sc.frame.name
    others = [ICRS(), Galactic(), FK5(equinox='J1975'), FK4(equinox='B1900'), FK5(equinox='J2000'), FK4(equinox='B1950')]
    other = others[case['rs'] % len(others)]
    if not other.is_equivalent_frame(sc.frame):
        sc_o = sc.transform_to(other)
        g_o = np.broadcast_to(np.asarray(sky.contains(sc_o, w)), px.shape)
        obs.count('queries-in-another-frame')
        if other.name == fname:
            obs.count('queries-in-same-frame-class-other-equinox')
        # the transformation there and back moves positions by ~1e-9 px at most; FK4 e-terms up to ~1e-7 deg: widen the band
        # (astropy's own there-and-back noise reaches 5e-5 arcsec through FK4: expressed in pixels of this image)
        noise_px = (1e-4 / 3600.0) / case['wcs']['scale']
        wide = dec & (np.abs(geom.shape_margin(pimg, np.asarray(conv.x, dtype=float), np.asarray(conv.y, dtype=float))[0]) > 1e-3 * L + noise_px
                      if type(pimg).__name__ != 'CompoundPixelRegion' else False)
        bad_o = wide & (g_o != exp_b)
        if np.any(bad_o):
            i = int(np.flatnonzero(bad_o)[0])
            obs.violation('sky-membership-depends-on-query-frame', f'{type(sky).__name__}.contains gave {bool(g_o[i])} for a position given in {other!r} but '
                          f'{bool(exp_b[i])} for the same position in the image frame (pixel ({conv.x[i]!r}, {conv.y[i]!r}))')
        else:
            obs.ok(int(np.sum(wide)), 'membership-other-query-frame')
    # (1c) positions on a grid (an N-D SkyCoord): shape and values of the answer are those of the pixel image for the converted grid
    k = px.size // 2
    if k >= 1:
        shp = (2, k) if case['rs'] % 3 else (k, 1, 2)
        sc2 = sc[:2 * k].reshape(shp)
        g2 = sky.contains(sc2, w)
        e2 = pimg.contains(PixCoord.from_sky(sc2, w))
        obs.count('grid-sky-queries')
        if np.shape(got) == () and np.shape(g2) == ():
            g2 = np.broadcast_to(g2, np.shape(e2))      # point-like sky regions answer any query with one plain bool (also the 1-D query above)
        same = np.shape(g2) == np.shape(e2) and bool(np.all((np.asarray(g2) == np.asarray(e2)) | ~np.broadcast_to(dec[:2 * k].reshape(shp), np.shape(e2))
                                                            if np.shape(e2) == shp else np.asarray(g2) == np.asarray(e2)))
        obs.check(same, 'grid-membership-differs-from-pixel-image',
                  f'{type(sky).__name__}.contains(positions of shape {shp}) gave an answer of shape {np.shape(g2)}; its pixel image asked about the converted '
                  f'positions answers with shape {np.shape(e2)}' + ('' if np.shape(g2) != np.shape(e2) else ' and other values'), 'membership-sky-vs-pixel')
    # (2) pixel region asked about p == its sky conversion asked about the sky image of p
    gp = np.broadcast_to(np.asarray(pix.contains(pc)), px.shape)
    gs = np.broadcast_to(np.asarray(pix.to_sky(w).contains(sc, w)), px.shape)
    if type(pix).__name__ != 'CompoundPixelRegion':
        m, band = geom.shape_margin(pix, px, py)
        _c, _c2, L2 = c01.region_scale(pix)
        dec2 = np.abs(m) > band + 1e-6 * L2
    else:
        _i, dec2 = geom.contains_member(pix, px, py)
    bad = dec2 & (gp != gs)
    obs.skip(int((~dec2).sum()), 'membership')
    if bad.any():
        i = int(np.flatnonzero(bad)[0])
        obs.violation('pixel-membership-differs-after-conversion', f'{type(pix).__name__}.contains gave {bool(gp[i])} at ({px[i]!r}, {py[i]!r}) but its sky '
                      f'conversion says {bool(gs[i])} for the same position')
    else:
        obs.ok(int(dec2.sum()), 'membership-pixel-vs-sky')


def results_independent(obs, src, results, what):
    """converted regions share no mutable object with their source or with each other; editing one in place reaches no other."""
    fps = [S.fingerprint(src)] + [S.fingerprint(r) for r in results]
    objs = [src] + list(results)
    ids = [S.mutable_ids(o) for o in objs]
    for i in range(len(objs)):
        for j in range(i + 1, len(objs)):
            sh = set(ids[i]) & set(ids[j])
            obs.check(not sh, 'conversion-shares-mutable-state', f'{what}: {type(objs[i]).__name__} and {type(objs[j]).__name__} share {[ids[i][k] for k in list(sh)[:3]]}',
                      'history')
    # edit the last result in place: list-valued entries, meta, visual
    r = results[-1]
    targets = [r] + ([r.region1, r.region2] if type(r).__name__.startswith('Compound') else [])
    for t in targets:
        for dd in (t.meta, t.visual):
            for k, v in list(dict.items(dd)):
                if isinstance(v, list):
                    v.append('edited-in-place')
        t.meta['label'] = 'edited-in-place'
    for o, f in list(zip(objs, fps))[:-1]:
        obs.check(S.fingerprint(o) == f, 'conversion-shares-mutable-state', f'{what}: editing the converted region in place changed a {type(o).__name__} it was derived from '
                  '(or derived alongside)', 'history')


def run_case(case, obs):
    w = S.build(case['wcs'])
    if case['lane'].startswith('pix2sky2pix'):
        pix = S.build(case['region'])
        fp0 = S.fingerprint(pix)
        sky = pix.to_sky(w)
        check_counterpart(obs, pix, sky, 'to_sky')
        back = sky.to_pixel(w)
        if type(pix).__name__ == 'RegularPolygonPixelRegion':
            pix_cmp = pix.to_polygon()
        else:
            pix_cmp = pix
        compare_regions(obs, pix_cmp, back, 'pixel->sky->pixel', w)
        obs.check(S.fingerprint(pix) == fp0, 'conversion-mutates-input', 'to_sky/to_pixel changed the input region', 'meta')
        membership_checks(obs, pix, sky, w, case)
        results_independent(obs, pix, [sky, back, pix.to_sky(w)], 'pixel->sky->pixel')
    else:
        sky = build_sky(case['skyreg'], w)
        if ':wide:' in case['lane']:
            obs.count('wide-field-cases')
        fp0 = S.fingerprint(sky)
        pix = sky.to_pixel(w)
        check_counterpart(obs, sky, pix, 'to_pixel')
        if case['wcs'].get('parity') == -1:
            # (images of standard handedness only: on a mirrored image "the stated angle, counter-clockwise in the image" of C07 and the
            # shape on the sky cannot both hold; C06 itself asks for round trips and membership there, which are judged below)
            orientation_probe(obs, sky, pix, w)
        if type(sky).__name__ == 'TextSkyRegion' and 'rotation' in sky.visual:
            # independent expectation: the rotation is measured from the longitude axis on the sky and from +x in the image,
            # so it advances by (direction of local north in the image) - 90 deg; north from astropy, not from the library's helper
            import astropy.units as u
            c0 = sky.center
            n1 = c0.directional_offset_by(0 * u.deg, 1 * u.arcsec)
            x0_, y0_ = w.world_to_pixel(c0)
            x1_, y1_ = w.world_to_pixel(n1)
            north = math.degrees(math.atan2(float(y1_ - y0_), float(x1_ - x0_)))
            exp_rot = float(sky.visual['rotation']) + north - 90.0
            got_rot = pix.visual.get('rotation')
            obs.check(got_rot is not None and ang_diff_deg(float(got_rot), exp_rot) <= 1e-4, 'text-rotation-not-converted',
                      f'TextSkyRegion rotation {sky.visual["rotation"]!r} became {got_rot!r} in the image, expected {exp_rot!r}', 'text-rotation')
        back = pix.to_sky(w)
        d = case['skyreg']
        fr = d['r1']['frame'] if d.get('compound') else d['frame']
        weak = fr != case['wcs']['frame']
        obs.count('sky-in-wcs-frame' if not weak else 'sky-in-other-frame')
        compare_regions(obs, sky, back, 'sky->pixel->sky', w, weak)
        obs.check(S.fingerprint(sky) == fp0, 'conversion-mutates-input', 'to_pixel/to_sky changed the input region', 'meta')
        membership_checks(obs, pix, sky, w, case)
        # history on the same objects: convert again (a second conversion must not depend on the first), then edit the sky
        # region in place / by assignment and ask again - the answers must follow the region's current state
        pix2 = sky.to_pixel(w)
        obs.check(S.fingerprint(pix2) == S.fingerprint(pix), 'second-conversion-differs', 'converting the same sky region twice gives different pixel regions', 'history')
        obs.check(S.fingerprint(sky) == fp0, 'conversion-mutates-input', 'a second to_pixel changed the sky region', 'history')
        prng = random.Random(case['rs'])
        for step in range(2):
            leaf = sky.region1 if type(sky).__name__.startswith('Compound') else sky
            how = prng.choice(['meta-item', 'meta-update', 'size', 'visual-item'])
            if how == 'meta-item':
                leaf.meta['include'] = not bool(dict.get(leaf.meta, 'include', True))
            elif how == 'meta-update':
                leaf.meta.update({'include': not bool(dict.get(leaf.meta, 'include', True))})
            elif how == 'visual-item':
                leaf.visual['color'] = 'edited'
            else:
                for pname in ('radius', 'outer_radius', 'width', 'outer_width'):
                    if pname in leaf._params:
                        setattr(leaf, pname, getattr(leaf, pname) * 1.5)
                        break
            obs.count('history-steps')
            membership_checks(obs, sky.to_pixel(w), sky, w, dict(case, rs=prng.randrange(2 ** 31)))


MUTANTS = [
    ('circle-to_sky-drops-meta-copy', 'regions/shapes/circle.py', "        return CircleSkyRegion(center, radius, meta=self.meta.copy(),\n                               visual=self.visual.copy())", "        return CircleSkyRegion(center, radius)"),
    ('ellipse-to_sky-angle-sign', 'regions/shapes/ellipse.py', "        angle = self.angle - (north_angle - 90 * u.deg)\n        return EllipseSkyRegion", "        angle = self.angle + (north_angle - 90 * u.deg)\n        return EllipseSkyRegion"),
    ('text-rotation-not-adjusted', 'regions/shapes/text.py', "            visual['rotation'] += angle.to('deg').value - 90.", "            visual['rotation'] += 0."),
    ('compound-to_sky-operator-changed', 'regions/core/compound.py', "        return CompoundSkyRegion(region1=skyreg1, operator=self.operator,", "        return CompoundSkyRegion(region1=skyreg1, operator=op.or_,"),
    ('rectangle-to_pixel-width-height-swapped', 'regions/shapes/rectangle.py', "        return RectanglePixelRegion(center, width, height, angle=angle,", "        return RectanglePixelRegion(center, height, width, angle=angle,"),
    ('annulus-to_sky-inner-uses-outer', 'regions/shapes/annulus.py', "        inner_radius = self.inner_radius * u.pix * pixscale\n        outer_radius = self.outer_radius * u.pix * pixscale", "        inner_radius = self.inner_radius * u.pix * pixscale * 0.5\n        outer_radius = self.outer_radius * u.pix * pixscale"),
    ('sky-contains-uses-origin-1', 'regions/core/core.py', "        pixcoord = PixCoord.from_sky(skycoord, wcs)\n        return pixel_region.contains(pixcoord)", "        pixcoord = PixCoord.from_sky(skycoord, wcs, origin=1)\n        return pixel_region.contains(pixcoord)"),
    ('line-to_pixel-end-is-start', 'regions/shapes/line.py', "        end_x, end_y = wcs.world_to_pixel(self.end)", "        end_x, end_y = wcs.world_to_pixel(self.start)"),
    ('point-sky-contains-ignores-include', 'regions/shapes/point.py', "        # points never include anything\n        return not self.meta.get('include', True)", "        # points never include anything\n        return False"),
    ('polygon-to_sky-meta-aliased-visual-dropped', 'regions/shapes/polygon.py', "        return PolygonSkyRegion(vertices=vertices_sky, meta=self.meta.copy(),\n                                visual=self.visual.copy())", "        return PolygonSkyRegion(vertices=vertices_sky, meta=self.meta.copy())"),
    ('circle-to_pixel-scale-squared', 'regions/shapes/circle.py', "        radius = (self.radius / pixscale).to(u.pix).value\n        return CirclePixelRegion", "        radius = (self.radius / pixscale).to(u.pix).value * 1.01\n        return CirclePixelRegion"),
]
