"""C08 - compound regions and annuli obey set algebra.

Monitors: the C01 membership monitor and the C02 sampled-mask monitor are
installed, so every contains()/to_mask() of compounds, annuli and their
operands is judged against the independent geometric model.  On top, the
workload checks consistency (operator applied to the operands' own answers),
model placement of operand masks on the union box, commutation with
pixel<->sky conversion and rotation, and annulus = outer minus inner.
"""
import math
import operator
import random

import numpy as np

from vmon import gen, geom, monitors, spec as S
from vmon.checks import c01, c02

ID = 'C08'
LEVEL = 'exploration'
TECHNIQUE = 'runtime monitors (membership + sampled-mask oracles) on compounds/annuli and operands, plus operator-consistency, mask-placement and commutation oracles on generated expression trees'
RULE = ('cases = expression trees of depth <= 3 built with &, |, ^ over maskable pixel regions (overlapping, nested, disjoint with asymmetric gaps, '
        'touching), include flags on leaves and on compounds, query sets as in C01; all three annulus classes x parameters; WCS from the C06 family '
        'for conversion; non-trivial = >=1 judged assertion; distinct = distinct case specs')
ASSUMPTIONS = ['a compound carries region1.meta unless given its own; the include rule is applied to whatever meta it carries']


def budget(tier):
    return 50 if tier == 'quick' else 450


def shards(tier):
    return 16


def required_counters(tier):
    return {'judged:operator-consistency': 200, 'judged:construction': 200, 'judged:mask-placement': 100, 'judged:commute-rotate': 50,
            'judged:commute-to_sky': 50, 'judged:commute-to_sky-membership': 500, 'judged:copy-operator': 200, 'judged:in-operator': 500, 'judged:annulus-membership': 100, 'judged:annulus-area': 50,
            'monitor:contains:CompoundPixelRegion': 100, 'monitor:to_mask:CompoundPixelRegion:center': 50, 'judged:sky-compound-contains': 20, 'history-steps': 30,
            'unprojectable-sky-positions': 50, 'sky-annulus-cases': 20, 'sky-compounds-of-mixed-frames': 20, 'rotations-about-an-operand-centre': 20}


def setup(obs):
    monitors.install_contains_monitor(obs)
    monitors.install_to_mask_monitor(obs, [monitors.judge_mask_sampled])


def leaf_spec(rng, base, spread):
    sp = gen.pixel_region_spec(rng, classes=gen.MASKABLE, size=gen.logu(rng, 1, 40), max_aspect=6.0,
                               include=rng.choice(['absent', 'absent', 'absent', False, 0, True, 1]))
    return c02.shift_to(sp, base[0] + rng.uniform(-spread, spread), base[1] + rng.uniform(-spread, spread))


def tree_spec(rng, depth, base, spread):
    if depth <= 0 or rng.random() < 0.2:
        return leaf_spec(rng, base, spread)
    r1, r2 = tree_spec(rng, depth - 1, base, spread), tree_spec(rng, depth - 1, base, spread)
    if rng.random() < 0.15:
        r2 = gen.graze(rng, r1, r2)          # boxes that share one pixel column / row
    d = S.reg('CompoundPixelRegion', region1=r1, region2=r2, operator=rng.choice(['and', 'or', 'xor']))
    inc = rng.choice(['inherit', 'inherit', 'inherit', True, False, 0, 1, 'empty'])
    if inc == 'empty':
        d['meta'] = {}             # an explicit, empty meta of its own: the compound is included whatever region1 says
    elif inc != 'inherit':
        d['meta'] = {'include': inc}
    return d


def generate(rng, tier, shard, nshards):
    n = 200 if tier == 'quick' else 2500
    for i in range(n):
        r = rng.random()
        if r < 0.06:
            # integer centre and sizes, queries on the integer lattice: positions exactly ON the inner/outer outline
            # (e.g. Pythagorean offsets) must be answered like outer-and-not-inner answers them
            yield {'lane': 'annulus-lattice', 'cls': rng.choice(gen.ANNULI_PIX), 'cx': rng.randint(-20, 20), 'cy': rng.randint(-20, 20),
                   'ro': rng.choice([5, 10, 13, 25]), 'ri': rng.choice([1, 2, 3, 4]), 'include': rng.choice(['absent', False]),
                   'angle_deg': rng.choice([0, 90, 180, 270])}
            continue
        if 0.06 <= r < 0.09:
            # a compound built on the sky from operands given in DIFFERENT celestial frames
            w = gen.wcs_spec(rng)
            f1 = rng.choice(gen.SKY_FRAMES)
            f2 = rng.choice([f for f in gen.SKY_FRAMES if f != f1])
            mk = lambda f: {'cls': rng.choice(gen.SKY_SIMPLE + gen.SKY_ANNULI), 'dx': rng.uniform(-60, 60), 'dy': rng.uniform(-60, 60),
                            'size_deg': gen.logu(rng, 10, 80) * w['scale'], 'seed': rng.randrange(2 ** 31), 'frame': f}
            yield {'lane': 'sky-compound-mixed-frames', 'wcs': w, 'r1': mk(f1), 'r2': mk(f2), 'op': rng.choice(['and', 'or', 'xor']),
                   'how': rng.choice(['ctor', 'operator']), 'include': rng.choice(['absent', 'absent', False]), 'rs': rng.randrange(2 ** 31)}
            continue
        if r < 0.12:
            # a sky annulus and the sky shapes of its two outlines, on a rotated / scaled / flipped image
            w = gen.wcs_spec(rng)
            yield {'lane': 'sky-annulus', 'wcs': w, 'leaf': {'cls': rng.choice(gen.SKY_ANNULI), 'dx': rng.uniform(-200, 200), 'dy': rng.uniform(-200, 200),
                                                             'size_deg': gen.logu(rng, 2, 60) * w['scale'], 'seed': rng.randrange(2 ** 31),
                                                             'frame': w['frame'] if rng.random() < 0.7 else rng.choice(gen.SKY_FRAMES)},
                   'rs': rng.randrange(2 ** 31)}
            continue
        if r < 0.3:
            cls = rng.choice(gen.ANNULI_PIX)
            reg = gen.pixel_region_spec(rng, cls=cls, size_range=(1e-2, 1e3), max_aspect=20)
            yield {'lane': 'annulus:' + cls, 'region': reg,
                   'q': {'kind': rng.choice(['bbox', 'boundary', 'mixed']), 'form': rng.choice(['1d', '2d', 'scalar']), 'shape': None,
                         'dtype': 'float64', 'n': 120, 'rs': rng.randrange(2 ** 31)}}
            continue
        base = rng.choice([(150.0, 150.0), (rng.uniform(0, 300), rng.uniform(0, 300)), (rng.randint(50, 250) + 0.5, float(rng.randint(50, 250)))])
        spread = rng.choice([3, 10, 25, 50])          # nested/overlapping ... disjoint
        reg = tree_spec(rng, rng.randint(1, 3), base, spread)
        while reg['cls'] != 'CompoundPixelRegion':
            reg = tree_spec(rng, 2, base, spread)
        yield {'lane': 'tree', 'region': reg, 'wcs': gen.wcs_spec(rng, scale=gen.logu(rng, 1e-5, 1e-3)) if rng.random() < 0.4 else None,
               'angle': gen.angle_spec(rng), 'q': {'kind': rng.choice(['bbox', 'boundary', 'mixed']), 'form': rng.choice(['1d', '1d', '2d', 'scalar']),
                                                   'shape': None, 'dtype': rng.choice(['float64', 'float64', 'int64']), 'n': 120,
                                                   'rs': rng.randrange(2 ** 31)}, 'rs': rng.randrange(2 ** 31)}


OPS = {'and': operator.and_, 'or': operator.or_, 'xor': operator.xor}
NPOP = {operator.and_: np.logical_and, operator.or_: np.logical_or, operator.xor: np.logical_xor}


_GIVEN_META = {}
_BUILD_N = [0]


def build_with_operators(spec):
    """Build the tree through the public operators &, |, ^ (then attach the
    compound's own meta if the spec gives one)."""
    import regions
    if spec['cls'] != 'CompoundPixelRegion':
        return S.build(spec)

    def sub(s):
        r = build_with_operators(s)
        return r[0] if isinstance(r, tuple) else r
    a = sub(spec['p']['region1'])
    b = sub(spec['p']['region2'])
    op = spec['p']['operator']
    if op in ('and', 'or', 'xor'):
        _BUILD_N[0] += 1
        form = _BUILD_N[0] % 5
        if form == 1:
            # accumulated with the augmented operators (r &= b, r |= b, r ^= b): the name is rebound to the compound of the two
            c = a
            if op == 'and':
                c &= b
            elif op == 'or':
                c |= b
            else:
                c ^= b
        elif form == 2:
            # ... or with the named methods the operators stand for
            c = {'and': a.intersection, 'or': a.union, 'xor': a.symmetric_difference}[op](b)
        else:
            c = {'and': lambda: a & b, 'or': lambda: a | b, 'xor': lambda: a ^ b}[op]()
    else:
        c = regions.CompoundPixelRegion(a, b, S._OPS[op])          # the operator given as another callable
    if 'meta' in spec:
        c = regions.CompoundPixelRegion(a, b, S._OPS[op], meta=regions.RegionMeta(spec['meta']))
        _GIVEN_META[id(c)] = (c, dict(spec['meta']))
    return c, a, b, op


def walk(node):
    yield node
    if type(node).__name__.startswith('Compound'):
        yield from walk(node.region1)
        yield from walk(node.region2)


def place(mask, ubox):
    """operand mask placed on the union box (model placement)."""
    ny, nx = ubox.shape
    out = np.zeros((ny, nx), dtype=int)
    b = mask.bbox
    d = np.asarray(mask.data)
    for j in range(d.shape[0]):
        for i in range(d.shape[1]):
            out[b.iymin + j - ubox.iymin, b.ixmin + i - ubox.ixmin] = int(d[j, i])
    return out


def _quiet_mask(region):
    """operand mask obtained without re-judging (the root call already judged every nested mask)."""
    orig = monitors._installed.get((type(region), 'to_mask'))
    if orig is None:
        for klass in type(region).__mro__:
            orig = monitors._installed.get((klass, 'to_mask'))
            if orig is not None:
                break
    if orig is None:
        return region.to_mask(mode='center')
    saved = dict(monitors._installed)
    try:
        monitors.uninstall_all()
        return region.to_mask(mode='center')
    finally:
        for (cls, name), o in saved.items():
            cur = cls.__dict__[name]
            monitors._installed[(cls, name)] = o
        _reinstall(saved)


_WRAPPED = {}


def _reinstall(saved):
    for (cls, name), o in saved.items():
        w = _WRAPPED.get((cls, name))
        if w is not None:
            setattr(cls, name, w)


def run_case(case, obs):
    import regions
    from regions import PixCoord
    if not _WRAPPED:
        for (cls, name) in monitors._installed:
            _WRAPPED[(cls, name)] = cls.__dict__[name]
    if case['lane'] == 'annulus-lattice':
        return run_annulus_lattice(case, obs)
    if case['lane'].startswith('annulus'):
        return run_annulus(case, obs)
    if case['lane'] == 'sky-annulus':
        return run_sky_annulus(case, obs)
    if case['lane'] == 'sky-compound-mixed-frames':
        return run_sky_mixed(case, obs)
    spec = case['region']
    built = build_with_operators(spec)
    comp, a, b, opname = built
    # construction through the operators
    obs.check(type(comp).__name__ == 'CompoundPixelRegion' and comp.region1 is a and comp.region2 is b and comp.operator is OPS[opname],
              'operator-construction-wrong', f'{opname}: compound does not hold the two operands and the operator', 'construction')
    if 'meta' not in spec:
        obs.check(comp.meta is a.meta or dict(comp.meta) == dict(a.meta), 'compound-meta-default', 'compound built by an operator does not carry region1.meta', 'construction')
    for node in walk(comp):
        if id(node) in _GIVEN_META and _GIVEN_META[id(node)][0] is node:
            given = _GIVEN_META[id(node)][1]
            obs.check(dict(node.meta) == given, 'compound-meta-not-the-one-given',
                      f'compound constructed with meta={given} carries {dict(node.meta)} (region1.meta = {dict(node.region1.meta)})', 'construction')
    _GIVEN_META.clear()
    fp0 = S.fingerprint(comp)
    pc = c01.make_queries(comp, case['q'])
    # (i) consistency at every compound node (exact: library answers only)
    for node in walk(comp):
        if type(node).__name__ != 'CompoundPixelRegion':
            continue
        r = np.asarray(node.contains(pc))
        exp = S.op_logic(node.operator)(np.asarray(node.region1.contains(pc)), np.asarray(node.region2.contains(pc)))
        if not dict.get(node.meta, 'include', True):
            exp = np.logical_not(exp)
        obs.check(r.shape == exp.shape and bool(np.array_equal(r, exp)), 'compound-membership-not-operator-of-operands',
                  f'{node.operator.__name__}: contains differs from the operator applied to the operands\' answers '
                  f'(include={dict.get(node.meta, "include", "absent")!r})', 'operator-consistency')
    # (iii) centre mask = operator on operand masks placed on the union box
    bb = comp.bounding_box
    if bb.shape[0] * bb.shape[1] <= 250000:
        monitors_on = True
        for node in (comp,):
            nb = node.bounding_box
            nm = node.to_mask(mode='center')          # judged by the sampled-mask monitor at every nested node
            m1, m2 = _quiet_mask(node.region1), _quiet_mask(node.region2)
            exp = node.operator(place(m1, nb), place(m2, nb))
            obs.check(np.asarray(nm.data).shape == exp.shape and bool(np.array_equal(np.asarray(nm.data), exp)),
                      'compound-mask-not-operator-of-placed-masks',
                      f'{node.operator.__name__}: centre mask differs from the operator applied to the operand masks placed on the union box '
                      f'(boxes {m1.bbox!r}, {m2.bbox!r} -> {nb!r})', 'mask-placement')
            ub = m1.bbox | m2.bbox
            obs.check((nb.ixmin, nb.ixmax, nb.iymin, nb.iymax) == (ub.ixmin, ub.ixmax, ub.iymin, ub.iymax) == (nm.bbox.ixmin, nm.bbox.ixmax, nm.bbox.iymin, nm.bbox.iymax),
                      'compound-box-not-union', f'compound box {nb!r} is not the union {ub!r}', 'mask-placement')
    # (iv) rotation commutes
    import astropy.units as u
    A = S.build(case['angle'])
    prng = random.Random(case['rs'])
    pivot = PixCoord(prng.uniform(0, 300), prng.uniform(0, 300))
    if prng.random() < 0.35:
        # rotation about the centre of one of the operands themselves (the most natural pivot for a user)
        leaves = [n for n in walk(comp) if hasattr(n, 'center') and n.center.isscalar]
        if leaves:
            lf = prng.choice(leaves)
            pivot = PixCoord(lf.center.x, lf.center.y) if prng.random() < 0.5 else lf.center
            obs.count('rotations-about-an-operand-centre')
    rc = comp.rotate(pivot, A)
    ok = type(rc) is type(comp) and rc.operator is comp.operator and rc.region1 == comp.region1.rotate(pivot, A) \
        and rc.region2 == comp.region2.rotate(pivot, A) and dict(rc.meta) == dict(comp.meta) and dict(rc.visual) == dict(comp.visual)
    obs.check(ok, 'compound-rotate-not-componentwise', f'{opname}: rotate() does not equal the compound of the rotated operands', 'commute-rotate')
    # ... and the rotated compound contains a rotated position exactly when the original contained the unrotated one
    # (the harness rotates the positions itself; positions near an outline of an operand are not judged)
    qx, qy = np.asarray(pc.x, dtype=float).ravel(), np.asarray(pc.y, dtype=float).ravel()
    if qx.size:
        th = float(A.to_value(u.rad))
        z = ((qx - float(pivot.x)) + 1j * (qy - float(pivot.y))) * complex(math.cos(th), math.sin(th))
        rx, ry = float(pivot.x) + z.real, float(pivot.y) + z.imag
        ins, dec = geom.contains_member(comp, qx, qy)
        _cx, _cy, Lc = c01.region_scale(comp)
        reach = np.hypot(qx - float(pivot.x), qy - float(pivot.y)) + abs(float(pivot.x)) + abs(float(pivot.y))
        # conservative: also require the library's own answer on the unrotated positions to agree with the model there
        near = ~dec
        for leaf in (n for n in walk(comp) if not type(n).__name__.startswith('Compound') and type(n).__name__ not in ('PointPixelRegion', 'LinePixelRegion', 'TextPixelRegion')):
            m, band = geom.shape_margin(leaf, qx, qy)
            near |= np.abs(m) <= np.asarray(band) + 1e-9 * reach * (1 + abs(th)) + 1e-7 * Lc
        got = np.asarray(rc.contains(PixCoord(rx, ry))).ravel()
        bad = ~near & (got != ins)
        obs.skip(int(near.sum()), 'commute-rotate')
        if bad.any():
            i = int(np.flatnonzero(bad)[0])
            obs.violation('compound-rotate-membership-differs', f'{opname}: after rotate(pivot=({float(pivot.x)!r}, {float(pivot.y)!r}), {A!r}) the position '
                          f'({rx[i]!r}, {ry[i]!r}) is {"inside" if got[i] else "outside"} although its pre-image ({qx[i]!r}, {qy[i]!r}) is '
                          f'{"inside" if ins[i] else "outside"} the original; {int(bad.sum())} of {int((~near).sum())} positions differ')
        else:
            obs.ok(int((~near).sum()), 'commute-rotate')
    # (iv) conversion commutes
    if case['wcs'] is not None:
        w = S.build(case['wcs'])
        sk = comp.to_sky(w)
        ok = type(sk).__name__ == 'CompoundSkyRegion' and sk.operator is comp.operator and sk.region1 == comp.region1.to_sky(w) \
            and sk.region2 == comp.region2.to_sky(w)
        obs.check(ok, 'compound-to_sky-not-componentwise', f'{opname}: to_sky() does not equal the compound of the converted operands', 'commute-to_sky')
        obs.check(dict(sk.meta) == dict(comp.meta) and dict(sk.visual) == dict(comp.visual), 'compound-to_sky-loses-meta',
                  f'to_sky: meta {dict(comp.meta)} became {dict(sk.meta)}', 'commute-to_sky')
        back = sk.to_pixel(w)
        ok = type(back).__name__ == 'CompoundPixelRegion' and back.operator is comp.operator and back.region1 == sk.region1.to_pixel(w) \
            and back.region2 == sk.region2.to_pixel(w) and dict(back.meta) == dict(comp.meta)
        obs.check(ok, 'compound-to_pixel-not-componentwise', f'{opname}: to_pixel() does not equal the compound of the converted operands', 'commute-to_sky')
        # sky compound membership = operator on the operands' sky membership (+ include)
        px, py = np.asarray(pc.x, dtype=float), np.asarray(pc.y, dtype=float)
        if px.size:
            sc = w.pixel_to_world(px, py)
            if case['rs'] % 2:
                # plus positions the WCS cannot project (far side of the projection: NaN pixel coordinates) - the operands
                # still give an answer there (an excluded operand says True), and the compound is the operator of those
                from astropy.coordinates import concatenate
                ref = w.pixel_to_world(w.wcs.crpix[0] - 1, w.wcs.crpix[1] - 1)
                far = ref.directional_offset_by(np.array([0.0, 100.0, 215.0]) * u.deg, np.array([179.0, 150.0, 120.0]) * u.deg)
                sc = concatenate([sc.reshape(-1), far])
                fx, fy = w.world_to_pixel(far)
                obs.count('unprojectable-sky-positions', int(np.sum(~np.isfinite(fx) | ~np.isfinite(fy))))
            r = np.asarray(sk.contains(sc, w))
            exp = S.op_logic(sk.operator)(np.asarray(sk.region1.contains(sc, w)), np.asarray(sk.region2.contains(sc, w)))
            if not dict.get(sk.meta, 'include', True):
                exp = np.logical_not(exp)
            obs.check(bool(np.array_equal(r, np.broadcast_to(exp, r.shape))), 'sky-compound-membership-not-operator-of-operands',
                      f'{opname}: CompoundSkyRegion.contains differs from the operator applied to the operands\' answers', 'sky-compound-contains')
            # ... and conversion commutes with the set operation as a whole: the sky compound says about the sky image of a position,
            # and the compound converted back says about the position, what the pixel compound says (outside the band)
            n0 = px.size
            ins, dec = geom.contains_member(comp, px, py)
            cx_, cy_, L_ = c01.region_scale(comp)
            dec = np.asarray(dec).ravel() & (np.hypot(px - cx_, py - cy_).ravel() < 50 * L_ + 1e4)
            here = np.broadcast_to(np.asarray(comp.contains(pc)), px.shape).ravel()
            onsky = (r.ravel() if r.ndim else np.broadcast_to(r, (sc.size,)))[:n0]
            backp = np.broadcast_to(np.asarray(back.contains(pc)), px.shape).ravel()
            bad_s, bad_b = dec & (onsky != here), dec & (backp != here)
            if bad_s.any() or bad_b.any():
                i = int(np.flatnonzero(bad_s | bad_b)[0])
                obs.violation('compound-membership-changes-under-conversion',
                              f'{opname}: at ({px.ravel()[i]!r}, {py.ravel()[i]!r}) the pixel compound says {bool(here[i])}, its sky conversion {bool(onsky[i])}, '
                              f'the conversion back {bool(backp[i])}; {int(bad_s.sum())} / {int(bad_b.sum())} positions differ')
            else:
                obs.ok(int(dec.sum()), 'commute-to_sky-membership')
    # (iv-b) `position in compound` is contains() for one position - near the operands and far outside their boxes alike
    sxs = np.asarray(pc.x, dtype=float).ravel()
    sys_ = np.asarray(pc.y, dtype=float).ravel()
    cxq, cyq, Lq = c01.region_scale(comp)
    probes = [(float(sxs[i]), float(sys_[i])) for i in range(0, min(sxs.size, 6), 2)] + [(cxq + 40 * Lq + 1e4, cyq - 25 * Lq), (cxq - 3e5, cyq + 7e5)]
    for qx_, qy_ in probes:
        one = PixCoord(qx_, qy_)
        a_in = one in comp
        a_c = comp.contains(one)
        obs.check(isinstance(a_in, (bool, np.bool_)) and bool(a_in) == bool(a_c), 'in-operator-differs-from-contains',
                  f'{opname}: `({qx_!r}, {qy_!r}) in compound` gave {a_in!r}, contains {a_c!r} (include={dict.get(comp.meta, "include", "absent")!r})', 'in-operator')
    # (v) the same two operands under another operator: copy(operator=...) is the compound of them under THAT operator
    others = [o for o in ('and', 'or', 'xor') if OPS[o] is not comp.operator]
    other = others[case['rs'] % len(others)]
    c2 = comp.copy(operator=OPS[other])
    obs.check(c2.operator is OPS[other] and c2.region1 == comp.region1 and c2.region2 == comp.region2, 'copy-with-operator-wrong',
              f'{opname}: copy(operator={other}) holds operator {getattr(c2.operator, "__name__", c2.operator)!r}', 'copy-operator')
    r2 = np.asarray(c2.contains(pc))
    e2 = S.op_logic(OPS[other])(np.asarray(c2.region1.contains(pc)), np.asarray(c2.region2.contains(pc)))
    if not dict.get(c2.meta, 'include', True):
        e2 = np.logical_not(e2)
    obs.check(bool(np.array_equal(r2, np.broadcast_to(e2, r2.shape))), 'compound-membership-not-operator-of-operands',
              f'{opname}: after copy(operator={other}) contains is not {other} of the operands\' answers', 'copy-operator')
    obs.check(S.fingerprint(comp) == fp0, 'compound-operation-mutates', 'compound changed during the case', 'construction')


def run_annulus_lattice(case, obs):
    import astropy.units as u
    import regions
    from regions import PixCoord
    cx, cy, ro, ri = case['cx'], case['cy'], case['ro'], case['ri']
    meta = None if case['include'] == 'absent' else regions.RegionMeta({'include': case['include']})
    c = PixCoord(cx, cy)
    ang = case['angle_deg'] * u.deg
    cls = case['cls']
    if cls == 'CircleAnnulusPixelRegion':
        ann = regions.CircleAnnulusPixelRegion(c, ri, ro, meta=meta)
        inner, outer = regions.CirclePixelRegion(PixCoord(cx, cy), ri), regions.CirclePixelRegion(PixCoord(cx, cy), ro)
    else:
        comp = regions.EllipsePixelRegion if cls[0] == 'E' else regions.RectanglePixelRegion
        ann = getattr(regions, cls)(c, 2 * ri, 2 * ro, 2 * ri, 2 * ro + 4, ang, meta=meta)
        inner, outer = comp(PixCoord(cx, cy), 2 * ri, 2 * ri, ang), comp(PixCoord(cx, cy), 2 * ro, 2 * ro + 4, ang)
    xs, ys = np.meshgrid(np.arange(cx - ro - 3, cx + ro + 4), np.arange(cy - ro - 5, cy + ro + 6))
    for pc in (PixCoord(xs, ys), PixCoord(xs.astype(float), ys.astype(float)), PixCoord(cx + ro, cy), PixCoord(cx + 3 * ro // 5, cy + 4 * ro // 5)):
        got = np.asarray(ann.contains(pc))
        exp = np.logical_and(np.asarray(outer.contains(pc)), np.logical_not(np.asarray(inner.contains(pc))))
        if meta is not None:
            exp = np.logical_not(exp)
        obs.check(got.shape == exp.shape and bool(np.array_equal(got, exp)), 'annulus-membership-not-outer-minus-inner',
                  f'{cls} centre ({cx},{cy}) sizes {ri}/{ro}: contains differs from outer and not inner at {int(np.sum(got != exp)) if got.shape == exp.shape else "?"} lattice positions '
                  f'(positions exactly on an outline included)', 'annulus-membership')
    m = ann.to_mask(mode='center')
    mo, mi = outer.to_mask(mode='center'), inner.to_mask(mode='center')
    expm = np.logical_xor(place(mi, m.bbox), place(mo, m.bbox)).astype(int)
    obs.check(bool(np.array_equal(np.asarray(m.data), expm)), 'annulus-mask-not-outer-minus-inner', f'{cls}: centre mask differs from outer mask minus inner mask (lattice case)',
              'annulus-membership')


def run_sky_mixed(case, obs):
    """a sky compound of operands in different frames: membership = operator(operands' own answers), conversion componentwise."""
    import regions
    from vmon.checks.c06 import build_sky_leaf
    w = S.build(case['wcs'])
    a, b = build_sky_leaf(case['r1'], w), build_sky_leaf(case['r2'], w)
    fa, fb = S.fingerprint(a), S.fingerprint(b)
    op = S._OPS[case['op']]
    if case['how'] == 'operator' and case['include'] == 'absent':
        comp = {'and': lambda: a & b, 'or': lambda: a | b, 'xor': lambda: a ^ b}[case['op']]()
    else:
        kw = {} if case['include'] == 'absent' else {'meta': regions.RegionMeta({'include': case['include']})}
        comp = regions.CompoundSkyRegion(a, b, op, **kw)
    obs.count('sky-compounds-of-mixed-frames')
    obs.check(S.fingerprint(a) == fa and S.fingerprint(b) == fb, 'compound-operation-mutates', 'building a sky compound changed its operands', 'construction')
    obs.check(S.fingerprint(comp.region1) == fa and S.fingerprint(comp.region2) == fb, 'operator-construction-wrong',
              f'sky compound of a {type(a).__name__} ({case["r1"]["frame"]}) and a {type(b).__name__} ({case["r2"]["frame"]}) does not hold its operands as given', 'construction')
    pa = a.to_pixel(w)
    q = {'kind': 'mixed', 'form': '1d', 'shape': None, 'dtype': 'float64', 'n': 160, 'rs': case['rs']}
    pc = c01.make_queries(pa, q)
    pb = b.to_pixel(w)
    pc2 = c01.make_queries(pb, dict(q, rs=case['rs'] + 1))
    px = np.concatenate([np.asarray(pc.x, dtype=float), np.asarray(pc2.x, dtype=float)])
    py = np.concatenate([np.asarray(pc.y, dtype=float), np.asarray(pc2.y, dtype=float)])
    sc = w.pixel_to_world(px, py)
    ok = np.isfinite(np.asarray(sc.data.lon.value)) & np.isfinite(np.asarray(sc.data.lat.value))
    if not ok.any():
        return
    sc = w.pixel_to_world(px[ok], py[ok])
    got = np.asarray(comp.contains(sc, w))
    exp = S.op_logic(op)(np.asarray(a.contains(sc, w)), np.asarray(b.contains(sc, w)))
    if not dict.get(comp.meta, 'include', True):
        exp = np.logical_not(exp)
    obs.check(got.shape == exp.shape and bool(np.array_equal(got, exp)), 'sky-compound-membership-not-operator-of-operands',
              f'{case["op"]} of a {type(a).__name__} in {case["r1"]["frame"]} and a {type(b).__name__} in {case["r2"]["frame"]}: contains differs from the '
              f'operator applied to the operands\' answers at {int(np.sum(got != exp)) if got.shape == exp.shape else "?"} of {exp.size} positions', 'sky-compound-contains')
    pcomp = comp.to_pixel(w)
    okp = type(pcomp).__name__ == 'CompoundPixelRegion' and pcomp.region1 == pa and pcomp.region2 == pb and pcomp.operator is op
    obs.check(okp, 'compound-to_pixel-not-componentwise', f'{case["op"]}: to_pixel() of a mixed-frame sky compound does not equal the compound of the converted operands',
              'commute-to_sky')


def run_sky_annulus(case, obs):
    """sky annulus membership = inside the sky shape of its outer outline and not inside that of its inner outline."""
    import regions
    from regions import PixCoord
    from vmon.checks.c06 import build_sky_leaf
    w = S.build(case['wcs'])
    ann = build_sky_leaf(case['leaf'], w)
    name = type(ann).__name__
    if name == 'CircleAnnulusSkyRegion':
        inner, outer = regions.CircleSkyRegion(ann.center, ann.inner_radius), regions.CircleSkyRegion(ann.center, ann.outer_radius)
    else:
        comp = regions.EllipseSkyRegion if name[0] == 'E' else regions.RectangleSkyRegion
        inner = comp(ann.center, ann.inner_width, ann.inner_height, ann.angle)
        outer = comp(ann.center, ann.outer_width, ann.outer_height, ann.angle)
    po, pi_ = outer.to_pixel(w), inner.to_pixel(w)
    q = {'kind': 'mixed', 'form': '1d', 'shape': None, 'dtype': 'float64', 'n': 160, 'rs': case['rs']}
    pc = c01.make_queries(po, q)
    pc2 = c01.make_queries(pi_, dict(q, kind='boundary'))
    px, py = np.concatenate([np.asarray(pc.x, dtype=float), np.asarray(pc2.x, dtype=float)]), np.concatenate([np.asarray(pc.y, dtype=float), np.asarray(pc2.y, dtype=float)])
    sc = w.pixel_to_world(px, py)
    ok = np.isfinite(np.asarray(sc.data.lon.value)) & np.isfinite(np.asarray(sc.data.lat.value))
    px, py = px[ok], py[ok]
    if px.size == 0:
        return
    sc = w.pixel_to_world(px, py)
    got = np.broadcast_to(np.asarray(ann.contains(sc, w)), px.shape)
    exp = np.logical_and(np.asarray(outer.contains(sc, w)), np.logical_not(np.asarray(inner.contains(sc, w))))
    if not geom._include(ann):
        exp = np.logical_not(exp)
    # positions within conversion noise of either outline are not judged
    conv = PixCoord.from_sky(sc, w)
    cx_, cy_ = np.asarray(conv.x, dtype=float), np.asarray(conv.y, dtype=float)
    dec = np.ones(px.shape, dtype=bool)
    for shp in (po, pi_):
        m, band = geom.shape_margin(shp, cx_, cy_)
        L = max(float(getattr(shp, 'width', 0) or 0), float(getattr(shp, 'height', 0) or 0), 2 * float(getattr(shp, 'radius', 0) or 0))
        dec &= np.abs(m) > band + 1e-6 * L
    obs.skip(int((~dec).sum()), 'sky-annulus')
    bad = dec & (got != exp)
    obs.count('sky-annulus-cases')
    if bad.any():
        i = int(np.flatnonzero(bad)[0])
        obs.violation('sky-annulus-membership-not-outer-minus-inner',
                      f'{name} (angle {getattr(ann, "angle", None)!r}, WCS rot {case["wcs"]["rot_deg"]:.3f} deg parity {case["wcs"]["parity"]}): contains gave '
                      f'{bool(got[i])} at pixel ({px[i]!r}, {py[i]!r}) but outer-and-not-inner of the sky shapes with the same parameters says {bool(exp[i])}; '
                      f'{int(bad.sum())} of {int(dec.sum())} positions differ')
    else:
        obs.ok(int(dec.sum()), 'annulus-membership')


def run_annulus(case, obs):
    import regions
    from regions import PixCoord
    ann = S.build(case['region'])
    if case['q']['rs'] % 2:
        # query, edit the same object, then judge: the annulus must follow its current parameters
        prng = random.Random(case['q']['rs'])
        ann.contains(c01.make_queries(ann, case['q']))
        try:
            ann.to_mask(mode='center') if ann.bounding_box.shape[0] * ann.bounding_box.shape[1] < 40000 else None
        except Exception:
            raise
        for _ in range(prng.randint(1, 3)):
            gen.mutate_live(ann, prng)
            obs.count('history-steps')
    name = type(ann).__name__
    # components built independently by the harness (fresh objects, no shared meta)
    c = PixCoord(ann.center.x, ann.center.y)
    if name == 'CircleAnnulusPixelRegion':
        inner, outer = regions.CirclePixelRegion(c, ann.inner_radius), regions.CirclePixelRegion(c, ann.outer_radius)
    else:
        comp_cls = regions.EllipsePixelRegion if name[0] == 'E' else regions.RectanglePixelRegion
        inner = comp_cls(c, ann.inner_width, ann.inner_height, ann.angle)
        outer = comp_cls(c, ann.outer_width, ann.outer_height, ann.angle)
    pc = c01.make_queries(ann, case['q'])
    got = np.asarray(ann.contains(pc))
    exp = np.logical_and(np.asarray(outer.contains(pc)), np.logical_not(np.asarray(inner.contains(pc))))
    if not geom._include(ann):
        exp = np.logical_not(exp)
    obs.check(got.shape == exp.shape and bool(np.array_equal(got, exp)), 'annulus-membership-not-outer-minus-inner',
              f'{name}: contains differs from outer and not inner (include={dict.get(ann.meta, "include", "absent")!r})', 'annulus-membership')
    area = ann.area
    exp_area = outer.area - inner.area
    an = geom.analytic_area(ann)
    prec = max([float(np.finfo(type(getattr(ann, p))).eps) for p in ann._params if isinstance(getattr(ann, p), np.floating)] + [1e-13])
    obs.check(area == exp_area and abs(area - an) <= 16 * prec * max(abs(an), float(outer.area)), 'annulus-area-not-difference',
              f'{name}: area {area!r}, outer-inner {exp_area!r}, analytic {an!r}', 'annulus-area')
    bb = ann.bounding_box
    if bb.shape[0] * bb.shape[1] <= 250000:
        m = ann.to_mask(mode='center')           # judged by the sampled-mask monitor
        mo, mi = outer.to_mask(mode='center'), inner.to_mask(mode='center')
        if (mo.bbox.ixmin, mo.bbox.ixmax, mo.bbox.iymin, mo.bbox.iymax) == (bb.ixmin, bb.ixmax, bb.iymin, bb.iymax):
            expm = np.logical_xor(place(mi, bb), place(mo, bb)).astype(int)
            obs.check(bool(np.array_equal(np.asarray(m.data), expm)), 'annulus-mask-not-outer-minus-inner',
                      f'{name}: centre mask differs from outer mask minus inner mask', 'annulus-membership')


MUTANTS = [
    ('pad-left-right-swapped', 'regions/core/compound.py', "((pbottom, ptop), (pleft, pright))", "((pbottom, ptop), (pright, pleft))"),
    ('compound-include-negation-dropped', 'regions/core/compound.py',
     "        if self.meta.get('include', True):\n            return in_reg\n        else:\n            return np.logical_not(in_reg)\n\n    def to_mask",
     "        return in_reg\n\n    def to_mask"),
    ('rotate-forgets-region2', 'regions/core/compound.py', '        region2 = self.region2.rotate(center, angle)\n', '        region2 = self.region2\n'),
    ('to_sky-drops-meta', 'regions/core/compound.py', "                                 region2=skyreg2, meta=self.meta.copy(),\n                                 visual=self.visual.copy())", "                                 region2=skyreg2)"),
    ('annulus-area-sum', 'regions/shapes/annulus.py', 'return self._outer_region.area - self._inner_region.area', 'return self._outer_region.area + self._inner_region.area'),
    ('union-builds-xor', 'regions/core/core.py', "        return CompoundPixelRegion(region1=self, region2=other,\n                                   operator=operator.or_)", "        return CompoundPixelRegion(region1=self, region2=other,\n                                   operator=operator.xor)"),
    ('intersection-swaps-operands', 'regions/core/core.py', "        return CompoundPixelRegion(region1=self, region2=other,\n                                   operator=operator.and_)", "        return CompoundPixelRegion(region1=other, region2=self,\n                                   operator=operator.and_)"),
    ('sky-compound-include-ignored', 'regions/core/compound.py',
     "        if self.meta.get('include', True):\n            return in_reg\n        else:\n            return np.logical_not(in_reg)\n\n    def to_pixel",
     "        return in_reg\n\n    def to_pixel"),
    ('to_pixel-changes-operator', 'regions/core/compound.py', "        return CompoundPixelRegion(region1=pixreg1, operator=self.operator,", "        return CompoundPixelRegion(region1=pixreg1, operator=op.or_,"),
    ('annulus-inner-uses-outer-angle-zero', 'regions/shapes/annulus.py', "        return self._component_class(self.center, self.inner_width,\n                                     self.inner_height, self.angle,", "        return self._component_class(self.center, self.inner_width,\n                                     self.inner_height, 0 * self.angle,"),
]
