"""C03 - exact masks give the true pixel-region overlap area; subpixel masks converge.

Observed: to_mask('exact') of circles/ellipses and direct calls of
circular_overlap_grid / elliptical_overlap_grid (small windows straddling the
boundary, so that radii of 1e3 px are probed without 4e6-pixel masks), plus
subpixel masks at increasing n.  Oracle: an independent Green's-theorem style
integrator (signed triangle fan of the pixel polygon intersected with the disk,
atan2 sectors, stable quadratic roots; ellipse mapped to the unit disk by the
inverse affine map) and Sutherland-Hodgman clipping for polygons.
A clang ASan+UBSan build of the on-disk kernel C sources replays a kernel
workload in the thorough tier (and a small dose in quick).
"""
import math
import os
import random
import shutil
import subprocess
import sys
import tempfile

import numpy as np

from vmon import gen, geom, spec as S

ID = 'C03'
LEVEL = 'exploration'
TECHNIQUE = 'runtime oracle: independent exact pixel-overlap integrator compared with exact-mode masks and direct kernel calls; convergence bound on subpixel masks; clang ASan+UBSan build of the kernels replays the kernel workload'
RULE = ('cases = (circle/ellipse, radius or semi-axes log-uniform 1e-3..1e3, axis ratio to 1:100, any angle, centre generic or on {0,1/4,1/2} lattices '
        '("nice" lane, explored separately), whole mask (<= 60 px) or 6x6..8x8 kernel window straddling the boundary); convergence cases = '
        '(circle/ellipse/rectangle/simple polygon, n in {1,2,3,5,8,12}); non-trivial = >=1 judged pixel; distinct = distinct case specs')
ASSUMPTIONS = ['oracle accuracy ~1e-11 (validated against the kernels on generic positions)',
               'Cython sources cannot be rebuilt here: behaviour is that of the on-disk generated C / shared objects']

K_F16 = 'ellipse-exact-degenerate-alignment'
K_THIN = 'ellipse-exact-semi-axis-below-0.05px'


def budget(tier):
    return 50 if tier == 'quick' else 450


def shards(tier):
    return 16


def required_counters(tier):
    return {'judged:exact-pixel': 5000, 'judged:exact-range': 5000, 'judged:full-pixel': 500, 'judged:empty-pixel': 500, 'judged:mask-sum': 50,
            'judged:convergence': 200, 'lane:circle-mask': 10, 'lane:ellipse-mask': 10, 'lane:circle-window': 10, 'lane:ellipse-window': 10,
            'lane:nice-circle': 5, 'lane:nice-ellipse': 5, 'big-circle-rows': 2000, 'big-ellipse-pixels': 100000, 'history-steps': 15, 'masks-used-before-being-judged': 15, 'exact-with-subpixels-1': 20, 'float32-scalar-centres': 20, 'masks-of-excluded-regions': 20, 'result-edited-then-requested-again': 20}


# ---------------------------------------------------------------------------
# oracle: area of (polygon intersect disk of radius r centred at the origin)
def _seg_disk(ax, ay, bx, by, r):
    """signed area of the intersection of triangle (0, a, b) with the disk."""
    r2 = r * r
    dx, dy = bx - ax, by - ay
    A = dx * dx + dy * dy
    if A == 0.0:
        return 0.0
    B = 2.0 * (ax * dx + ay * dy)
    C = ax * ax + ay * ay - r2
    disc = B * B - 4.0 * A * C
    ts = [0.0, 1.0]
    if disc > 0.0:
        sq = math.sqrt(disc)
        # numerically stable roots
        q = -0.5 * (B + math.copysign(sq, B)) if B != 0 else -0.5 * sq
        roots = []
        if q != 0:
            roots.append(C / q)
        roots.append(q / A)
        if B == 0:
            roots = [sq / (2 * A), -sq / (2 * A)]
        for t in roots:
            if 0.0 < t < 1.0:
                ts.append(t)
    ts.sort()
    # classify the pieces structurally (the disk is convex): with two crossings the middle piece is the chord; with one
    # crossing the piece adjacent to the inside end point is inside; without crossings the segment is inside iff both
    # end points are.  (Classifying by computed distances is unreliable: at exact tangency the mid point is ON the circle,
    # and for segments much longer than r the computed crossing points are off the circle by far more than 1 ulp.)
    in0 = ax * ax + ay * ay <= r2
    in1 = bx * bx + by * by <= r2
    nroot = len(ts) - 2
    if nroot == 2:
        flags = [False, True, False]
    elif nroot == 1:
        flags = [True, False] if (in0 and not in1) else ([False, True] if (in1 and not in0) else None)
        if flags is None:
            # a crossing was found but the end points are on the same side (one of them on the circle up to rounding)
            tm = 0.5 * (ts[0] + ts[1])
            mx, my = ax + tm * dx, ay + tm * dy
            first = mx * mx + my * my <= r2
            flags = [first, not first] if not (in0 and in1) else [True, True]
    elif in0 == in1:
        flags = [in0]
    else:
        # no crossing strictly inside the segment although the end points fall on different sides: one end point lies ON the
        # circle (up to rounding, either way) and the crossing coincides with it - the other end point decides for the whole segment
        d0, d1 = abs(ax * ax + ay * ay - r2), abs(bx * bx + by * by - r2)
        flags = [in1 if d1 > d0 else in0]
    area = 0.0
    for (t0, t1), inside in zip(zip(ts[:-1], ts[1:]), flags):
        if t1 <= t0:
            continue
        px, py = ax + t0 * dx, ay + t0 * dy
        qx, qy = ax + t1 * dx, ay + t1 * dy
        cross = px * qy - py * qx
        if inside:
            area += 0.5 * cross
        else:
            area += 0.5 * r2 * math.atan2(cross, px * qx + py * qy)
    return area


def poly_disk_area(pts, r):
    """|polygon intersect disk(0, r)| for a simple polygon given as [(x, y), ...]."""
    s = 0.0
    n = len(pts)
    for i in range(n):
        ax, ay = pts[i]
        bx, by = pts[(i + 1) % n]
        s += _seg_disk(ax, ay, bx, by, r)
    return abs(s)


def circle_pixel_area(x0, y0, x1, y1, r):
    return poly_disk_area([(x0, y0), (x1, y0), (x1, y1), (x0, y1)], r)


def ellipse_pixel_area(x0, y0, x1, y1, a, b, theta):
    """pixel [x0,x1]x[y0,y1] (coordinates relative to the ellipse centre) intersected with the ellipse of semi-axes a (along theta), b."""
    c, s = math.cos(theta), math.sin(theta)
    pts = []
    for x, y in ((x0, y0), (x1, y0), (x1, y1), (x0, y1)):
        u = (x * c + y * s) / a
        v = (-x * s + y * c) / b
        pts.append((u, v))
    return a * b * poly_disk_area(pts, 1.0)


def clip_poly_to_rect(poly, x0, y0, x1, y1):
    """Sutherland-Hodgman: subject polygon clipped by the axis-aligned rectangle."""
    def clip(pts, inside, inter):
        out = []
        for i in range(len(pts)):
            p, q = pts[i], pts[(i + 1) % len(pts)]
            ip, iq = inside(p), inside(q)
            if ip and iq:
                out.append(q)
            elif ip and not iq:
                out.append(inter(p, q))
            elif not ip and iq:
                out.append(inter(p, q))
                out.append(q)
        return out

    def ix(xc):
        return lambda p, q: (xc, p[1] + (q[1] - p[1]) * (xc - p[0]) / (q[0] - p[0]))

    def iy(yc):
        return lambda p, q: (p[0] + (q[0] - p[0]) * (yc - p[1]) / (q[1] - p[1]), yc)
    pts = list(poly)
    for inside, inter in ((lambda p: p[0] >= x0, ix(x0)), (lambda p: p[0] <= x1, ix(x1)), (lambda p: p[1] >= y0, iy(y0)), (lambda p: p[1] <= y1, iy(y1))):
        if not pts:
            return []
        pts = clip(pts, inside, inter)
    return pts


def poly_area(pts):
    return 0.5 * abs(math.fsum(pts[i][0] * pts[(i + 1) % len(pts)][1] - pts[(i + 1) % len(pts)][0] * pts[i][1] for i in range(len(pts)))) if len(pts) >= 3 else 0.0


# ---------------------------------------------------------------------------
def generate(rng, tier, shard, nshards):
    n = 400 if tier == 'quick' else 8000
    for i in range(n):
        r = rng.random()
        rs = rng.randrange(2 ** 31)
        if i % 200 == 57:
            # a disk whose mask is more than a thousand rows tall (judged in bulk: interior 1, exterior 0, outline pixels one by one)
            yield {'lane': 'big-circle', 'r': rng.uniform(300, 1000), 'cx': rng.uniform(-50, 50), 'cy': rng.uniform(-50, 50), 'rs': rs}
            continue
        if i % 200 == 157 or (tier == 'quick' and i % 200 in (107, 27, 77)) or (tier != 'quick' and i % 200 == 57 + 50):
            # an ellipse whose mask has well over 2**15 pixels, at a general orientation (judged in bulk + a sample of outline pixels)
            a = rng.uniform(110, 400)
            ratio = rng.uniform(1.2, 3.0)
            if rng.random() < 0.5:
                # long thin ellipses lying obliquely in a mostly empty box (25 .. 400 px long, 6 .. 20 times longer than wide)
                a, ratio = rng.uniform(25, 400), rng.uniform(6.0, 20.0)
            yield {'lane': 'big-ellipse', 'a': a, 'b': a / ratio, 'theta': rng.uniform(-10, 10), 'cx': rng.uniform(-50, 50), 'cy': rng.uniform(-50, 50),
                   'rs': rs}
            continue
        if r < 0.14:
            yield {'lane': 'circle-mask', 'r': gen.logu(rng, 0.05, 30), 'cx': rng.uniform(-50, 50), 'cy': rng.uniform(-50, 50), 'rs': rs}
        elif r < 0.30:
            a = gen.logu(rng, 0.05, 30)
            ratio = gen.logu(rng, 1, 30) if rng.random() < 0.8 else 1.0 + rng.choice([-1, 1]) * 10.0 ** rng.uniform(-7, -3)     # nearly circular too
            if rng.random() < 0.1:
                # round axis ratios (the semi-minor axis stays above 0.05 px)
                ratio = rng.choice([2.0, 10.0, 50.0, 100.0])
                a = max(a, 0.06 * ratio)
            theta, unit = rng.uniform(-10, 10), rng.choice(['rad', 'deg'])
            if rng.random() < 0.3:
                # exactly axis-aligned (the default orientation and its quarter turns), given in degrees so that it is exact
                theta, unit = math.radians(90.0 * rng.randint(-4, 7)), 'deg'
            yield {'lane': 'ellipse-mask', 'a': a, 'b': a / ratio, 'theta': theta,
                   'cx': rng.uniform(-50, 50), 'cy': rng.uniform(-50, 50), 'unit': unit, 'rs': rs}
        elif r < 0.45:
            yield {'lane': 'circle-window', 'r': gen.logu(rng, 1e-3, 1e3), 'phi': rng.uniform(0, 2 * math.pi), 'fx': rng.random(), 'fy': rng.random(),
                   'nx': rng.randint(1, 8), 'ny': rng.randint(1, 8), 'rs': rs}
        elif r < 0.62:
            a = gen.logu(rng, 1e-3, 1e3)
            yield {'lane': 'ellipse-window', 'a': a, 'b': a / gen.logu(rng, 1, 100), 'theta': rng.uniform(-10, 10), 'phi': rng.uniform(0, 2 * math.pi),
                   'fx': rng.random(), 'fy': rng.random(), 'nx': rng.randint(1, 8), 'ny': rng.randint(1, 8), 'rs': rs}
        elif r < 0.70:
            yield {'lane': 'nice-circle', 'r': rng.choice([0.5, 1, 1.5, 2, 2.5, 3, math.sqrt(2), math.sqrt(5), 5, 10]),
                   'cx': rng.choice([0, 0.25, 0.5, 3, 3.25, 3.5, -7.5]), 'cy': rng.choice([0, 0.25, 0.5, 3, 3.25, 3.5, -7.5]), 'rs': rs}
        elif r < 0.80:
            yield {'lane': 'nice-ellipse', 'a': rng.choice([0.5, 1, 1.5, 2, 2.5, 3, math.sqrt(2), 5]), 'b': rng.choice([0.5, 1, 1.5, 2, math.sqrt(2), 3]),
                   'theta_deg': 15 * rng.randint(-12, 12), 'cx': rng.choice([0, 0.25, 0.5, 3, 3.25, 3.5, -7.5]),
                   'cy': rng.choice([0, 0.25, 0.5, 3, 3.25, 3.5, -7.5]), 'rs': rs}
        else:
            cls = rng.choice(['CirclePixelRegion', 'EllipsePixelRegion', 'RectanglePixelRegion', 'PolygonPixelRegion', 'RegularPolygonPixelRegion'])
            yield {'lane': 'convergence', 'cls': cls, 'size': gen.logu(rng, 1.5, 25) if rng.random() < 0.7 else gen.logu(rng, 0.02, 1.5), 'cx': rng.uniform(-20, 20), 'cy': rng.uniform(-20, 20),
                   'angle': gen.angle_spec(rng, 'uniform'), 'rs': rs}


def f16_degenerate(x0, y0, x1, y1, a, b, theta):
    """classifier of the known elliptical-kernel defect: in the unit-circle frame a pixel corner lies on the circle, or
    an edge / the (x1,y1)-(x3,y3) diagonal passes through the centre, or an edge is tangent (all within 1e-9)."""
    c, s = math.cos(-theta), math.sin(-theta)
    P = [((x * c - y * s) / a, (x * s + y * c) / b) for x, y in ((x0, y0), (x1, y0), (x1, y1), (x0, y1))]
    eps = 1e-9
    for u, v in P:
        if abs(u * u + v * v - 1) < 10 * eps:
            return 'corner-on-ellipse'
    segs = [(P[0], P[1]), (P[1], P[2]), (P[2], P[3]), (P[3], P[0]), (P[0], P[2])]
    for (ux, uy), (vx, vy) in segs:
        L = math.hypot(vx - ux, vy - uy)
        if L == 0:
            continue
        d = abs(ux * (vy - uy) - uy * (vx - ux)) / L          # distance of the line from the origin
        if d < eps:
            return 'edge-or-diagonal-through-centre'
        if abs(d - 1) < eps:
            return 'edge-tangent'
    return None


_KNOWN_DEV = [0.0]


def judge_pixels(obs, vals, x_edges, y_edges, area_fn, margin_fn, what, ellipse=None, fast_exact_one=False):
    """vals[j, i] for pixel [x_edges[i], x_edges[i+1]] x [y_edges[j], y_edges[j+1]] (centre-relative coordinates)."""
    ny, nx = vals.shape
    nb = 0
    total_exp = 0.0
    _KNOWN_DEV[0] = 0.0
    for j in range(ny):
        for i in range(nx):
            v = float(vals[j, i])
            x0, x1, y0, y1 = x_edges[i], x_edges[i + 1], y_edges[j], y_edges[j + 1]
            pa = (x1 - x0) * (y1 - y0)
            exp = area_fn(x0, y0, x1, y1) / pa
            total_exp += exp
            known = None
            if ellipse is not None:
                known = f16_degenerate(x0, y0, x1, y1, *ellipse)
            ok_range = math.isfinite(v) and -1e-12 <= v <= 1 + 1e-12
            ok_val = math.isfinite(v) and abs(v - exp) <= 1e-8
            if not (ok_range and ok_val):
                key = K_F16 if known else ('exact-value-out-of-range' if not ok_range else 'exact-value-wrong')
                if not known and ellipse is not None and min(ellipse[0], ellipse[1]) < 0.05:
                    # second known kernel mechanism: in the unit-circle frame the pixel is > 20 radii across
                    key, known = K_THIN, f'semi-minor axis {min(ellipse[0], ellipse[1]):.3g} px'
                if known:
                    _KNOWN_DEV[0] += (v - exp) if math.isfinite(v) else float('nan')          # what the known mechanisms contribute to the mask sum
                obs.violation(key, f'{what}: pixel [{x0!r},{x1!r}]x[{y0!r},{y1!r}] exact value {v!r}, true overlap fraction {exp!r}'
                              + (f' (degenerate alignment: {known})' if known else ''))
                continue
            obs.ok(1, 'exact-range')
            obs.ok(1, 'exact-pixel')
            obs.note_max('max:|exact-oracle|', abs(v - exp))
            # fully covered / uncovered pixels
            ms = [margin_fn(x, y) for x, y in ((x0, y0), (x1, y0), (x1, y1), (x0, y1))]
            band = 1e-9 * max(abs(x0), abs(x1), abs(y0), abs(y1), 1.0)
            if min(ms) > band:
                good = (v == 1.0) if fast_exact_one else abs(v - 1.0) <= 1e-12
                obs.check(good, 'fully-covered-pixel-not-1', f'{what}: pixel inside the shape has exact value {v!r}', 'full-pixel')
            elif exp == 0.0 and max(ms) < -band and _far_outside(x0, y0, x1, y1, margin_fn, band):
                obs.check(v == 0.0, 'uncovered-pixel-not-0', f'{what}: pixel outside the shape has exact value {v!r}', 'empty-pixel')
            else:
                nb += 1
    return nb, total_exp


def _far_outside(x0, y0, x1, y1, margin_fn, band):
    # corners and edge midpoints outside and the pixel does not contain the centre
    if x0 <= 0 <= x1 and y0 <= 0 <= y1:
        return False
    for x, y in ((0.5 * (x0 + x1), y0), (0.5 * (x0 + x1), y1), (x0, 0.5 * (y0 + y1)), (x1, 0.5 * (y0 + y1))):
        if margin_fn(x, y) >= -band:
            return False
    return True


def typed_centre(case, cx, cy, obs):
    """the centre as the caller may hold it: Python floats, or NumPy float32 / float64 scalars (e.g. elements of a catalogue
    column) - the region is then centred on exactly those values; and the mask describes the shape whatever the include flag."""
    import regions
    k = case['rs'] % 7
    if k == 0:
        cx, cy = float(np.float32(cx)), float(np.float32(cy))
        c = regions.PixCoord(np.float32(cx), np.float32(cy))
        obs.count('float32-scalar-centres')
    elif k == 1:
        c = regions.PixCoord(np.float64(cx), np.float64(cy))
    else:
        c = regions.PixCoord(cx, cy)
    meta = None
    if case['rs'] % 5 == 0:
        meta = regions.RegionMeta({'include': False if case['rs'] % 2 else 0})
        obs.count('masks-of-excluded-regions')
    return cx, cy, c, meta


def _deg(theta):
    d = math.degrees(theta)
    return float(round(d)) if abs(d - round(d)) < 1e-9 and round(d) % 90 == 0 else d


def exact_mask(reg, rs, obs):
    """mode='exact' in the spellings the signature allows: `subpixels` is documented as ignored outside 'subpixels' mode."""
    m = _exact_mask(reg, rs, obs)
    if rs % 5 == 2 and np.asarray(m.data).size:
        # a mask that has been USED before it is looked at: applied to an image with a bad-pixel mask, multiplied, cut out.  It still
        # holds the overlap fractions afterwards.
        bb = m.bbox
        nrng = np.random.default_rng(rs)
        shape = (max(bb.iymax, 1) + 2, max(bb.ixmax, 1) + 2)
        if shape[0] * shape[1] <= 4_000_000:
            img = nrng.normal(0, 1, shape)
            m.get_values(img, mask=nrng.random(shape) < 0.4)
            m.multiply(img, fill_value=np.nan)
            m.cutout(img, fill_value=-1.0)
            m.to_image(shape)
            obs.count('masks-used-before-being-judged')
    return m


def _exact_mask(reg, rs, obs):
    k = rs % 6
    if k == 0:
        obs.count('exact-with-subpixels-1')
        return reg.to_mask(mode='exact', subpixels=1)
    if k == 1:
        return reg.to_mask('exact', (rs // 6) % 9 + 1)
    if k == 2:
        return reg.to_mask(subpixels=2, mode='exact')
    return reg.to_mask(mode='exact')


def run_big_circle(case, obs):
    from regions import PixCoord, CirclePixelRegion
    r, cx, cy = case['r'], case['cx'], case['cy']
    m = CirclePixelRegion(PixCoord(cx, cy), r).to_mask(mode='exact')
    bb = m.bbox
    data = np.asarray(m.data, dtype=float)
    xe = np.arange(bb.ixmin, bb.ixmax + 1) - 0.5 - cx
    ye = np.arange(bb.iymin, bb.iymax + 1) - 0.5 - cy
    x0, x1, y0, y1 = xe[:-1][None, :], xe[1:][None, :], ye[:-1][:, None], ye[1:][:, None]
    far = np.hypot(np.maximum(np.abs(x0), np.abs(x1)), np.maximum(np.abs(y0), np.abs(y1)))          # farthest corner
    nx_ = np.where((x0 <= 0) & (x1 >= 0), 0.0, np.minimum(np.abs(x0), np.abs(x1)))
    ny_ = np.where((y0 <= 0) & (y1 >= 0), 0.0, np.minimum(np.abs(y0), np.abs(y1)))
    near = np.hypot(nx_, ny_)                                                                        # nearest point of the pixel
    band = 1e-9 * r
    inside, outside = far < r - band, near > r + band
    obs.count('big-circle-rows', data.shape[0])
    bad_in = inside & (np.abs(data - 1.0) > 1e-12)
    bad_out = outside & (data != 0.0)
    if bad_in.any():
        j, i = [int(v[0]) for v in np.nonzero(bad_in)]
        obs.violation('fully-covered-pixel-not-1', f'circle r={r!r} centre=({cx!r},{cy!r}): pixel row {j} col {i} of the {data.shape} mask lies inside the disk '
                      f'but has exact value {data[j, i]!r}; {int(bad_in.sum())} such pixels')
    else:
        obs.ok(int(inside.sum()), 'full-pixel')
    if bad_out.any():
        j, i = [int(v[0]) for v in np.nonzero(bad_out)]
        obs.violation('uncovered-pixel-not-0', f'circle r={r!r}: pixel row {j} col {i} lies outside the disk but has exact value {data[j, i]!r}; {int(bad_out.sum())} such pixels')
    else:
        obs.ok(int(outside.sum()), 'empty-pixel')
    edge = np.argwhere(~inside & ~outside)
    tot = float(inside.sum())
    nbad = 0
    for j, i in edge:
        exp = circle_pixel_area(xe[i], ye[j], xe[i + 1], ye[j + 1], r)
        tot += exp
        v = data[j, i]
        if not (math.isfinite(v) and abs(v - exp) <= 1e-8):
            nbad += 1
            if nbad == 1:
                obs.violation('exact-value-wrong', f'circle r={r!r} centre=({cx!r},{cy!r}): pixel [{xe[i]!r},{xe[i + 1]!r}]x[{ye[j]!r},{ye[j + 1]!r}] exact value {v!r}, '
                              f'true overlap fraction {exp!r}')
        else:
            obs.ok(1, 'exact-pixel')
    obs.check(abs(tot - math.pi * r * r) <= len(edge) * 1e-9 + 1e-6, 'exact-mask-box-does-not-hold-the-shape',
              f'circle r={r!r}: the part of the disk inside the mask box {bb!r} has area {tot!r}, the disk {math.pi * r * r!r}', 'mask-box')
    s = float(data.sum())
    obs.check(abs(s - math.pi * r * r) <= len(edge) * 1e-8 + 1e-6, 'exact-mask-sum-not-analytic-area',
              f'circle r={r!r}: exact mask sums to {s!r}, analytic area {math.pi * r * r!r}', 'mask-sum')


def run_big_ellipse(case, obs):
    import astropy.units as u
    from regions import PixCoord, EllipsePixelRegion
    a, b, th, cx, cy = case['a'], case['b'], case['theta'], case['cx'], case['cy']
    m = EllipsePixelRegion(PixCoord(cx, cy), 2 * a, 2 * b, th * u.rad).to_mask(mode='exact')
    bb = m.bbox
    data = np.asarray(m.data, dtype=float)
    obs.count('big-ellipse-pixels', data.size)
    xc = np.arange(bb.ixmin, bb.ixmax)[None, :] - cx
    yc = np.arange(bb.iymin, bb.iymax)[:, None] - cy
    c, s_ = math.cos(th), math.sin(th)
    rho = np.hypot((xc * c + yc * s_) / a, (-xc * s_ + yc * c) / b)          # 1 on the outline; Lipschitz constant 1/b
    lip = 0.70711 / b + 1e-9
    inside, outside = rho < 1 - lip, rho > 1 + lip
    bad_in = inside & (np.abs(data - 1.0) > 1e-12)
    bad_out = outside & (data != 0.0)
    what = f'ellipse a={a!r} b={b!r} theta={th!r} centre=({cx!r},{cy!r})'
    if bad_in.any():
        j, i = [int(v[0]) for v in np.nonzero(bad_in)]
        obs.violation('fully-covered-pixel-not-1', f'{what}: pixel row {j} col {i} of the {data.shape} mask lies inside the ellipse but has exact value '
                      f'{data[j, i]!r}; {int(bad_in.sum())} such pixels')
    else:
        obs.ok(int(inside.sum()), 'full-pixel')
    if bad_out.any():
        j, i = [int(v[0]) for v in np.nonzero(bad_out)]
        obs.violation('uncovered-pixel-not-0', f'{what}: pixel row {j} col {i} lies outside the ellipse but has exact value {data[j, i]!r}; '
                      f'{int(bad_out.sum())} such pixels')
    else:
        obs.ok(int(outside.sum()), 'empty-pixel')
    edge = np.argwhere(~inside & ~outside)
    nrng = np.random.default_rng(case['rs'])
    pick = edge[nrng.choice(len(edge), min(len(edge), 500), replace=False)]
    nbad = 0
    for j, i in pick:
        x0, y0 = bb.ixmin + i - 0.5 - cx, bb.iymin + j - 0.5 - cy
        exp = ellipse_pixel_area(x0, y0, x0 + 1, y0 + 1, a, b, th)
        v = data[j, i]
        if not (math.isfinite(v) and abs(v - exp) <= 1e-8):
            nbad += 1
            if nbad == 1:
                obs.violation('exact-value-wrong', f'{what}: pixel [{x0!r},{x0 + 1!r}]x[{y0!r},{y0 + 1!r}] exact value {v!r}, true overlap fraction {exp!r}')
        else:
            obs.ok(1, 'exact-pixel')
    s = float(data.sum())
    obs.check(abs(s - math.pi * a * b) <= len(edge) * 1e-8 + 1e-6, 'exact-mask-sum-not-analytic-area',
              f'{what}: exact mask sums to {s!r}, analytic area {math.pi * a * b!r}', 'mask-sum')


def stepped(case, reg, obs, angle=False):
    """the region as an object with a past: built a small step away (position, sizes, orientation), its mask taken, then given
    its parameters by assignment - what counts is what it holds now."""
    if case['rs'] % 4 != 1:
        return reg
    import random
    prng = random.Random(case['rs'])
    final = {p: getattr(reg, p) for p in reg._params}
    from regions import PixCoord
    d = prng.choice([-1, 1]) * 10.0 ** prng.uniform(-7, -1)
    start = dict(final)
    start['center'] = PixCoord(float(final['center'].x) + d, float(final['center'].y) - 0.6 * d)
    as_int = prng.random() < 0.3          # the object was created with whole-number sizes (Python ints) and refined later
    for p in final:
        if p in ('radius', 'width', 'height') and as_int:
            start[p] = max(1, int(round(float(final[p]))))
        elif p in ('radius', 'width', 'height') and prng.random() < 0.5:
            start[p] = final[p] * (1 + 10.0 ** prng.uniform(-7, -2))
        if p == 'angle' and prng.random() < 0.5:
            start[p] = final[p] * (1 + 10.0 ** prng.uniform(-7, -2))
    past = type(reg)(**start, meta=reg.meta)
    past.to_mask(mode='exact')
    for p in prng.sample(list(final), len(final)):
        setattr(past, p, final[p])
    obs.count('history-steps')
    return past


def run_case(case, obs):
    import astropy.units as u
    from regions import PixCoord, CirclePixelRegion, EllipsePixelRegion
    lane = case['lane']
    if lane == 'big-circle':
        return run_big_circle(case, obs)
    if lane == 'big-ellipse':
        return run_big_ellipse(case, obs)
    if lane in ('circle-mask', 'nice-circle'):
        r, cx, cy = case['r'], case['cx'], case['cy']
        cx, cy, ctor_c, meta = typed_centre(case, cx, cy, obs)
        reg = stepped(case, CirclePixelRegion(ctor_c, r, meta=meta), obs)
        if case['rs'] % 3 == 0:
            # an earlier, equal request whose result the caller edited in place must not influence this one
            first = CirclePixelRegion(ctor_c, r).to_mask(mode='exact')
            if np.asarray(first.data).flags.writeable:
                np.asarray(first.data)[...] = 0.5
            obs.count('result-edited-then-requested-again')
        m = exact_mask(reg, case['rs'], obs)
        bb = m.bbox
        xe = [bb.ixmin - 0.5 + i - cx for i in range(bb.shape[1] + 1)]
        ye = [bb.iymin - 0.5 + j - cy for j in range(bb.shape[0] + 1)]
        nb, tot = judge_pixels(obs, np.asarray(m.data), xe, ye, lambda a, b, c, d: circle_pixel_area(a, b, c, d, r),
                               lambda x, y: r - math.hypot(x, y), f'circle r={r!r} centre=({cx!r},{cy!r})')
        s = float(np.sum(m.data))
        obs.check(abs(tot - math.pi * r * r) <= (nb + 1) * 1e-8, 'exact-mask-box-does-not-hold-the-shape',
                  f'circle r={r!r} centre=({cx!r},{cy!r}): the part of the disk inside the mask box {bb!r} has area {tot!r}, the disk {math.pi * r * r!r}', 'mask-box')
        obs.check(abs(s - math.pi * r * r) <= (nb + 1) * 1e-8, 'exact-mask-sum-not-analytic-area',
                  f'circle r={r!r}: exact mask sums to {s!r}, analytic area {math.pi * r * r!r}', 'mask-sum')
        return
    if lane in ('ellipse-mask', 'nice-ellipse'):
        a, b = case['a'], case['b']
        if lane == 'nice-ellipse':
            ang = case['theta_deg'] * u.deg
        else:
            ang = case['theta'] * u.rad if case['unit'] == 'rad' else _deg(case['theta']) * u.deg
        th = float(ang.to_value(u.rad))
        cx, cy = case['cx'], case['cy']
        cx, cy, ctor_c, meta = typed_centre(case, cx, cy, obs)
        reg = stepped(case, EllipsePixelRegion(ctor_c, 2 * a, 2 * b, ang, meta=meta), obs)
        if case['rs'] % 3 == 0:
            first = EllipsePixelRegion(ctor_c, 2 * a, 2 * b, ang).to_mask(mode='exact')
            if np.asarray(first.data).flags.writeable:
                np.asarray(first.data)[...] = 0.5
            obs.count('result-edited-then-requested-again')
        m = exact_mask(reg, case['rs'], obs)
        bb = m.bbox
        xe = [bb.ixmin - 0.5 + i - cx for i in range(bb.shape[1] + 1)]
        ye = [bb.iymin - 0.5 + j - cy for j in range(bb.shape[0] + 1)]
        nb, tot = judge_pixels(obs, np.asarray(m.data), xe, ye, lambda p, q, r_, s_: ellipse_pixel_area(p, q, r_, s_, a, b, th),
                               lambda x, y: float(geom.margin_ellipse(0.0, 0.0, 2 * a, 2 * b, th, np.float64(x), np.float64(y))),
                               f'ellipse a={a!r} b={b!r} theta={th!r} centre=({cx!r},{cy!r})', ellipse=(a, b, th), fast_exact_one=False)
        s = float(np.sum(m.data))
        # independent of the kernel: the box of the mask holds the whole ellipse (oracle area inside the box = pi a b)
        obs.check(abs(tot - math.pi * a * b) <= (nb + 1) * 1e-8, 'exact-mask-box-does-not-hold-the-shape',
                  f'ellipse a={a!r} b={b!r} theta={th!r} centre=({cx!r},{cy!r}): the part of the ellipse inside the mask box {bb!r} has area {tot!r}, '
                  f'the ellipse {math.pi * a * b!r}', 'mask-box')
        ok = abs(s - math.pi * a * b) <= (nb + 1) * 1e-8
        # a wrong sum is attributed to a known kernel mechanism only as far as the pixels that show that mechanism explain it
        explained = math.isnan(_KNOWN_DEV[0]) or abs((s - math.pi * a * b) - _KNOWN_DEV[0]) <= (nb + 1) * 1e-8
        if not ok and explained and lane == 'nice-ellipse' and any(f16_degenerate(xe[i], ye[j], xe[i + 1], ye[j + 1], a, b, th)
                                                                   for i in range(len(xe) - 1) for j in range(len(ye) - 1)):
            obs.violation(K_F16, f'ellipse a={a!r} b={b!r}: exact mask sums to {s!r}, analytic area {math.pi * a * b!r} (degenerate alignment present)')
        elif not ok and explained and min(a, b) < 0.05:
            obs.violation(K_THIN, f'ellipse a={a!r} b={b!r}: exact mask sums to {s!r}, analytic area {math.pi * a * b!r} (semi-minor axis below 0.05 px)')
        else:
            obs.check(ok, 'exact-mask-sum-not-analytic-area', f'ellipse a={a!r} b={b!r} theta={th!r}: exact mask sums to {s!r}, analytic area {math.pi * a * b!r}',
                      'mask-sum')
        return
    if lane == 'circle-window':
        import regions.shapes.circle as modc
        r, phi = case['r'], case['phi']
        nx, ny = case['nx'], case['ny']
        # window of unit pixels placed so that the boundary point at angle phi falls inside it
        bx, by = r * math.cos(phi), r * math.sin(phi)
        xmin = bx - nx * case['fx']
        ymin = by - ny * case['fy']
        vals = modc.circular_overlap_grid(xmin, xmin + nx, ymin, ymin + ny, nx, ny, r, 1, 1)
        obs.count('kernel-calls:circular')
        xe = [xmin + i for i in range(nx + 1)]
        ye = [ymin + j for j in range(ny + 1)]
        judge_pixels(obs, np.asarray(vals), xe, ye, lambda a, b, c, d: circle_pixel_area(a, b, c, d, r), lambda x, y: r - math.hypot(x, y),
                     f'circular_overlap_grid r={r!r} window=({xmin!r},{ymin!r},{nx},{ny})')
        return
    if lane == 'ellipse-window':
        import regions.shapes.ellipse as mode
        a, b, th, phi = case['a'], case['b'], case['theta'], case['phi']
        nx, ny = case['nx'], case['ny']
        c, s = math.cos(th), math.sin(th)
        ex, ey = a * math.cos(phi), b * math.sin(phi)
        bx, by = ex * c - ey * s, ex * s + ey * c
        xmin = bx - nx * case['fx']
        ymin = by - ny * case['fy']
        vals = mode.elliptical_overlap_grid(xmin, xmin + nx, ymin, ymin + ny, nx, ny, a, b, th, 1, 1)
        obs.count('kernel-calls:elliptical')
        xe = [xmin + i for i in range(nx + 1)]
        ye = [ymin + j for j in range(ny + 1)]
        judge_pixels(obs, np.asarray(vals), xe, ye, lambda p, q, r_, s_: ellipse_pixel_area(p, q, r_, s_, a, b, th),
                     lambda x, y: float(geom.margin_ellipse(0.0, 0.0, 2 * a, 2 * b, th, np.float64(x), np.float64(y))),
                     f'elliptical_overlap_grid a={a!r} b={b!r} theta={th!r} window=({xmin!r},{ymin!r},{nx},{ny})', ellipse=(a, b, th), fast_exact_one=False)
        return
    # ---- convergence of subpixel masks --------------------------------------
    prng = random.Random(case['rs'])
    cls = case['cls']
    sp = gen.pixel_region_spec(prng, cls=cls, size=case['size'], center=(case['cx'], case['cy']), angle=case['angle'], include='absent',
                               max_aspect=4.0,
                               # simple polygons only (clipped signed area = even-odd area): star-shaped ones, sheared boxes on dyadic coordinates, L-shapes
                               # whose edges are all parallel to the pixel axes
                               poly_kind=({0: 'parallelogram', 1: 'rectilinear'}.get(case['rs'] % 4, 'starsafe') if cls == 'PolygonPixelRegion' else None))
    sp['p'].pop('origin', None) if False else None
    reg = S.build(sp)
    bb = reg.bounding_box
    ny, nx = bb.shape
    th = geom.theta_rad(reg.angle) if hasattr(reg, 'angle') else 0.0
    cx, cy = (float(reg.center.x), float(reg.center.y)) if hasattr(reg, 'center') else (0.0, 0.0)
    if cls == 'CirclePixelRegion':
        r = float(reg.radius)
        truth = lambda x0, y0, x1, y1: circle_pixel_area(x0 - cx, y0 - cy, x1 - cx, y1 - cy, r)
    elif cls == 'EllipsePixelRegion':
        a, b = float(reg.width) / 2, float(reg.height) / 2
        truth = lambda x0, y0, x1, y1: ellipse_pixel_area(x0 - cx, y0 - cy, x1 - cx, y1 - cy, a, b, th)
    else:
        if cls == 'RectanglePixelRegion':
            poly = geom.rect_corners(cx, cy, float(reg.width), float(reg.height), th)
        else:
            poly = list(zip(np.asarray(reg.vertices.x, dtype=float).tolist(), np.asarray(reg.vertices.y, dtype=float).tolist()))
        truth = lambda x0, y0, x1, y1: poly_area(clip_poly_to_rect(poly, x0, y0, x1, y1))
    tmap = np.array([[truth(bb.ixmin + i - 0.5, bb.iymin + j - 0.5, bb.ixmin + i + 0.5, bb.iymin + j + 0.5) for i in range(nx)] for j in range(ny)])
    area_tot = float(tmap.sum())
    obs.check(abs(area_tot - geom.analytic_area(reg)) <= 1e-7 * max(1.0, area_tot), 'oracle-selfcheck', f'oracle area {area_tot} vs analytic {geom.analytic_area(reg)}', 'oracle')
    prev = None
    for n in (1, 2, 3, 5, 8, 12) + ((25, 40) if max(nx, ny) <= 14 else ()):
        m = reg.to_mask(mode='subpixels', subpixels=n)
        d = np.asarray(m.data)
        # N_cut: sub-cells whose centre is within half a sub-cell diagonal of the boundary
        k = (np.arange(n) + 0.5) / n
        xs = (np.arange(bb.ixmin, bb.ixmax)[:, None] - 0.5 + k[None, :]).ravel()
        ys = (np.arange(bb.iymin, bb.iymax)[:, None] - 0.5 + k[None, :]).ravel()
        X, Y = np.meshgrid(xs, ys)
        mg, band = geom.shape_margin(reg, X, Y)
        hd = math.sqrt(2) / (2 * n)
        ncut = (np.abs(mg) <= hd + np.asarray(band)).reshape(ny, n, nx, n).sum(axis=(1, 3))
        err = np.abs(d - tmap)
        bound = ncut / (n * n) + 1e-9
        bad = err > bound
        if bad.any():
            j, i = np.argwhere(bad)[0]
            obs.violation('subpixel-mask-outside-convergence-bound', f'{cls} n={n}: pixel [{j},{i}] value {d[j, i]!r}, true overlap {tmap[j, i]!r}, '
                          f'bound {bound[j, i]!r} ({ncut[j, i]} boundary sub-cells)', region=repr(reg)[:300])
        else:
            obs.ok(int(d.size), 'convergence')
        tot_err = abs(float(d.sum()) - area_tot)
        obs.note_max(f'max:total-error*n/perimeter-ish(n={n})', tot_err * n / max(1.0, math.sqrt(area_tot)))


# ---------------------------------------------------------------------------
# sanitizer lane (driver side): ASan + UBSan build of the kernel C sources
SAN_WORKLOAD = r'''
import sys, importlib.abc, importlib.machinery, importlib.util, os, math, random
SO = sys.argv[1]
class F(importlib.abc.MetaPathFinder):
    def find_spec(self, name, path, target=None):
        if name.startswith('regions._geometry.'):
            p = os.path.join(SO, name.split('.')[-1] + '.so')
            if os.path.exists(p):
                return importlib.util.spec_from_file_location(name, p)
sys.meta_path.insert(0, F())
sys.path.insert(0, sys.argv[2])
import numpy as np
from regions._geometry import circular_overlap_grid, elliptical_overlap_grid, rectangular_overlap_grid, polygonal_overlap_grid
from regions._geometry.pnpoly import points_in_polygon
import regions._geometry.core as core
assert core.__file__.startswith(SO), core.__file__
rng = random.Random(int(sys.argv[3]))
n = int(sys.argv[4]); calls = 0
for i in range(n):
    r = math.exp(rng.uniform(math.log(1e-3), math.log(1e3)))
    nx, ny = rng.randint(1, 9), rng.randint(1, 9)
    xmin, ymin = rng.uniform(-2 * r - 5, 2 * r), rng.uniform(-2 * r - 5, 2 * r)
    for ex in (0, 1):
        circular_overlap_grid(xmin, xmin + nx, ymin, ymin + ny, nx, ny, r, ex, rng.randint(1, 7)); calls += 1
        elliptical_overlap_grid(xmin, xmin + nx, ymin, ymin + ny, nx, ny, r, r / math.exp(rng.uniform(0, 4.6)), rng.uniform(-10, 10), ex, rng.randint(1, 7)); calls += 1
    rectangular_overlap_grid(xmin, xmin + nx, ymin, ymin + ny, nx, ny, r, r / 3, rng.uniform(-10, 10), 0, rng.randint(1, 7)); calls += 1
    k = rng.choice([0, 1, 2, 3, 5, 17])
    vx = np.array([rng.uniform(-r, r) for _ in range(k)], dtype=float); vy = np.array([rng.uniform(-r, r) for _ in range(k)], dtype=float)
    if k >= 1:
        polygonal_overlap_grid(xmin, xmin + nx, ymin, ymin + ny, nx, ny, vx, vy, 0, rng.randint(1, 5)); calls += 1
    m = rng.choice([0, 1, 7])
    points_in_polygon(np.array([rng.uniform(-r, r) for _ in range(m)], dtype=float), np.array([rng.uniform(-r, r) for _ in range(m)], dtype=float), vx, vy); calls += 1
    # degenerate / nice alignments
    circular_overlap_grid(-3.0, 3.0, -3.0, 3.0, 6, 6, rng.choice([0.5, 1.0, 2.5, 3.0]), 1, 1); calls += 1
    elliptical_overlap_grid(-3.0, 3.0, -3.0, 3.0, 6, 6, rng.choice([0.5, 1.0, 2.5]), rng.choice([0.5, 1.0, 2.0]), math.radians(15 * rng.randint(-12, 12)), 1, 1); calls += 1
print('KERNEL_CALLS', calls)
'''


def driver_extra(tier, seed, rundir):
    """Build the kernels with clang -fsanitize=address,undefined and replay a kernel workload."""
    repo = os.environ.get('VERIF_REPO', '/repo')
    gdir = os.path.join(repo, 'regions', '_geometry')
    mods = ['core', 'pnpoly', 'circular_overlap', 'elliptical_overlap', 'rectangular_overlap', 'polygonal_overlap']
    report = {'status': 'skipped', 'reason': None}
    if not all(os.path.exists(os.path.join(gdir, m + '.c')) for m in mods) or shutil.which('clang') is None:
        report['reason'] = 'generated C sources or clang not present'
        return {'report': {'sanitizer_lane': report}}
    build = tempfile.mkdtemp(prefix='vmon-asan-')
    try:
        inc = ['-I/root/.pyenv/versions/3.12.1/include/python3.12', '-I/venv/lib/python3.12/site-packages/numpy/_core/include', '-I' + gdir]
        try:
            import sysconfig
            inc[0] = '-I' + subprocess.run(['/venv/bin/python', '-c', 'import sysconfig; print(sysconfig.get_paths()["include"])'],
                                           capture_output=True, text=True).stdout.strip()
        except Exception:
            pass
        procs = []
        for m in mods:
            cmd = ['clang', '-O1', '-g', '-fsanitize=address,undefined', '-fno-sanitize-recover=all', '-fno-omit-frame-pointer', '-shared', '-fPIC',
                   '-w', '-DNPY_NO_DEPRECATED_API=NPY_1_7_API_VERSION'] + inc + [os.path.join(gdir, m + '.c'), '-o', os.path.join(build, m + '.so'), '-lm']
            procs.append((m, subprocess.Popen(cmd, stdout=subprocess.PIPE, stderr=subprocess.STDOUT, text=True)))
        for m, p in procs:
            out, _ = p.communicate(timeout=600)
            if p.returncode:
                report.update(status='skipped', reason=f'build of {m} failed: {out[-300:]}')
                return {'report': {'sanitizer_lane': report}}
        rt = subprocess.run(['clang', '-print-file-name=libclang_rt.asan-x86_64.so'], capture_output=True, text=True).stdout.strip()
        env = dict(os.environ, LD_PRELOAD=rt, ASAN_OPTIONS='detect_leaks=0:halt_on_error=1:abort_on_error=0:exitcode=86',
                   UBSAN_OPTIONS='print_stacktrace=1:halt_on_error=1', PYTHONHASHSEED='0')
        ncalls = 300 if tier == 'quick' else 20000
        wl = os.path.join(build, 'workload.py')
        open(wl, 'w').write(SAN_WORKLOAD)
        p = subprocess.run(['/venv/bin/python', wl, build, repo, str(seed), str(ncalls)], capture_output=True, text=True, env=env, timeout=3000)
        log = p.stdout + p.stderr
        nrep = log.count('ERROR: AddressSanitizer') + log.count('runtime error:')
        calls = 0
        for line in p.stdout.splitlines():
            if line.startswith('KERNEL_CALLS'):
                calls = int(line.split()[1])
        report.update(status='ran', kernel_calls=calls, sanitizer_reports=nrep, returncode=p.returncode)
        out = {'report': {'sanitizer_lane': report}}
        if nrep:
            out['violations'] = [{'property': ID, 'key': 'sanitizer-report', 'msg': log[log.find('ERROR'):][:1500] or log[-1500:],
                                  'detail': {}, 'case': {'lane': 'sanitizer', 'seed': seed, 'n': ncalls}}]
        elif p.returncode != 0 or calls == 0:
            out['inconclusive'] = [f'sanitizer workload did not complete (rc={p.returncode}): {log[-400:]}']
        return out
    finally:
        shutil.rmtree(build, ignore_errors=True)


MUTANTS = [
    ('ellipse-halfwidth-swapped', 'regions/shapes/ellipse.py', '0.5 * self.width, 0.5 * self.height,', '0.5 * self.height, 0.5 * self.width,'),
    ('ellipse-angle-value-not-radians', 'regions/shapes/ellipse.py', 'self.angle.to(u.rad).value,', 'self.angle.value,'),
    ('circle-exact-uses-subpixels', 'regions/shapes/circle.py', "use_exact = 0 if mode == 'subpixels' else 1", "use_exact = 0"),
    ('circle-radius-diameter', 'regions/shapes/circle.py', 'fraction = circular_overlap_grid(xmin, xmax, ymin, ymax, nx, ny,\n                                         self.radius, use_exact, subpixels)',
     'fraction = circular_overlap_grid(xmin, xmax, ymin, ymax, nx, ny,\n                                         self.radius * 1.001, use_exact, subpixels)'),
    ('ellipse-grid-shifted', 'regions/shapes/ellipse.py', 'xmin = float(bbox.ixmin) - 0.5 - self.center.x', 'xmin = float(bbox.ixmin) - 0.49 - self.center.x'),
    ('rectangle-subpixels-ignored', 'regions/shapes/rectangle.py', '                                            use_exact, subpixels)', '                                            use_exact, 1)'),
    ('polygon-grid-half-pixel-off', 'regions/shapes/polygon.py', '        ymin = float(bbox.iymin) - 0.5\n', '        ymin = float(bbox.iymin) - 0.0\n'),
]
