"""C13 - operations never mutate their inputs nor depend on call history.

Monitor: the frozen-argument wrapper.  Every operation of a generated history
is bracketed by a deep structural fingerprint of the whole shared pool
(regions, coordinates, images, lists) and of the library's module-level state;
any difference names the object/path that changed.  Each operation is
immediately repeated (determinism), and after the history a probe set is
compared with the same probes evaluated first thing in a fresh interpreter.
"""
import hashlib
import json
import os
import random
import shutil
import subprocess
import sys
import tempfile
import warnings

import numpy as np

from vmon import gen, spec as S

ID = 'C13'
LEVEL = 'exploration'
TECHNIQUE = 'runtime monitor: deep fingerprints of every argument, the shared pool and module state before/after each call of generated operation histories; repeat-call determinism; probe results compared with a fresh interpreter'
RULE = ('cases = histories of <= 30 operations drawn from the public read-only/constructive API (contains, in, to_mask x3, area, bounding_box, to_sky/to_pixel, '
        'rotate, copy, & | ^, as_artist, serialize/write/parse/read in ds9/crtf/fits with options, Regions slicing/copy, RegionMask methods, PixCoord and '
        'bounding-box operations) over a shared pool of ~16 regions of all classes; some cases end with a probe set re-evaluated in a fresh interpreter; '
        'non-trivial = >=1 judged operation; distinct = distinct histories')
ASSUMPTIONS = ['documented aliasing (cutout view with copy=False) is not a mutation', 'workers and fresh interpreters run with the same PYTHONHASHSEED']

K_CRTF_POP = 'crtf-serialize-pops-include'


def budget(tier):
    return 55 if tier == 'quick' else 500


def shards(tier):
    return 16


def required_counters(tier):
    return {'judged:inputs-unchanged': 1000, 'judged:deterministic': 1000, 'judged:fresh-interpreter': 20, 'judged:module-state-unchanged': 1000,
            'judged:parse-independent-of-previous-parse': 50, 'op:serialize': 50, 'op:write': 20, 'op:parse': 50, 'op:to_mask': 50,
            'op:contains': 50, 'op:to_sky': 20, 'op:rotate': 20, 'op:as_artist': 20, 'op:mask-apply': 20, 'tables-read-from-a-fits-file-by-the-caller': 5, 'writes-repeated-in-another-second': 3}


PIX_CLASSES = gen.ALL_PIX
SKY_CLASSES = ['CircleSkyRegion', 'EllipseSkyRegion', 'RectangleSkyRegion', 'PolygonSkyRegion', 'CircleAnnulusSkyRegion',
               'EllipseAnnulusSkyRegion', 'PointSkyRegion', 'LineSkyRegion', 'TextSkyRegion', 'RectangleAnnulusSkyRegion']

OPS = ['contains', 'contains', 'in', 'to_mask', 'to_mask', 'area', 'bounding_box', 'to_sky', 'to_pixel', 'rotate', 'copy', 'combine', 'as_artist',
       'serialize', 'serialize', 'serialize', 'write', 'parse', 'parse', 'read', 'regions-list', 'mask-apply', 'pixcoord', 'bbox-ops', 'sky-contains', 'eq',
       'repr', 'meta-arg']


def make_pool_spec(rng):
    w = gen.wcs_spec(rng, proj='TAN', frame=rng.choice(['icrs', 'fk5', 'galactic']), scale=gen.logu(rng, 1e-4, 1e-3))
    cr = (w['hdr']['CRPIX1'], w['hdr']['CRPIX2'])
    regs = []
    from vmon.checks import c02
    for cls in PIX_CLASSES:
        sp = gen.pixel_region_spec(rng, cls=cls, size=gen.logu(rng, 2, 30), center=(0.0, 0.0), max_aspect=4.0, include='absent')
        c = (cr[0] + rng.uniform(-60, 60), cr[1] + rng.uniform(-60, 60))
        if 'center' in sp['p'] or 'vertices' in sp['p']:
            sp = c02.shift_to(sp, *c)
        else:
            sp['p']['start'] = S.pix(c[0], c[1])
            sp['p']['end'] = S.pix(c[0] + rng.uniform(-9, 9), c[1] + rng.uniform(-9, 9))
        sp['meta'] = gen.rich_meta(rng, include=rng.choice(gen.INCLUDE_CHOICES))
        sp['visual'] = gen.rich_visual(rng)
        regs.append(sp)
    a, b = rng.sample(range(8), 2)
    regs.append(S.reg('CompoundPixelRegion', region1=regs[a], region2=regs[b], operator=rng.choice(['and', 'or', 'xor'])))
    sky = []
    for cls in rng.sample(SKY_CLASSES, 5):
        sky.append({'cls': cls, 'dx': rng.uniform(-60, 60), 'dy': rng.uniform(-60, 60), 'size_px': gen.logu(rng, 2, 30), 'seed': rng.randrange(2 ** 31)})
    return {'wcs': w, 'pix': regs, 'sky': sky, 'imseed': rng.randrange(2 ** 31)}


def generate(rng, tier, shard, nshards):
    n = 40 if tier == 'quick' else 700
    for i in range(n):
        ops = []
        for _ in range(rng.randint(8, 30)):
            ops.append({'op': rng.choice(OPS), 'i': rng.randrange(100), 'j': rng.randrange(100), 'k': rng.randrange(2 ** 31)})
        probes = [{'op': rng.choice(['serialize', 'serialize', 'parse', 'write', 'contains', 'to_mask', 'to_sky', 'rotate', 'bounding_box', 'area', 'as_artist']),
                   'i': rng.randrange(100), 'j': rng.randrange(100), 'k': rng.randrange(2 ** 31)} for _ in range(12)]
        yield {'lane': 'history', 'pool': make_pool_spec(rng), 'ops': ops, 'probes': probes,
               'fresh': (i % (10 if tier == 'quick' else 12) == 0), 'rs': rng.randrange(2 ** 31)}


# ---------------------------------------------------------------------------
class Pool:
    def __init__(self, spec, workdir):
        import astropy.units as u
        from regions import PixCoord, Regions
        from vmon.checks.c06 import build_sky_leaf
        self.spec = spec
        self.workdir = workdir
        import collections
        self.notes = collections.Counter()
        self.wcs = S.build(spec['wcs'])
        self.pix = [S.build(s) for s in spec['pix']]
        scale = spec['wcs']['scale']
        self.sky = [build_sky_leaf({'cls': d['cls'], 'dx': d['dx'], 'dy': d['dy'], 'size_deg': d['size_px'] * scale, 'seed': d['seed'],
                                    'frame': spec['wcs']['frame']}, self.wcs) for d in spec['sky']]
        # a centre the caller holds in Cartesian form (x, y, z): conversions may refuse it, they may not rewrite it
        if self.sky and hasattr(self.sky[0], 'center') and spec['imseed'] % 3 == 0:
            from astropy.coordinates import SkyCoord
            c0 = self.sky[0].center
            cart = SkyCoord(c0.cartesian, frame=c0.frame.replicate_without_data(), representation_type='cartesian')
            try:
                self.sky[0] = self.sky[0].copy(center=cart)
                self.notes['sky-centre-in-cartesian-representation'] += 1
            except Exception:
                pass
        # metadata objects the caller holds and hands to constructors / copy(): flags as Python ints, a list-valued entry
        import regions as _rg
        self.metas = [_rg.RegionMeta({'include': 1, 'label': 'kept by the caller', 'tag': ['a', 'b']}), _rg.RegionMeta({'include': 0, 'select': 1}),
                      _rg.RegionVisual({'color': 'red', 'linewidth': 2, 'dashes': [4, 2]})]
        nrng = np.random.default_rng(spec['imseed'])
        cr = self.wcs.wcs.crpix
        # (the integer image is as large as the float one: masks of integer type - annuli, compounds - lie fully inside it)
        self.images = [nrng.normal(0, 1, (int(cr[1]) + 90, int(cr[0]) + 90)), nrng.integers(1, 9, (int(cr[1]) + 90, int(cr[0]) + 90)).astype(np.int32),
                       nrng.normal(0, 1, (int(cr[1]) + 90, int(cr[0]) + 90)) * u.Jy]
        # the float image has dead / saturated pixels (NaN, +-inf) like real detector data: they are the caller's, too
        bad = nrng.random(self.images[0].shape)
        self.images[0][bad < 0.02] = np.nan
        self.images[0][(bad > 0.02) & (bad < 0.03)] = np.inf
        self.images[0][(bad > 0.03) & (bad < 0.035)] = -np.inf
        # a masked image that carries its own fill value (bad pixels flagged by the caller)
        self.images.append(np.ma.MaskedArray(nrng.normal(0, 1, (int(cr[1]) + 20, int(cr[0]) + 20)), mask=nrng.random((int(cr[1]) + 20, int(cr[0]) + 20)) < 0.05,
                                             fill_value=-999.0))
        self.coords = [PixCoord(cr[0] + nrng.uniform(-80, 80, 30), cr[1] + nrng.uniform(-80, 80, 30)),
                       PixCoord(float(cr[0]) + 1.5, float(cr[1]) - 2.25),
                       PixCoord(cr[0] + nrng.uniform(-80, 80, (3, 4)), cr[1] + nrng.uniform(-80, 80, (3, 4)))]
        # positions as an index grid gives them (integer dtype) and as single precision: inputs like any other
        self.coords.append(PixCoord(np.arange(int(cr[0]) - 5, int(cr[0]) + 6), np.arange(int(cr[1]) - 5, int(cr[1]) + 6)))
        self.coords.append(PixCoord((cr[0] + nrng.uniform(-40, 40, 9)).astype(np.float32), (cr[1] + nrng.uniform(-40, 40, 9)).astype(np.float32)))
        self.skycoords = [self.wcs.pixel_to_world(self.coords[0].x, self.coords[0].y), self.wcs.pixel_to_world(self.coords[1].x, self.coords[1].y)]
        with warnings.catch_warnings():
            warnings.simplefilter('ignore')
            parsed = Regions.parse(f'image\ncircle({cr[0]:.1f},{cr[1]:.1f},7) # color=green width=2 tag={{a}}\n'
                                   f'annulus({cr[0] + 9:.1f},{cr[1]:.1f},3,8) # color=green\nbox({cr[0]:.1f},{cr[1] - 8:.1f},9,5,30) # color=red dash=1\n'
                                   f'point({cr[0] + 3:.1f},{cr[1] + 4:.1f}) # point=x 9 color=green\ntext({cr[0]:.1f},{cr[1]:.1f}) # text={{lbl}} color=green',
                                   format='ds9').regions
        self.pix.extend(parsed)             # visual as the DS9 reader produces it (default_style 'ds9', colour names)
        self.lists = [Regions(list(self.pix[:5])), Regions(list(self.sky[:3])), Regions([self.pix[0], self.sky[0], self.pix[3]]),
                      Regions(list(self.pix))]
        self.masks = []
        for r in self.pix[:8]:
            try:
                self.masks.append(r.to_mask(mode='center'))
            except NotImplementedError:
                pass
        self.datamasks = [nrng.random(self.images[0].shape) < 0.3, nrng.random(self.images[1].shape) < 0.3]
        self.texts = {}          # format -> serialised text/table available for parse ops
        self.files = {}

    def objects(self):
        d = {}
        for i, r in enumerate(self.pix):
            d[f'pix[{i}]'] = r
        for i, r in enumerate(self.sky):
            d[f'sky[{i}]'] = r
        for i, a in enumerate(self.images):
            d[f'image[{i}]'] = a
        for i, m in enumerate(self.metas):
            d[f'meta-object[{i}]'] = m
        for i, c in enumerate(self.coords):
            d[f'coord[{i}]'] = c
        for i, c in enumerate(self.skycoords):
            d[f'skycoord[{i}]'] = c
        for i, l in enumerate(self.lists):
            d[f'list[{i}]'] = l
        for i, m in enumerate(self.masks):
            d[f'mask[{i}]'] = m
        for i, m in enumerate(self.datamasks):
            d[f'datamask[{i}]'] = m
        return d

    def fingerprints(self):
        d = {k: S.fingerprint(v) for k, v in self.objects().items()}
        d['wcs'] = wcs_fingerprint(self.wcs)          # the WCS is an input of every conversion / sky membership call
        return d


def wcs_fingerprint(w):
    """what a caller can observe of a WCS: its header, its array/pixel attributes and its *behaviour* on fixed probe positions
    (also positions it cannot project - settings of the underlying wcslib object that no header shows still show there)."""
    import astropy.units as u
    h = hashlib.blake2b(digest_size=12)
    with warnings.catch_warnings():
        warnings.simplefilter('ignore')
        h.update(w.to_header_string(relax=True).encode())
        h.update(repr((w.pixel_shape, w.pixel_bounds, w.array_shape, w.naxis, tuple(w.wcs.ctype), tuple(w.wcs.cunit), w.wcs.radesys,
                       repr(w.wcs.equinox), w.wcs.lonpole, w.wcs.latpole, w.sip is None, w.cpdis1 is None, w.det2im1 is None)).encode())
        h.update(np.asarray(w.wcs.crpix, dtype=float).tobytes() + np.asarray(w.wcs.crval, dtype=float).tobytes()
                 + np.asarray(w.wcs.get_pc(), dtype=float).tobytes() + np.asarray(w.wcs.get_cdelt(), dtype=float).tobytes())
        ref = w.pixel_to_world(w.wcs.crpix[0] - 1, w.wcs.crpix[1] - 1)
        probes = ref.directional_offset_by(np.array([0.0, 77.0, 160.0, 200.0, 300.0, 10.0]) * u.deg,
                                           np.array([0.01, 1.0, 89.0, 91.0, 150.0, 179.5]) * u.deg)
        x, y = w.world_to_pixel(probes)
        h.update(np.asarray(x, dtype=float).tobytes() + np.asarray(y, dtype=float).tobytes())
        back = w.pixel_to_world(np.array([0.0, 1e3, -1e6, 1e9]), np.array([0.0, -1e3, 1e6, 1e9]))
        h.update(np.asarray(back.data.lon.deg, dtype=float).tobytes() + np.asarray(back.data.lat.deg, dtype=float).tobytes())
    return h.hexdigest()


_MS_INITIAL = [None]
_FRESH = [None]


def process_wide_settings():
    import astropy.units as u
    po = np.get_printoptions()
    return {'printoptions': {k: repr(po[k]) for k in sorted(po) if k != 'formatter'}, 'geterr': dict(sorted(np.geterr().items())),
            'equivalencies': [repr(e) for e in u.get_current_unit_registry().equivalencies]}


def fresh_process_settings():
    """the same settings in an interpreter that has imported numpy / astropy / regions and done nothing else (once per worker)."""
    if _FRESH[0] is None:
        code = ('import sys, json; sys.path[:0] = [sys.argv[1], sys.argv[2]]; import numpy as np; import regions; from vmon.checks import c13; '
                'print(json.dumps(c13.process_wide_settings()))')
        p = subprocess.run([sys.executable, '-c', code, os.environ.get('VERIF_REPO', '/repo'), os.path.dirname(os.path.dirname(os.path.dirname(os.path.abspath(__file__))))],
                           capture_output=True, text=True, timeout=300)
        _FRESH[0] = json.loads(p.stdout.strip().splitlines()[-1]) if p.returncode == 0 and p.stdout.strip() else False
    return _FRESH[0]


def module_state():
    """fingerprint of module-level tables the library shares across calls."""
    import regions
    from regions.core.registry import RegionsRegistry
    from regions.io.ds9 import core as dcore, meta as dmeta
    from regions.io.crtf import core as ccore, io_core as cio, read as cread
    from regions.io.fits import core as fcore
    h = hashlib.blake2b(digest_size=12)

    def add(o, depth=0):
        if isinstance(o, dict):
            h.update(b'{')
            for k, v in o.items():
                h.update(repr(k).encode() if not isinstance(k, tuple) else repr(tuple(getattr(x, '__name__', x) for x in k)).encode())
                add(v, depth + 1)
            h.update(b'}')
        elif isinstance(o, (list, tuple)):
            h.update(b'[')
            for v in o:
                add(v, depth + 1)
            h.update(b']')
        elif isinstance(o, (str, int, float, bool, type(None))):
            h.update(repr(o).encode())
        elif isinstance(o, type) or callable(o):
            h.update(getattr(o, '__qualname__', type(o).__name__).encode())
        else:
            h.update(type(o).__name__.encode())
    add(RegionsRegistry.registry)
    for mod in (dcore, dmeta, ccore, cio, fcore):
        for name in sorted(vars(mod)):
            v = getattr(mod, name)
            if isinstance(v, (dict, list, tuple)) and not name.startswith('__'):
                h.update(name.encode())
                add(v)
    add(cread._CRTFParser.__dict__.get('coordsys_mapping', {}))
    add({k: (v if isinstance(v, list) else type(v).__name__) for k, v in cread._CRTFRegionParser.language_spec.items()} if hasattr(cread, '_CRTFRegionParser') and hasattr(cread._CRTFRegionParser, 'language_spec') else {})
    for cls in (regions.RegionMeta, regions.RegionVisual):
        add(cls.valid_keys)
        add(cls.key_mapping)
    # every class-level container of the metadata and region classes (lists of keys to drop, templates, ...): shared by all instances
    import importlib
    _md = importlib.import_module('regions.core.metadata')
    classes = [_md.Meta, regions.RegionMeta, regions.RegionVisual] + [getattr(regions, n) for n in dir(regions)
                                                                      if isinstance(getattr(regions, n), type) and n.endswith('Region')]
    for cls in classes:
        for name in sorted(vars(cls)):
            v = vars(cls)[name]
            if isinstance(v, (list, dict, set, tuple, frozenset)) and not name.startswith('__'):
                h.update(f'{cls.__name__}.{name}'.encode())
                add(sorted(v, key=repr) if isinstance(v, (set, frozenset)) else v)
    # process-wide settings of the libraries underneath: an operation that changes one of them changes what later, unrelated calls
    # return (number formatting, unit conversions, floating-point error handling, random streams, plotting defaults)
    import decimal
    import locale
    import random as _random
    import astropy.units as u
    h.update(repr(sorted(np.get_printoptions().items(), key=lambda kv: kv[0])).encode())
    h.update(repr(sorted(np.geterr().items())).encode())
    reg = u.get_current_unit_registry()
    h.update(repr([repr(e) for e in reg.equivalencies]).encode() + repr(len(reg.all_units)).encode())
    h.update(repr(decimal.getcontext()).encode() + repr(locale.getlocale()).encode() + os.getcwd().encode())
    h.update(repr(np.random.get_state()[1][:8].tolist()).encode() + repr(_random.getstate()[1][:4]).encode())
    if True:
        import matplotlib
        h.update(repr(sorted((k, repr(v)) for k, v in matplotlib.rcParams.items())).encode())
    return h.hexdigest()


def rfp(o):
    """fingerprint of a result (handles tables, artists, masks, lists)."""
    try:
        from astropy.table import Table
        if isinstance(o, Table):
            h = hashlib.blake2b(digest_size=12)
            for name in o.colnames:
                col = o[name]
                h.update(name.encode() + str(col.dtype).encode() + str(getattr(col, 'unit', None)).encode())
                h.update(repr((getattr(col, 'description', None), getattr(col, 'format', None), sorted(getattr(col, 'meta', {}) or {}))).encode())
                h.update(np.ascontiguousarray(np.asarray(col)).tobytes() if np.asarray(col).dtype != object else repr(list(col)).encode())
            h.update(repr(sorted((k, repr(v)) for k, v in (o.meta or {}).items())).encode())
            return 'table:' + h.hexdigest()
        import matplotlib.artist as mart
        if isinstance(o, mart.Artist):
            return 'artist:' + artist_fp(o)
    except ImportError:
        pass
    if isinstance(o, BaseException):
        return 'raised:' + type(o).__name__
    if isinstance(o, (list, tuple)) and o and not isinstance(o[0], (int, float, str)):
        return 'seq:' + ','.join(rfp(x) for x in o)
    return S.fingerprint(o)


def artist_fp(a):
    import matplotlib.patches as mp
    import matplotlib.lines as ml
    import matplotlib.text as mt
    h = hashlib.blake2b(digest_size=12)
    h.update(type(a).__name__.encode())
    if isinstance(a, mp.Patch):
        p = a.get_patch_transform().transform_path(a.get_path())
        h.update(np.ascontiguousarray(p.vertices).tobytes())
        h.update(repr((a.get_edgecolor(), a.get_facecolor(), a.get_linewidth(), a.get_fill(), a.get_linestyle())).encode())
    elif isinstance(a, ml.Line2D):
        h.update(np.ascontiguousarray(a.get_xydata()).tobytes())
        h.update(repr((a.get_marker() if isinstance(a.get_marker(), str) else 'path', a.get_markersize(), a.get_markeredgecolor())).encode())
    elif isinstance(a, mt.Text):
        h.update(repr((a.get_position(), a.get_text(), a.get_rotation(), a.get_color(), a.get_fontsize())).encode())
    return h.hexdigest()


def edit_result(res):
    """edit mutable parts of a returned object in place (regions' meta/visual, tag lists)."""
    import regions
    items = res if isinstance(res, (list, tuple)) else [res]
    for r in items:
        if isinstance(r, regions.Region) and not type(r).__name__.startswith('Compound'):
            try:
                for k, v in list(dict.items(r.meta)):
                    if isinstance(v, list):
                        v.append('edited')
                r.meta['select'] = 0
                r.visual['color'] = 'edited'
            except Exception:
                pass


def do_op(pool, op):
    """Execute one operation on the pool; returns (family, result)."""
    import astropy.units as u
    from regions import PixCoord, Regions, RegionBoundingBox
    name = op['op']
    prng = random.Random(op['k'])
    pix = pool.pix[op['i'] % len(pool.pix)]
    sky = pool.sky[op['j'] % len(pool.sky)]
    with warnings.catch_warnings():
        warnings.simplefilter('ignore')
        if name == 'contains':
            return name, pix.contains(pool.coords[op['j'] % len(pool.coords)])
        if name == 'in':
            return name, (pool.coords[1] in pix)
        if name == 'sky-contains':
            return name, sky.contains(pool.skycoords[op['i'] % 2], pool.wcs)
        if name == 'to_mask':
            mode = prng.choice(['center', 'subpixels', 'exact'])
            try:
                return name, pix.to_mask(mode=mode, subpixels=prng.randint(1, 5))
            except NotImplementedError as e:
                return name, e
        if name == 'area':
            try:
                return name, pix.area
            except NotImplementedError as e:
                return name, e
        if name == 'bounding_box':
            return name, pix.bounding_box
        if name == 'to_sky':
            return name, pix.to_sky(pool.wcs)
        if name == 'to_pixel':
            return name, sky.to_pixel(pool.wcs)
        if name == 'rotate':
            return name, pix.rotate(pool.coords[1], prng.uniform(-200, 200) * u.deg)
        if name == 'copy':
            r = prng.choice([pix, sky])
            if op['k'] % 3 == 0:
                # the other ways to get "the same, with changes": the Meta constructors with a mapping plus keyword overrides
                import regions as _regions
                # (shallow like dict(mapping): only the inputs' own state is watched, the result is not edited)
                return 'meta-ctor', (_regions.RegionMeta(r.meta, label='copy-with-override', include=0), _regions.RegionVisual(r.visual, color='magenta', linewidth=3),
                              _regions.RegionMeta(dict(r.meta), comment='from a plain dict'), r.copy(meta=_regions.RegionMeta(r.meta, select=0)))
            return name, r.copy()
        if name == 'combine':
            a, b = pix, pool.pix[op['j'] % len(pool.pix)]
            return name, prng.choice([lambda: a & b, lambda: a | b, lambda: a ^ b])()
        if name == 'as_artist':
            try:
                return name, pix.as_artist(origin=(prng.uniform(-3, 3), 1.0), **prng.choice([{}, {'color': 'red'}, {'lw': 2}]))
            except (ValueError, AttributeError, NotImplementedError) as e:
                return name, e
        if name == 'eq':
            # also against twins that differ only in whether an include entry is present at all
            tw = pix.copy()
            if 'include' in tw.meta:
                del tw.meta['include']
            else:
                tw.meta['include'] = True
            ts = sky.copy(meta=pool.metas[op['k'] % 2])
            return name, (pix == pool.pix[op['j'] % len(pool.pix)], sky == sky.copy(), pix == tw, tw == pix, pix != tw, sky == ts, ts != sky)
        if name == 'meta-arg':
            # constructors / copy() given the caller's own metadata objects; the regions are then used
            import regions as _rg
            m, v = pool.metas[op['k'] % 2], pool.metas[2]
            made = [pix.copy(meta=m, visual=v), sky.copy(meta=m), type(pix)(**{p: getattr(pix, p) for p in pix._params}, meta=m, visual=v)]
            if isinstance(pix, _rg.PixelRegion) and type(pix).__name__ != 'CompoundPixelRegion':
                made.append(_rg.CompoundPixelRegion(pix, pool.pix[op['j'] % len(pool.pix)], prng.choice([S._OPS['and'], S._OPS['or']]), meta=m, visual=v))
            out = []
            for r in made:
                try:
                    out.append((r.contains(pool.coords[0]) if isinstance(r, _rg.PixelRegion) else None, r.bounding_box if isinstance(r, _rg.PixelRegion) else None))
                except Exception as e:
                    out.append(type(e).__name__)
            return name, (made, out)
        if name == 'repr':
            return name, (repr(pix), str(sky))
        if name in ('serialize', 'write', 'parse', 'read'):
            fmt = prng.choice(['ds9', 'crtf', 'fits'])
            lst = pool.lists[op['j'] % len(pool.lists)]
            single = prng.random() < 0.3
            target = prng.choice(lst.regions) if (single and len(lst)) else lst
            kw = {}
            if fmt == 'ds9':
                kw = prng.choice([{}, {'precision': prng.randint(1, 10)}])
            elif fmt == 'crtf':
                kw = prng.choice([{}, {'fmt': '.4f'}, {'radunit': 'arcsec'}, {'coordsys': 'galactic'}])
            elif fmt == 'fits' and name == 'write' and op['k'] % 2:
                # the optional header argument is an input too (a fits.Header or a plain dict, with only some of the standard cards)
                from astropy.io import fits as _afits
                if op['k'] % 4 == 1:
                    hdr = _afits.Header()
                    hdr['EXTNAME'] = 'REGION'
                    hdr['OBSERVER'] = 'vmon'
                else:
                    hdr = {'EXTNAME': 'REGION', 'HDUCLASS': 'ASC', 'OBSERVER': 'vmon'}
                kw = {'header': hdr}
            if name == 'serialize':
                try:
                    res = target.serialize(format=fmt, **kw)
                except Exception as e:           # e.g. mixed pixel/sky lists in crtf: raising is fine, mutating is not
                    return name, e
                if not isinstance(res, BaseException):
                    pool.texts[fmt] = res
                return name, res
            if name == 'write':
                # a handful of destinations, so that later writes meet files left by earlier ones
                path = os.path.join(pool.workdir, f'w{op["k"] % 3}.' + {'ds9': 'reg', 'crtf': 'crtf', 'fits': 'fits'}[fmt])
                was = open(path, 'rb').read() if os.path.exists(path) else None
                hdr_fp = repr(kw['header']) if 'header' in kw else None
                try:
                    target.write(path, format=fmt, overwrite=True, **kw)
                    if hdr_fp is not None and repr(kw['header']) != hdr_fp:
                        return name, RuntimeError('HEADER-ARGUMENT-MUTATED')
                except Exception as e:
                    now = open(path, 'rb').read() if os.path.exists(path) else None
                    if now != was:
                        return name, RuntimeError('FAILED-WRITE-TOUCHED-DESTINATION')
                    return name, e
                pool.files[fmt] = path
                if op['k'] % 8 == 1 or (fmt == 'fits' and op['k'] % 4 == 1):
                    # the same write a moment later (the wall clock has moved on to another second): the same file
                    import time
                    first = open(path, 'rb').read()
                    t0 = int(time.time())
                    while int(time.time()) == t0:
                        time.sleep(0.05)
                    target.write(path + '.again', format=fmt, overwrite=True, **kw)
                    pool.notes['writes-repeated-in-another-second'] += 1
                    again = open(path + '.again', 'rb').read()
                    os.remove(path + '.again')
                    if again != first:
                        return name, RuntimeError('WRITE-DEPENDS-ON-THE-CLOCK')
                return name, open(path, 'rb').read()          # the file written is the result (for every format: byte for byte)
            if name == 'parse':
                # the input of a parse never depends on earlier operations of the history
                if fmt == 'fits' or op['k'] % 2:
                    try:
                        data = target.serialize(format=fmt, **kw)
                    except Exception as e:
                        return name, e
                else:
                    data = DOCS[fmt]
                if fmt == 'fits' and op['k'] % 4 < 2 and len(data):
                    # a table as a user (or another program) would hand it over: shape names in upper / mixed case, described columns
                    from astropy.table import Column
                    names = [str(v).upper() if i % 2 else str(v).capitalize() for i, v in enumerate(data['SHAPE'])]
                    data.replace_column('SHAPE', Column(names, name='SHAPE', description='shape of the region'))
                    data['X'].description = 'x positions'
                    data.meta['ORIGIN'] = 'user'
                if fmt == 'fits' and op['k'] % 8 in (2, 5) and len(data):
                    # the table as the caller read it from a FITS file with astropy (columns in FITS byte order, views of the file's records)
                    from astropy.table import QTable
                    tpath = os.path.join(pool.workdir, 'user-table.fits')
                    data.write(tpath, format='fits', overwrite=True)
                    data = QTable.read(tpath)
                    pool.notes['tables-read-from-a-fits-file-by-the-caller'] += 1
                try:
                    tfp = rfp(data) if fmt == 'fits' else None
                    out = Regions.parse(data, format=fmt).regions
                    if tfp is not None and rfp(data) != tfp:
                        return name, RuntimeError('INPUT-TABLE-MUTATED')
                    return name, out
                except Exception as e:
                    return name, e
            if name == 'read':
                path = pool.files.get(fmt)
                if path is None:
                    return name, None
                try:
                    return name, Regions.read(path, format=fmt).regions
                except Exception as e:
                    return name, e
        if name == 'regions-list':
            lst = pool.lists[op['j'] % len(pool.lists)]
            n = len(lst)
            return name, (lst[0:n // 2].regions, lst.copy().regions, len(lst), lst[n - 1] if n else None)
        if name == 'mask-apply':
            if op['k'] % 2 and pool.masks:
                # a long-lived RegionMask applied again and again (with and without a data mask)
                m = pool.masks[op['i'] % len(pool.masks)]
                jj = op['j'] % 2
                img, dm = pool.images[jj], (pool.datamasks[jj] if op['k'] % 3 else None)
                return name, (m.get_values(img, mask=dm), m.multiply(img), m.get_values(img), m.cutout(img), m.to_image(img.shape))
            try:
                m = pix.to_mask(mode='center')
            except NotImplementedError as e:
                return name, e
            img = pool.images[op['j'] % 4]
            if op['j'] % 4 == 3:
                pool.notes['mask-applied-to-masked-image'] += 1
            return name, (m.to_image(img.shape), m.cutout(img, fill_value=prng.choice([0, np.nan]), copy=prng.random() < 0.5),
                          m.multiply(img), m.get_values(img))
        if name == 'pixcoord':
            c = pool.coords[op['j'] % len(pool.coords)]
            return name, (c + pool.coords[1], c - pool.coords[1], c.separation(pool.coords[1]), c.rotate(pool.coords[1], 33 * u.deg),
                          c.to_sky(pool.wcs), c.copy(), c == c)
        if name == 'bbox-ops':
            b1, b2 = pix.bounding_box, pool.pix[op['j'] % len(pool.pix)].bounding_box
            return name, (b1 | b2, b1 & b2, b1.get_overlap_slices((50, 60)), b1.extent, b1.center, b1.shape, b1.to_region())
    raise ValueError(name)


DOCS = {
    'ds9': ('# Region file format: DS9\nglobal color=blue width=2 select=0\nfk5\ncircle(10:00:00,+20:00:00,30") # text={A} tag={t1}\n'
            '-ellipse(150.1,20.1,10",20",30) # color=red\nimage\nbox(10,20,5,6,40)\n# composite(5,5,0) || composite=1 select=0\ncircle(5,5,2) ||\npoint(7,8) # point=x\n'
            'galactic; polygon(10,20,11,20,11,21)\n'),
    # every shape, in pixel, decimal-degree and sexagesimal notation (two polygons: any per-shape parser state is visited twice)
    'ds9b': ('image\ncircle(1,2,3)\nannulus(4,5,1,2,3)\nphysical\nicrs; text(10,20) # text={hello}\nline(1,2,3,4)\n'
             'fk5\npolygon(10:00:00,+20:00:00,10:00:10,+20:00:00,10:00:10,+20:01:00)\n'
             'ellipse(10:00:00,+20:00:00,10",20",30)\nbox(10:00:00,-20:00:00,10",20",30)\nannulus(10:00:00,+20:00:00,10",20")\n'
             'line(10:00:00,+20:00:00,10:00:10,+20:00:10)\npoint(10:00:00,+20:00:00) # point=cross\ntext(10:00:00,+20:00:00) # text={t}\n'
             'ellipse(10:00:00,+20:00:00,10",20",20",40",30)\nbox(150.0,20.0,10",20",20",40",30)\n'
             'fk4; polygon(10:00:00,+20:00:00,10:00:10,+20:00:00,10:00:10,+20:01:00,10:00:05,+20:02:00)\n'
             'galactic; polygon(10:00:00,+20:00:00,10:10:00,+20:00:00,10:10:00,+20:10:00)\n'
             'image; polygon(1,2,3,4,5,1)\n'),
    'crtf': ('#CRTFv0\nglobal coord=J2000, color=blue\ncircle[[18h12m24s, -23d11m00s], 2.3arcsec], label=\'x\'\n'
             '-ellipse[[12deg, 5deg], [2arcmin, 1arcmin], 30deg], coord=GALACTIC\nann rotbox[[10pix, 20pix], [5pix, 6pix], 10deg], coord=image\n'),
    'crtfb': ('#CRTFv0\npoly[[1pix,2pix],[3pix,4pix],[5pix,1pix]], coord=image\nsymbol[[2deg, 3deg], .]\n'
              'poly[[18h12m24s, -23d11m00s], [18h12m25s, -23d11m00s], [18h12m25s, -23d10m00s]]\n'
              'poly[[10deg, 20deg], [11deg, 20deg], [11deg, 21deg], [10deg, 21deg]], coord=GALACTIC\n'
              'annulus[[17h51m03.2s, -45d17m50s], [0.10deg, 4.12deg]]\nbox[[18h12m24s, -23d11m00s], [18h12m20s, -23d10m00s]]\n'
              'centerbox[[10deg, 20deg], [2arcmin, 1arcmin]]\nline[[10deg, 20deg], [11deg, 21deg]]\ntext[[10deg, 20deg], \'my text\']\n'),
    'fits': 'n/a',
}


def run_case(case, obs):
    from regions import Regions
    workdir = tempfile.mkdtemp(prefix='vmon-c13-')
    try:
        if _MS_INITIAL[0] is None:
            _MS_INITIAL[0] = module_state()          # before the first region of this process exists
        pool = Pool(case['pool'], workdir)
        ms0 = module_state()
        # whatever happened since the process started (constructions, conversions, reprs in between the monitored operations):
        # the process-wide state is still the one the process started with
        fresh = fresh_process_settings()
        if fresh:
            now = process_wide_settings()
            diff = [k for k in fresh if fresh[k] != now[k]]
            obs.check(not diff, 'module-state-changed:since-process-start',
                      f'process-wide settings {diff} differ from those of a fresh interpreter: {[(now[k], fresh[k]) for k in diff][:2]}', 'module-state-unchanged')
        else:
            obs.count('fresh-settings-unavailable')
        obs.check(ms0 == _MS_INITIAL[0], 'module-state-changed:since-process-start',
                  'module-level / process-wide state (library tables, NumPy print options, unit registry, ...) differs from what it was when the '
                  'process started', 'module-state-unchanged')
        for op in case['ops']:
            before = pool.fingerprints()
            try:
                fam, res = do_op(pool, op)
            except Exception as exc:
                # the exception is judged by the properties that own the operation; here only mutation matters
                fam, res = op['op'], exc
                obs.count('op-raised:' + op['op'])
            obs.count('op:' + fam)
            for nk, nv in pool.notes.items():
                obs.count(nk, nv)
            pool.notes.clear()
            if isinstance(res, RuntimeError) and str(res) == 'INPUT-TABLE-MUTATED':
                obs.violation('input-mutated:parse', f'operation {op}: Regions.parse changed the FITS table it was given')
            if isinstance(res, RuntimeError) and str(res) == 'HEADER-ARGUMENT-MUTATED':
                obs.violation('input-mutated:write', f'operation {op}: write(format="fits", header=h) changed the header object it was given')
            if isinstance(res, RuntimeError) and str(res) == 'WRITE-DEPENDS-ON-THE-CLOCK':
                obs.violation('not-deterministic:write', f'operation {op}: the same write repeated in the next second produced a different file')
            if isinstance(res, RuntimeError) and str(res) == 'FAILED-WRITE-TOUCHED-DESTINATION':
                obs.violation('failed-write-leaves-trace', f'operation {op}: a write that raised created / changed the destination file (later calls see it)')
            after = pool.fingerprints()
            changed = [k for k in before if before[k] != after[k]]
            if changed:
                key = 'input-mutated:' + fam
                detail = changed[:3]
                k0 = changed[0]
                obs.violation(key, f'operation {op} changed {detail} (bit-level fingerprint of the pool before/after)')
                # rebuild the pool so that later operations are judged on their own
                pool = Pool(case['pool'], workdir)
            else:
                obs.ok(1, 'inputs-unchanged')
            ms = module_state()
            obs.check(ms == ms0, 'module-state-changed:' + fam, f'operation {op} changed module-level state of the library', 'module-state-unchanged')
            ms0 = ms
            # determinism: the same operation again gives an equal result - even after the first result was edited in place
            # (a result must not be a live view of something the library keeps)
            if fam not in ('write',) and not isinstance(res, BaseException):
                try:
                    f1 = rfp(res)
                    ch2 = []
                    if fam in ('parse', 'read', 'to_sky', 'to_pixel', 'rotate', 'copy'):      # results that must be independent objects
                        edit_result(res)
                        after2 = pool.fingerprints()
                        ch2 = [k for k in before if before[k] != after2[k]]
                    if ch2:
                        obs.violation('result-aliases-input:' + fam, f'editing the result of {op} in place changed {ch2[:3]}')
                        pool = Pool(case['pool'], workdir)
                    fam2, res2 = do_op(pool, op)
                    obs.check(f1 == rfp(res2), 'not-deterministic:' + fam, f'operation {op} gave a different result when repeated', 'deterministic')
                except Exception as exc:
                    obs.violation('not-deterministic:' + fam, f'operation {op} succeeded, then raised {type(exc).__name__} when repeated')
        # parsing B after A equals parsing B alone
        for fmt, a, b in (('ds9', DOCS['ds9'], DOCS['ds9b']), ('crtf', DOCS['crtf'], DOCS['crtfb'])):
            with warnings.catch_warnings():
                warnings.simplefilter('ignore')
                Regions.parse(a, format=fmt)
                rb = Regions.parse(b, format=fmt).regions
                alone = expected_alone(fmt)
                obs.check(rfp(rb) == alone, 'parse-depends-on-previous-parse:' + fmt,
                          f'parsing a {fmt} text after another text gives different regions than in a fresh interpreter', 'parse-independent-of-previous-parse')
        # probes vs fresh interpreter
        if case['fresh']:
            here = probe_results(pool, case['probes'])
            fresh = run_fresh(case)
            if fresh is None:
                obs.count('fresh-interpreter-failed')
            else:
                for i, (h_, f_) in enumerate(zip(here, fresh)):
                    obs.check(h_ == f_, 'history-dependent-result:' + case['probes'][i]['op'],
                              f'probe {case["probes"][i]} gives a different result after the history than first thing in a fresh interpreter', 'fresh-interpreter')
    finally:
        shutil.rmtree(workdir, ignore_errors=True)


PARSE_ALONE = {}
_ALONE_CACHE = {}


def expected_alone(fmt):
    """fingerprint of parsing document B first thing in a fresh interpreter (cached per worker)."""
    if fmt not in _ALONE_CACHE:
        code = ("import sys, warnings; sys.path.insert(0, sys.argv[1]); warnings.simplefilter('ignore')\n"
                "from vmon.worker import setup_paths; setup_paths()\n"
                "from vmon.checks import c13\nfrom regions import Regions\n"
                f"print(c13.rfp(Regions.parse(c13.DOCS[{fmt + 'b'!r}], format={fmt!r}).regions))\n")
        verif = os.path.dirname(os.path.dirname(os.path.dirname(os.path.abspath(__file__))))
        p = subprocess.run([sys.executable, '-c', code, verif], capture_output=True, text=True, timeout=300, env=dict(os.environ))
        _ALONE_CACHE[fmt] = p.stdout.strip().splitlines()[-1] if p.returncode == 0 and p.stdout.strip() else 'fresh-failed:' + p.stderr[-300:]
    return _ALONE_CACHE[fmt]


def probe_results(pool, probes):
    out = []
    for op in probes:
        try:
            fam, res = do_op(pool, op)
            out.append(rfp(res))
        except Exception as exc:
            out.append('raised:' + type(exc).__name__)
    return out


def run_fresh(case):
    """evaluate the probes first thing in a fresh interpreter."""
    verif = os.path.dirname(os.path.dirname(os.path.dirname(os.path.abspath(__file__))))
    fd, path = tempfile.mkstemp(suffix='.json', prefix='vmon-c13-case-')
    os.close(fd)
    try:
        json.dump({'pool': case['pool'], 'probes': case['probes']}, open(path, 'w'))
        p = subprocess.run([sys.executable, '-m', 'vmon.checks.c13', path], cwd=verif, capture_output=True, text=True, timeout=600,
                           env=dict(os.environ))
        if p.returncode != 0:
            return None
        return json.loads(p.stdout.strip().splitlines()[-1])
    except Exception:
        return None
    finally:
        os.unlink(path)


def _fresh_main(path):
    from vmon.worker import setup_paths
    setup_paths()
    warnings.simplefilter('ignore')
    case = json.load(open(path))
    workdir = tempfile.mkdtemp(prefix='vmon-c13f-')
    try:
        pool = Pool(case['pool'], workdir)
        print(json.dumps(probe_results(pool, case['probes'])))
    finally:
        shutil.rmtree(workdir, ignore_errors=True)


if __name__ == '__main__':
    _fresh_main(sys.argv[1])


MUTANTS = [
    ('ds9-ellipse-halving-in-place', 'regions/io/ds9/write.py', "            value = deepcopy(value) / 2.0  # semi-axis lengths", "            value /= 2.0  # semi-axis lengths"),
    ('ds9-meta-edited-in-place', 'regions/io/ds9/meta.py', "    meta = {**region.meta, **region.visual}\n", "    meta = region.meta\n    meta.update(region.visual)\n"),
    ('crtf-include-popped-again', 'regions/io/crtf/io_core.py', "        include = region.meta.get('include', True)", "        include = region.meta.pop('include', True)"),
    ('circle-to_sky-meta-not-copied', 'regions/shapes/circle.py', "        return CircleSkyRegion(center, radius, meta=self.meta.copy(),\n                               visual=self.visual.copy())",
     "        self.meta.setdefault('comment', 'converted')\n        return CircleSkyRegion(center, radius, meta=self.meta.copy(),\n                               visual=self.visual.copy())"),
    ('fits-serialize-halves-ellipse-in-place', 'regions/io/fits/write.py', "    for param in region._params:\n        value = getattr(region, param)\n        if param in ('center', 'vertices'):",
     "    for param in region._params:\n        value = getattr(region, param)\n        if shape == 'ellipse' and param == 'width':\n            region.width = region.width * 1.0000001\n        if param in ('center', 'vertices'):"),
    ('ds9-parser-global-meta-leaks', 'regions/io/ds9/read.py', "    global_meta = {}\n    composite_meta = ''", "    global_meta = globals().setdefault('_LEAK', {})\n    composite_meta = ''"),
    ('mask-multiply-writes-image', 'regions/core/mask.py', "weighted_cutout = cutout * self.data", "cutout *= self.data.astype(cutout.dtype); weighted_cutout = cutout"),
    ('registry-mutated-by-serialize', 'regions/core/registry.py', "        return serializer(regions, **kwargs)", "        cls.registry[(classobj, 'serialize', str(format).upper())] = serializer\n        return serializer(regions, **kwargs)"),
    ('rotate-adds-meta', 'regions/shapes/ellipse.py', "        center = self.center.rotate(center, angle)\n        angle = self.angle + angle\n        return self.copy(center=center, angle=angle)",
     "        center = self.center.rotate(center, angle)\n        angle = self.angle + angle\n        self.visual['rotation'] = 0\n        return self.copy(center=center, angle=angle)"),
    ('artist-cached-on-first-call', 'regions/shapes/circle.py', "        return Circle(xy=xy, radius=radius, **mpl_kwargs)", "        if not hasattr(type(self), '_cache'):\n            type(self)._cache = Circle(xy=xy, radius=radius, **mpl_kwargs)\n        return type(self)._cache"),
]
