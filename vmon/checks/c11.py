"""C11 - CRTF text round-trips and is read according to the CASA conventions.

Two sides.

(a) Round trip.  Regions built from JSON specs (all eight CRTF-representable
    classes, sky regions given in any of six sky frames incl. non-default
    equinoxes, pixel regions for ``image``) are serialised with every
    combination of ``coordsys`` / ``fmt`` / ``radunit`` and metadata, parsed
    back with the real parser and compared with values the harness derives
    itself: ``SkyCoord.transform_to`` for positions, ``Quantity.to`` for sizes;
    tolerance = half a unit of the last digit ``fmt`` prints, in the printed
    unit, + 4 eps |v|.  Then the parsed regions are serialised and parsed once
    more (fixed point, exact in the stable-decimal regime, one unit otherwise).
    The text itself is never judged - only what ``Regions.parse`` makes of it.

(b) Reading.  A grammar produces CRTF documents (global lines, comments,
    region lines in degree / sexagesimal / pix / rad notations) together with
    the expected regions, which follow from the CASA rules quoted in the
    property statement; the real parser's output is compared with that model.
    Every parsed region is additionally pushed through side (a), which is how
    text and symbol regions with real content get round-tripped.

When the serialiser's output is unreadable because of one of the already
isolated defects, the harness records the defect under its mechanism key,
applies the *textual* repair that characterises the mechanism (e.g. ``"`` ->
``arcsec``) and keeps judging the repaired text, so that a known defect does
not hide e.g. an axis swap in the same line.
"""
import copy
import itertools
import math
import os
import re
import shutil
import tempfile
from decimal import Decimal

import numpy as np

from vmon import spec as S

ID = 'C11'
LEVEL = 'exploration'
TECHNIQUE = ('runtime oracle: (a) serialise->parse round trip judged against harness-side SkyCoord.transform_to / unit '
             'conversion with the half-unit-of-fmt tolerance, plus parse(ser(parse(ser(R)))) fixed point; '
             '(b) generator model of the CASA reading rules compared with Regions.parse on grammar-generated documents')
RULE = ('rt-sky/rt-pix cases = (list of 1..5 region specs over circle/annulus/ellipse/rotbox/poly/line/text/symbol, source '
        'frames fk5/fk4/icrs/galactic/supergalactic/geocentrictrueecliptic incl. non-default equinox, or pixel) x coordsys x fmt '
        '(.1f-.12f, few .Ne/.Ng/+.Nf) x radunit (deg/arcmin/arcsec/rad; pix/default for image) x meta (label, color, linewidth, '
        'range, corr, frame, veltype, restfreq, type, include, symbol, misc visual) x Region/Regions/file API; read cases = '
        'documents of 1..8 region lines + global/comment/blank lines from the CRTF grammar; read-err = one length without unit; '
        'non-trivial = >=1 judged comparison')
ASSUMPTIONS = [
    'astropy SkyCoord.transform_to, Quantity.to and Quantity(str) are the trusted reference for frames and units',
    'serialised text is judged only through Regions.parse / Regions.read of the library under test',
    'ellipse/rectangle geometry is compared up to the (w,h,angle) ~ (h,w,angle+-90) and angle mod 180 equivalences',
    'a sky "box" given by two corners is judged on class, frame, centre and height; its width is accepted anywhere between '
    '|dlon|*cos(lat) and |dlon| (the statement only says it becomes a rectangle)',
    'metadata values are compared after str()/Quantity normalisation and regardless of whether they sit in meta or visual',
]

# switches for the borderline parts of the domain (see the final report)
INCLUDE_EXPONENT_FMT = True
INCLUDE_HOSTILE_LABELS = True

EPS = np.finfo(float).eps

SKY_FRAMES = ['fk5', 'fk4', 'icrs', 'galactic', 'supergalactic', 'geocentrictrueecliptic']
CRTF_NAME = {'fk5': 'J2000', 'fk4': 'B1950', 'icrs': 'ICRS', 'galactic': 'GALACTIC', 'supergalactic': 'SUPERGAL',
             'geocentrictrueecliptic': 'ECLIPTIC', 'image': 'IMAGE'}
UNIT_DEG = {'deg': 1.0, 'arcmin': 1 / 60.0, 'arcsec': 1 / 3600.0, 'rad': 180.0 / math.pi}
SYMBOLS = ['.', ',', 'o', 'v', '^', '<', '>', '1', '2', '3', '4', 's', 'p', '*', 'h', 'H', '+', 'x', 'D', 'd', '|', '_']

# mechanism keys of defects isolated while building this check
K_POINT = 'point-without-symbol-written-as-point-keyword'
K_ARCSEC = 'radunit-arcsec-quote-suffix-unreadable-in-length-pair'
K_IMGDEG = 'image-poly-line-coordinates-written-as-deg'
K_EXP = 'exponent-notation-unreadable'
K_TEXT = 'text-region-string-taken-from-meta-not-attribute'
K_LABEL = 'label-special-char-truncated'


def budget(tier):
    return 35 if tier == "quick" else 420


def shards(tier):
    return 16


def required_counters(tier):
    k = 1 if tier == 'quick' else 10
    return {'judged:rt-geometry': 1500 * k, 'judged:rt-class': 600 * k, 'judged:rt-include': 600 * k,
            'judged:rt-type': 600 * k, 'judged:rt-label': 400 * k, 'judged:rt-meta': 600 * k,
            'judged:fixed-point': 600 * k, 'judged:read-count': 200 * k, 'judged:read-class': 600 * k,
            'judged:read-geometry': 2000 * k, 'judged:read-include': 600 * k, 'judged:read-type': 600 * k,
            'judged:read-meta': 1500 * k, 'judged:read-unitless-error': 60 * k,
            'rt-class:circle': 50, 'rt-class:annulus': 50, 'rt-class:ellipse': 50, 'rt-class:rotbox': 50,
            'rt-class:poly': 50, 'rt-class:line': 50, 'rt-class:text': 50, 'rt-class:symbol': 50,
            'read-shape:box': 20, 'read-shape:centerbox': 20, 'read-shape:rotbox': 20, 'read-shape:ellipse': 20,
            'read-shape:symbol': 20, 'read-shape:text': 20, 'read-shape:poly': 20, 'read-shape:line': 20,
            'read-global-override': 50, 'read-inline-coord-over-global': 50,
            **{'rt-coordsys:' + f: 40 for f in SKY_FRAMES + ['image']},
            **{'rt-radunit:' + r: 40 for r in ('deg', 'arcmin', 'arcsec', 'rad', 'pix')}}


# ===========================================================================
# small numeric helpers
def logu(rng, lo, hi):
    return math.exp(rng.uniform(math.log(lo), math.log(hi)))


def parse_fmt(fmt):
    m = re.fullmatch(r'(\+?)\.(\d+)([feg])', fmt)
    if not m:
        raise ValueError(f'harness: unsupported fmt {fmt!r}')
    return m.group(1), int(m.group(2)), m.group(3)


def half_unit(v, fmt):
    """half a unit of the last digit that ``format(v, fmt)`` carries."""
    _, n, typ = parse_fmt(fmt)
    if typ == 'f':
        return 0.5 * 10.0 ** (-n)
    if v == 0 or not math.isfinite(v):
        return 0.0
    s = format(v, fmt)
    d = Decimal(s)
    if d == 0:                       # cannot happen for e/g with v != 0
        return abs(v)
    x = d.adjusted()                 # exponent of the leading digit of the rounded value
    digits = n + 1 if typ == 'e' else max(n, 1)
    return 0.5 * 10.0 ** (x + 1 - digits)


def angdiff(a, b, period):
    return abs(((a - b + period / 2.0) % period) - period / 2.0)


def frame_class(name):
    from astropy.coordinates import frame_transform_graph
    return frame_transform_graph.lookup_name(name)


# ===========================================================================
# what the serialiser is expected to print / what came back
def _sky_lonlat(sc, frame, transform):
    if transform:
        sc = sc.transform_to(frame_class(frame)())
    sph = sc.represent_as('unitspherical') if transform else sc.spherical
    return np.atleast_1d(np.asarray(sph.lon.deg, dtype=float)), np.atleast_1d(np.asarray(sph.lat.deg, dtype=float))


def shape_name(reg):
    n = type(reg).__name__.replace('SkyRegion', '').replace('PixelRegion', '')
    return {'Circle': 'circle', 'CircleAnnulus': 'annulus', 'Ellipse': 'ellipse', 'Rectangle': 'rotbox', 'Polygon': 'poly',
            'Line': 'line', 'Text': 'text', 'Point': 'symbol'}.get(n, n)


def printed(reg, coordsys, radunit, transform):
    """-> dict with the numbers a CRTF line for ``reg`` carries, in the printed units.

    pos: list of (lon|x array, lat|y array); lens: list of floats in radunit (pixels for pixel regions);
    wha: (semi_or_full_w, semi_or_full_h, angle_deg) for ellipse/rectangle.
    """
    from regions import SkyRegion
    sky = isinstance(reg, SkyRegion)
    sh = shape_name(reg)

    def pos(c):
        if sky:
            return _sky_lonlat(c, coordsys, transform)
        return np.atleast_1d(np.asarray(c.x, dtype=float)), np.atleast_1d(np.asarray(c.y, dtype=float))

    def size(v):
        if sky:
            return float(v.to_value(radunit))
        return float(v)

    out = {'shape': sh, 'sky': sky, 'pos': [], 'lens': [], 'wha': None}
    if sh == 'circle':
        out['pos'] = [pos(reg.center)]
        out['lens'] = [size(reg.radius)]
    elif sh == 'annulus':
        out['pos'] = [pos(reg.center)]
        out['lens'] = [size(reg.inner_radius), size(reg.outer_radius)]
    elif sh == 'ellipse':
        out['pos'] = [pos(reg.center)]
        out['wha'] = (size(reg.width) / 2.0, size(reg.height) / 2.0, float(reg.angle.to_value('deg')))
    elif sh == 'rotbox':
        out['pos'] = [pos(reg.center)]
        out['wha'] = (size(reg.width), size(reg.height), float(reg.angle.to_value('deg')))
    elif sh == 'poly':
        out['pos'] = [pos(reg.vertices)]
    elif sh == 'line':
        out['pos'] = [pos(reg.start), pos(reg.end)]
    elif sh in ('text', 'symbol'):
        out['pos'] = [pos(reg.center)]
    else:
        raise ValueError(f'harness: unexpected region class {type(reg).__name__}')
    return out


def compare_geometry(exp, got, fmt, exact=False):
    """exp/got from printed(); -> (mismatches [(field, expected, got, tol)], number judged, number skipped).

    exact=True is the fixed-point comparison: the value being re-serialised is itself a printed decimal, so it
    is reproduced exactly unless the arithmetic noise of the second pass (same-frame transform_to: up to ~1e-13
    deg / cos(lat), measured) can reach the rounding boundary; those values are skipped, not judged.
    """
    bad = []
    n = 0
    skipped = 0

    def tol(v, amp=1.0):
        h = half_unit(v, fmt)
        base = 4 * EPS * abs(v)
        if not exact:
            return h + base
        stable = h >= 1e4 * EPS * max(abs(v), 1.0) * amp
        return base if stable else None

    def judge(field, e, g, t, diff):
        nonlocal n, skipped
        if t is None:
            skipped += 1
            return
        n += 1
        if not diff <= t:
            bad.append((field, e, g, t))

    if len(exp['pos']) != len(got['pos']):
        return [('npos', len(exp['pos']), len(got['pos']), 0)], 1, 0
    for i, ((ea, eb), (ga, gb)) in enumerate(zip(exp['pos'], got['pos'])):
        if ea.shape != ga.shape:
            bad.append((f'pos{i}.count', ea.shape, ga.shape, 0))
            n += 1
            continue
        for j in range(len(ea)):
            if exp['sky']:
                if exact and abs(eb[j]) > 89.9999:
                    t = None                # longitude is degenerate at the pole
                else:
                    amp = 1.0 / math.cos(math.radians(min(abs(eb[j]), 89.9999)))
                    t = tol(ea[j], amp)
                    if t is not None:
                        t += 4 * EPS * 360
                judge(f'pos{i}[{j}].lon', ea[j], ga[j], t, angdiff(ea[j], ga[j], 360.0))
            else:
                judge(f'pos{i}[{j}].x', ea[j], ga[j], tol(ea[j]), abs(ea[j] - ga[j]))
            judge(f'pos{i}[{j}].lat' if exp['sky'] else f'pos{i}[{j}].y', eb[j], gb[j], tol(eb[j]), abs(eb[j] - gb[j]))
    if len(exp['lens']) != len(got['lens']):
        bad.append(('nlens', len(exp['lens']), len(got['lens']), 0))
    else:
        for i, (e, g) in enumerate(zip(exp['lens'], got['lens'])):
            judge(f'len{i}', e, g, tol(e), abs(e - g))
    if (exp['wha'] is None) != (got['wha'] is None):
        bad.append(('wha', exp['wha'], got['wha'], 0))
    elif exp['wha'] is not None:
        (w, h, a), (gw, gh, ga) = exp['wha'], got['wha']
        tw, th, ta = tol(w), tol(h), tol(a)
        if tw is None or th is None or ta is None:
            skipped += 3
        else:
            n += 3
            ta += 8 * EPS * (abs(a) + abs(ga) + 360)
            direct = abs(w - gw) <= tw and abs(h - gh) <= th and angdiff(a, ga, 180.0) <= ta
            swapped = abs(w - gh) <= tw and abs(h - gw) <= th and angdiff(a + 90.0, ga, 180.0) <= ta
            if not (direct or swapped):
                if abs(w - gw) > tw or abs(h - gh) > th:
                    bad.append(('axes(w,h)', (w, h), (gw, gh), (tw, th)))
                if angdiff(a, ga, 180.0) > ta:
                    bad.append(('angle', a, ga, ta))
    return bad, n, skipped


# ===========================================================================
# metadata normalisation
META_KEYS = ['label', 'frame', 'veltype', 'restfreq', 'range', 'corr', 'color', 'linewidth', 'linestyle', 'symsize',
             'symthick', 'font', 'fontsize', 'fontstyle', 'usetex', 'labelpos']


def norm_value(key, v):
    import astropy.units as u
    if key == 'range':
        out = []
        for x in v:
            q = x if isinstance(x, u.Quantity) else u.Quantity(str(x))
            out.append((float(q.value), q.unit.to_string().replace(' ', '')))
        return out
    if key == 'corr':
        return [str(x).strip() for x in v]
    if key == 'restfreq':
        try:
            q = v if isinstance(v, u.Quantity) else u.Quantity(str(v))
            return (float(q.to_value('Hz')),)
        except Exception:
            return str(v).strip()
    return str(v).strip()


def meta_lookup(reg, key):
    if key in reg.visual:
        return True, reg.visual[key]
    if key in reg.meta:
        return True, reg.meta[key]
    return False, None


def same_norm(key, a, b):
    na, nb = norm_value(key, a), norm_value(key, b)
    if key == 'range':
        return len(na) == len(nb) and all(x[1] == y[1] and abs(x[0] - y[0]) <= 4 * EPS * abs(x[0]) for x, y in zip(na, nb))
    if key == 'restfreq' and isinstance(na, tuple) and isinstance(nb, tuple):
        return abs(na[0] - nb[0]) <= 8 * EPS * abs(na[0])
    return na == nb


def include_of(reg):
    return bool(reg.meta.get('include', True))


def type_of(reg):
    return reg.meta.get('type', 'reg') or 'reg'


# ===========================================================================
# textual repairs that characterise the known mechanisms
_RE_EXPNUM = re.compile(r'[-+]?\d+(?:\.\d+)?[eE][-+]?\d+')
_RE_POINT = re.compile(r'(?m)^([-+]?(?:ann )?)point\[\[([^\]]*)\]\]')
_RE_QUOTE_UNIT = re.compile(r'(?<=\d)"(?=[\],])')
_RE_POLYLINE = re.compile(r'(?m)^([-+]?(?:ann )?(?:poly|line)\[)([^=\n]*\])')


def _fix_exp(text):
    return _RE_EXPNUM.sub(lambda m: format(Decimal(m.group(0)), 'f'), text)


def _fix_point(text):
    return _RE_POINT.sub(lambda m: f'{m.group(1)}symbol[[{m.group(2)}], .]', text)


def _fix_arcsec(text):
    return _RE_QUOTE_UNIT.sub('arcsec', text)


def _fix_imgdeg(text):
    return _RE_POLYLINE.sub(lambda m: m.group(1) + m.group(2).replace('deg', 'pix'), text)


def applicable_repairs(text, regs, opts):
    reps = []
    if _RE_EXPNUM.search(text.split('\n', 2)[-1] if text.startswith('#CRTF') else text):
        reps.append((K_EXP, _fix_exp))
    if _RE_POINT.search(text) and any(shape_name(r) == 'symbol' and 'symbol' not in r.visual for r in regs):
        reps.append((K_POINT, _fix_point))
    if opts['radunit'] == 'arcsec' and _RE_QUOTE_UNIT.search(text) and any(shape_name(r) in ('ellipse', 'rotbox', 'annulus')
                                                                         for r in regs):
        reps.append((K_ARCSEC, _fix_arcsec))
    if opts['coordsys'] == 'image' and any(shape_name(r) in ('poly', 'line') for r in regs) and _RE_POLYLINE.search(text):
        reps.append((K_IMGDEG, _fix_imgdeg))
    return reps


# ===========================================================================
# the round-trip engine (side a; also used on parsed regions from side b)
def lib_serialize(regs, opts, tmpdir=None):
    from regions import Regions
    kw = {'coordsys': opts['coordsys'], 'fmt': opts['fmt']}
    if opts.get('radunit_given', True):
        kw['radunit'] = opts['radunit']
    api = opts.get('api', 'regions')
    if api == 'region' and len(regs) == 1:
        return regs[0].serialize(format='crtf', **kw)
    if api == 'file':
        path = os.path.join(tmpdir, 'c11.crtf')
        if not os.path.exists(path):
            # the destination already holds an older, much longer region file: overwriting replaces it completely
            with open(path, 'w') as fh:
                fh.write('#CRTFv0\n' + ''.join(f'circle[[{k}.5deg, -{k}.25deg], 0.{k}5deg], label=\'old {k}\', color=red\n' for k in range(1, 90)))
        Regions(regs).write(path, format='crtf', overwrite=True, **kw)
        with open(path) as fh:
            return fh.read()
    return Regions(regs).serialize(format='crtf', **kw)


def lib_parse(text, opts, tmpdir=None):
    from regions import Regions
    if opts.get('api') == 'file' and tmpdir is not None:
        path = os.path.join(tmpdir, 'c11-in.crtf')
        with open(path, 'w') as fh:
            fh.write(text)
        return list(Regions.read(path, format='crtf'))
    return list(Regions.parse(text, format='crtf'))


def evaluate_text(text, ref, opts, exact, tmpdir):
    """parse ``text`` and compare geometry with the reference regions.

    -> dict(parsed=list|None, exc=Exception|None, count_ok, geom=[(index, mismatches)], njudged)
    """
    try:
        parsed = lib_parse(text, opts, tmpdir)
    except Exception as exc:            # noqa: BLE001 - whatever the parser raises is the observation
        return {'parsed': None, 'exc': exc, 'clean': False}
    res = {'parsed': parsed, 'exc': None, 'count_ok': len(parsed) == len(ref), 'geom': [], 'njudged': 0, 'nskipped': 0, 'cls': []}
    if not res['count_ok']:
        res['clean'] = False
        return res
    for i, (r0, r1) in enumerate(zip(ref, parsed)):
        if type(r0) is not type(r1):
            res['cls'].append((i, type(r0).__name__, type(r1).__name__))
            continue
        from regions import SkyRegion
        if isinstance(r1, SkyRegion):
            c = getattr(r1, 'center', None)
            if c is None:
                c = getattr(r1, 'vertices', None)
            if c is None:
                c = r1.start
            if c.frame.name != opts['coordsys']:
                res['cls'].append((i, 'frame ' + opts['coordsys'], 'frame ' + c.frame.name))
                continue
        exp = printed(r0, opts['coordsys'], opts['radunit'], transform=not exact)
        got = printed(r1, opts['coordsys'], opts['radunit'], transform=False)
        bad, n, nskip = compare_geometry(exp, got, opts['fmt'], exact=exact)
        res['njudged'] += n
        res['nskipped'] += nskip
        if bad:
            res['geom'].append((i, bad))
    res['clean'] = not res['geom'] and not res['cls']
    return res


def roundtrip(obs, make_regions, opts, what, tmpdir=None, stage='rt', pre_repairs=()):
    """serialise -> parse -> compare (-> serialise -> parse -> compare exactly).

    ``make_regions()`` returns fresh live regions each time (the serialiser is known to edit the caller's meta).
    Returns the list of regions parsed back (or None).
    """
    exact = stage == 'fixed-point'
    ref = make_regions()
    regs = make_regions()
    names = [shape_name(r) for r in ref]
    try:
        text = lib_serialize(regs, opts, tmpdir)
    except Exception as exc:            # noqa: BLE001
        obs.violation(f'{stage}-serialize-error:{type(exc).__name__}',
                      f'serialize({names}, {opts}) raised {type(exc).__name__}: {exc}', regions=[repr(r) for r in ref])
        return None
    if not isinstance(text, str):
        obs.violation(f'{stage}-serialize-not-str', f'serialize returned {type(text).__name__}')
        return None
    if pre_repairs:
        # mechanisms already recorded for these regions in the first pass: repair silently
        for key, fix in applicable_repairs(text, ref, opts):
            if key in pre_repairs:
                text = fix(text)
                opts = dict(opts, api='regions')

    res = evaluate_text(text, ref, opts, exact, tmpdir)
    used = []
    if not res['clean']:
        reps = applicable_repairs(text, ref, opts)
        best_parse = None
        found = None
        for k in range(1, len(reps) + 1):
            for subset in itertools.combinations(reps, k):
                t2 = text
                for _, fix in subset:
                    t2 = fix(t2)
                r2 = evaluate_text(t2, ref, dict(opts, api='regions'), exact, tmpdir)
                if r2['clean']:
                    found = (subset, r2)
                    break
                if best_parse is None and r2['parsed'] is not None and r2.get('count_ok'):
                    best_parse = (subset, r2)
            if found:
                break
        pick = found or (best_parse if res['parsed'] is None or not res.get('count_ok') else None)
        if pick:
            subset, res2 = pick
            for key, _ in subset:
                used.append(key)
                obs.violation(key, f'{stage}: serialize({names}, coordsys={opts["coordsys"]}, fmt={opts["fmt"]}, '
                              f'radunit={opts["radunit"]}) is only read back correctly after the textual repair for this '
                              f'mechanism; original outcome: '
                              f'{type(res["exc"]).__name__ + ": " + str(res["exc"]) if res["exc"] else "wrong values"}',
                              text=text[:1500])
            res = res2

    if res['parsed'] is None:
        exc = res['exc']
        obs.violation(f'{stage}-parse-error:{type(exc).__name__}',
                      f'{stage}: parse(serialize({names}, {opts})) raised {type(exc).__name__}: {exc}', text=text[:1500])
        return None
    if not res['count_ok']:
        obs.violation(f'{stage}-count', f'{stage}: {len(ref)} regions serialised, {len(res["parsed"])} parsed back '
                      f'({names}, {opts})', text=text[:1500])
        return None
    obs.ok(1, 'rt-count' if not exact else 'fixed-point')
    back = res['parsed']
    for i, e, g in res['cls']:
        obs.violation(f'{stage}-class-or-frame', f'{stage}: region {i} ({names[i]}) came back as {g}, expected {e} ({opts})',
                      text=text[:1500])
    wrong = {i for i, _, _ in res['cls']}
    obs.ok(len(ref) - len(wrong), 'rt-class' if not exact else 'fixed-point')
    geom_bad = dict(res['geom'])
    for i, bad in res['geom']:
        field = bad[0][0]
        kind = re.sub(r'[\d\[\]]', '', field)
        obs.violation(f'{stage}-geometry:{names[i]}:{kind}',
                      f'{stage}: {names[i]} field {field}: expected {bad[0][1]!r} got {bad[0][2]!r} tol {bad[0][3]!r} '
                      f'(coordsys={opts["coordsys"]}, fmt={opts["fmt"]}, radunit={opts["radunit"]}; {len(bad)} fields off)',
                      text=text[:1500], mismatches=[list(map(repr, b)) for b in bad[:6]])
    obs.ok(max(res['njudged'] - sum(len(b) for b in geom_bad.values()), 0), 'rt-geometry' if not exact else 'fixed-point')
    if res['nskipped']:
        obs.skip(res['nskipped'], 'fixed-point-noise-reaches-rounding-boundary')
    if not exact:
        for nm in names:
            obs.count('rt-class:' + nm)
        obs.count('rt-coordsys:' + opts['coordsys'])
        obs.count('rt-radunit:' + str(opts['radunit']))
        obs.count('rt-fmt-type:' + parse_fmt(opts['fmt'])[2])

    # sense, annotation type, label/text, metadata
    for i, (r0, r1) in enumerate(zip(ref, back)):
        if i in wrong:
            continue
        lab = 'fixed-point' if exact else None
        obs.check(include_of(r0) == include_of(r1), f'{stage}-include',
                  f'{stage}: {names[i]} include={r0.meta.get("include", "absent")!r} came back as '
                  f'{r1.meta.get("include", "absent")!r}', lab or 'rt-include', text=text[:600])
        obs.check(type_of(r0) == type_of(r1), f'{stage}-annotation-type',
                  f'{stage}: {names[i]} type={type_of(r0)!r} came back as {type_of(r1)!r}', lab or 'rt-type', text=text[:600])
        if names[i] == 'text':
            if r0.text == r1.text:
                obs.ok(1, lab or 'rt-label')
            else:
                from_meta = r0.meta.get('text', r0.meta.get('label', ''))
                key = K_TEXT if (r1.text == from_meta and not exact) else f'{stage}-text'
                obs.violation(key, f'{stage}: text region {r0.text!r} came back with text {r1.text!r}', text=text[:600])
        else:
            l0, l1 = r0.meta.get('label', '') or '', r1.meta.get('label', '') or ''
            if l0 == l1:
                obs.ok(1, lab or 'rt-label')
            else:
                key = K_LABEL if re.search(r'[,\[\]"]', l0) else f'{stage}-label'
                obs.violation(key, f'{stage}: label {l0!r} came back as {l1!r}', text=text[:600])
        if names[i] == 'symbol':
            s0, s1 = r0.visual.get('symbol', r0.meta.get('symbol')), r1.visual.get('symbol', r1.meta.get('symbol'))
            if s0 is not None:
                obs.check(s0 == s1, f'{stage}-symbol', f'{stage}: symbol {s0!r} came back as {s1!r}', lab or 'rt-meta',
                          text=text[:600])
        for key in META_KEYS[1:]:
            h0, v0 = meta_lookup(r0, key)
            h1, v1 = meta_lookup(r1, key)
            if not h0 and not h1:
                continue
            if h0 and not h1:
                obs.violation(f'{stage}-meta-lost:{key}', f'{stage}: {names[i]} {key}={v0!r} is missing after the round trip',
                              text=text[:600])
            elif h1 and not h0:
                obs.violation(f'{stage}-meta-invented:{key}', f'{stage}: {names[i]} {key}={v1!r} appeared in the round trip',
                              text=text[:600])
            else:
                obs.check(same_norm(key, v0, v1), f'{stage}-meta-changed:{key}',
                          f'{stage}: {names[i]} {key}={v0!r} came back as {v1!r}', lab or 'rt-meta', text=text[:600])

    if not exact and not wrong:
        # parse -> serialise -> parse is a fixed point (same options; copies because serialising edits meta)
        roundtrip(obs, lambda: [copy.deepcopy(r) for r in back], opts, what, tmpdir, stage='fixed-point', pre_repairs=tuple(used))
    return back


# ===========================================================================
# generators, side (a)
LABELS_PLAIN = ['src 1', 'A', 'My label here', 'region18', 'NGC_1234-b', 'x;y#z', 'a.b:c/d', '(core) +2', 'α Cen', '-x', '42']
# (also: '=' inside a quoted string; characters that str.splitlines() treats as line boundaries but the CRTF line
# grammar does not - form feed, vertical tab, FS/GS/RS, NEL, LS, PS)
LINECHARS = ['page\x0cbreak', 'v\x0bt', 'fs\x1cgs\x1drs\x1eend', 'nel\x85x', 'ls\u2028x', 'ps\u2029x', 'tab\tx']
LABELS_HOSTILE = ['NGC 1234, north', 'bracket [1]', 'say "hi" there', 'a,b', 'S/N = 5', 'k=v', 'RADIO FMT', '{0}',
                  'peak 3, linewidth=5 in the plot', 'field A, coord=GALACTIC, color=red', 'see [2], symsize=3'] + LINECHARS
TEXTS = ['hello', 'a b', 'NGC 1234', 'x;y#z', 'α Cen', 'two, parts', 'T', '(1) core + jet', '3.5mJy', 'the "core"', '"quoted"', 'offset 30"',
         'S/N = 5.2', 'k=v', 'a= b', 'x [1]',
         # strings that look like the serialiser's own template placeholders / unit names
         'RADIO peak', 'NE QUADRANT', 'FMT', 'in deg, RAD or FMT', '{text} {0}', '1.5arcsec', 'coord=J2000'] + LINECHARS
RANGES = [[(-1240.0, 'km/s'), (1240.0, 'km/s')], [(1.42, 'GHz'), (1.421, 'GHz')], [(1420.405, 'MHz'), (1421.0, 'MHz')],
          [(-320.0, 'm/s'), (-330.0, 'm/s')], [(5.0, 'chan'), (20.0, 'chan')], [(1.5, 'kHz'), (2.25, 'kHz')],
          [(100.0, 'Hz'), (200.0, 'Hz')],
          # limits that need all their digits (a line frequency to the Hz) and limits of small magnitude
          [(1.420405751786, 'GHz'), (1.420405751999, 'GHz')], [(1420405751.786, 'Hz'), (1420405999.5, 'Hz')], [(2.5e-09, 'GHz'), (7.5e-09, 'GHz')],
          [(-0.000123456789012, 'km/s'), (0.000123456789012, 'km/s')]]
CORRS = [['I'], ['I', 'Q'], ['I', 'Q', 'U', 'V'], ['XX', 'YY'], ['RR', 'LL', 'RL'], ['Q']]
FRAMES_SPEC = ['REST', 'LSRK', 'LSRD', 'BARY', 'GEO', 'TOPO', 'GALACTO', 'LGROUP', 'CMB']
VELTYPES = ['RADIO', 'OPTICAL', 'Z', 'BETA', 'GAMMA']
COLORS = ['red', 'blue', 'green', '#00ff00', '2ee6d6', 'magenta', '003366', '000000', '808080', '00ff00']      # (hex without '#' as CARTA writes it: all digits too)
MISC_VISUAL = {'linestyle': ['-', '--', ':'], 'symsize': [1, 2], 'symthick': [1, 3], 'font': ['Helvetica', 'Courier'],
               'fontsize': [10, 12], 'fontstyle': ['bold', 'normal', 'italic'], 'usetex': ['true', 'false', False],
               'labelpos': ['top', 'bottom', 'left', 'right']}


def gen_fmt(rng):
    r = rng.random()
    if INCLUDE_EXPONENT_FMT and r < 0.03:
        return f'.{rng.randint(6, 12)}e'
    if r < 0.08:
        return f'.{rng.randint(9, 15)}g'
    n = rng.choice([1, 2, 3, 3, 4, 5, 6, 6, 6, 7, 8, 9, 10, 12])
    return ('+' if r > 0.97 else '') + f'.{n}f'


def min_printed_size(fmt):
    """smallest size (in the printed unit) that keeps >= 3 units of the last digit."""
    _, n, typ = parse_fmt(fmt)
    return 3.0 * 10.0 ** (-n) if typ == 'f' else 1e-7


def gen_meta(rng, shape):
    meta, visual = {}, {}
    inc = rng.choice(['absent', 'absent', True, False, False, 1, 0])
    if inc != 'absent':
        meta['include'] = inc
    t = rng.choice(['absent', 'absent', 'reg', 'ann', 'ann'])
    if t != 'absent':
        meta['type'] = t
    if shape != 'text' and rng.random() < 0.5:
        if INCLUDE_HOSTILE_LABELS and rng.random() < 0.12:
            meta['label'] = rng.choice(LABELS_HOSTILE)
        else:
            meta['label'] = rng.choice(LABELS_PLAIN)
    if rng.random() < 0.35:
        meta['range'] = [S.q(v, un) for v, un in rng.choice(RANGES)]
    if rng.random() < 0.35:
        meta['corr'] = list(rng.choice(CORRS))
    if rng.random() < 0.3:
        meta['frame'] = rng.choice(FRAMES_SPEC)
    if rng.random() < 0.3:
        meta['veltype'] = rng.choice(VELTYPES)
    if rng.random() < 0.12:
        meta['restfreq'] = rng.choice([S.q(1.42, 'GHz'), S.q(115.271, 'GHz'), '1.42GHz', '1420.405MHz'])
    if rng.random() < 0.4:
        visual['color'] = rng.choice(COLORS)
    if rng.random() < 0.4:
        visual['linewidth'] = rng.choice([1, 2, 3, 2.5, '2'])
    for k in MISC_VISUAL:
        if rng.random() < 0.06:
            visual[k] = rng.choice(MISC_VISUAL[k])
    if shape == 'symbol' and rng.random() < 0.85:
        visual['symbol'] = rng.choice(SYMBOLS)
    return meta, visual


def gen_angle(rng):
    kind = rng.choice(['uniform', 'uniform', 'uniform', 'mult90', 'mult45', 'huge', 'zero', 'tiny', 'neg'])
    deg = {'uniform': rng.uniform(0, 360), 'mult90': 90.0 * rng.randint(-8, 8), 'mult45': 45.0 * rng.randint(-16, 16),
           'huge': rng.uniform(-1e5, 1e5), 'zero': 0.0, 'tiny': rng.uniform(-1e-3, 1e-3), 'neg': rng.uniform(-720, 0)}[kind]
    unit = rng.choice(['deg', 'deg', 'rad', 'arcmin', 'arcsec', 'hourangle'])
    per = {'deg': 1.0, 'rad': math.pi / 180.0, 'arcmin': 60.0, 'arcsec': 3600.0, 'hourangle': 1 / 15.0}[unit]
    return S.q(deg * per if unit != 'deg' else deg, unit, angle=rng.random() < 0.3)


def gen_lonlat(rng, n_dec):
    kind = rng.choice(['any', 'any', 'any', 'any', 'edge', 'tie', 'pole'])
    if kind == 'any':
        return rng.uniform(0, 360), rng.uniform(-89.0, 89.0)
    if kind == 'edge':
        return rng.choice([0.0, 359.9999999999, 180.0, 1e-9, 360 - 1e-7, 90.0, 270.0]), rng.choice([0.0, -1e-9, 45.0, -45.0, 1e-7])
    if kind == 'tie':        # decimal ties of the requested precision (dyadic, so exactly representable)
        q = 10.0 ** (-min(n_dec, 6))
        return rng.randint(0, 359) + rng.choice([0.125, 0.375, 0.5, 0.625]) * (q * 10 if n_dec > 0 else 1), \
            rng.randint(-80, 80) + rng.choice([0.125, 0.5, 0.875])
    return rng.uniform(0, 360), rng.choice([-1, 1]) * rng.choice([89.9, 89.99, 89.999])


def gen_sky_size(rng, printed_min, radunit, lo_deg=None, hi_deg=20.0):
    """size spec whose value in ``radunit`` is >= printed_min; -> (spec, degrees)."""
    lo = max(printed_min * UNIT_DEG[radunit], 1e-6 if lo_deg is None else lo_deg)
    hi = max(hi_deg, lo * 4)
    deg = logu(rng, lo, hi)
    unit = rng.choice(['deg', 'arcmin', 'arcsec', 'rad'])
    return S.q(deg / UNIT_DEG[unit], unit, angle=rng.random() < 0.3), deg


def gen_sky_region(rng, shape, fmt, radunit):
    frame = rng.choice(SKY_FRAMES)
    attrs = {}
    if frame == 'fk5' and rng.random() < 0.25:
        attrs = {'equinox': rng.choice(['J1975', 'J2010.5', 'B1950'])}
    elif frame == 'fk4' and rng.random() < 0.25:
        attrs = {'equinox': rng.choice(['B1975', 'B1900'])}
    _, n, typ = parse_fmt(fmt)
    n_dec = n if typ == 'f' else 9
    lon, lat = gen_lonlat(rng, n_dec)
    c = S.held(S.sky(lon, lat, frame, **attrs), rng)
    meta, visual = gen_meta(rng, shape)
    mp = min_printed_size(fmt)
    cls = {'circle': 'CircleSkyRegion', 'annulus': 'CircleAnnulusSkyRegion', 'ellipse': 'EllipseSkyRegion',
           'rotbox': 'RectangleSkyRegion', 'poly': 'PolygonSkyRegion', 'line': 'LineSkyRegion', 'text': 'TextSkyRegion',
           'symbol': 'PointSkyRegion'}[shape]
    if shape == 'circle':
        r, _ = gen_sky_size(rng, mp, radunit)
        return S.reg(cls, meta=meta, visual=visual, center=c, radius=r)
    if shape == 'annulus':
        r1, d1 = gen_sky_size(rng, mp, radunit, hi_deg=10.0)
        gap = max(mp * UNIT_DEG[radunit], d1 * rng.choice([1e-3, 0.1, 1.0, 3.0]))
        d2 = d1 + gap * rng.uniform(1.0, 2.0)
        unit = rng.choice(['deg', 'arcmin', 'arcsec', 'rad'])
        return S.reg(cls, meta=meta, visual=visual, center=c, inner_radius=r1, outer_radius=S.q(d2 / UNIT_DEG[unit], unit))
    if shape in ('ellipse', 'rotbox'):
        k = 2.0 if shape == 'ellipse' else 1.0
        w, _ = gen_sky_size(rng, k * mp, radunit)
        h, _ = gen_sky_size(rng, k * mp, radunit)
        if rng.random() < 0.1:
            h = w
        return S.reg(cls, meta=meta, visual=visual, center=c, width=w, height=h, angle=gen_angle(rng))
    if shape == 'poly':
        nv = rng.randint(3, 12)
        L = logu(rng, 1e-4, 5.0)
        cl = max(math.cos(math.radians(lat)), 0.02)
        lons = [(lon + L * rng.uniform(-1, 1) / cl) % 360.0 for _ in range(nv)]
        lats = [max(-89.99, min(89.99, lat + L * rng.uniform(-1, 1))) for _ in range(nv)]
        return S.reg(cls, meta=meta, visual=visual, vertices=S.held(S.sky(S.arr_spec(lons), S.arr_spec(lats), frame, **attrs), rng))
    if shape == 'line':
        L = logu(rng, 1e-4, 20.0)
        e = S.sky((lon + L * rng.uniform(-1, 1)) % 360.0, max(-89.99, min(89.99, lat + L * rng.uniform(-1, 1))), frame, **attrs)
        return S.reg(cls, meta=meta, visual=visual, start=c, end=e)
    if shape == 'text':
        return S.reg(cls, meta=meta, visual=visual, center=c, text=rng.choice(TEXTS))
    return S.reg(cls, meta=meta, visual=visual, center=c)


def gen_pix_xy(rng):
    kind = rng.choice(['zero', 'near', 'near', 'far', 'neg', 'halfint', 'int', 'tie'])
    if kind == 'zero':
        return 0.0, 0.0
    if kind == 'near':
        return rng.uniform(-500, 500), rng.uniform(-500, 500)
    if kind == 'far':
        return rng.choice([-1, 1]) * rng.uniform(1e4, 1e7), rng.choice([-1, 1]) * rng.uniform(1e4, 1e7)
    if kind == 'neg':
        return -rng.uniform(1, 50), -rng.uniform(1, 50)
    if kind == 'halfint':
        return rng.randint(-50, 50) + 0.5, rng.randint(-50, 50) + 0.5
    if kind == 'tie':
        return rng.randint(-50, 50) + 0.125, rng.randint(-50, 50) + 0.0625
    return float(rng.randint(-50, 50)), float(rng.randint(-50, 50))


def gen_pix_region(rng, shape, fmt):
    x, y = gen_pix_xy(rng)
    c = S.pix(x, y)
    meta, visual = gen_meta(rng, shape)
    mp = min_printed_size(fmt)
    cls = {'circle': 'CirclePixelRegion', 'annulus': 'CircleAnnulusPixelRegion', 'ellipse': 'EllipsePixelRegion',
           'rotbox': 'RectanglePixelRegion', 'poly': 'PolygonPixelRegion', 'line': 'LinePixelRegion', 'text': 'TextPixelRegion',
           'symbol': 'PointPixelRegion'}[shape]

    def size(k=1.0):
        v = logu(rng, max(k * mp, 1e-4), 1e4)
        return rng.choice([v, v, float(round(v) or 1), int(round(v) or 1)])
    if shape == 'circle':
        return S.reg(cls, meta=meta, visual=visual, center=c, radius=size())
    if shape == 'annulus':
        r1 = float(size())
        r2 = r1 + max(mp, r1 * rng.choice([1e-3, 0.1, 1.0])) * rng.uniform(1, 2)
        return S.reg(cls, meta=meta, visual=visual, center=c, inner_radius=r1, outer_radius=r2)
    if shape in ('ellipse', 'rotbox'):
        k = 2.0 if shape == 'ellipse' else 1.0
        return S.reg(cls, meta=meta, visual=visual, center=c, width=size(k), height=size(k), angle=gen_angle(rng))
    if shape == 'poly':
        nv = rng.randint(3, 12)
        L = logu(rng, 1e-2, 1e3)
        return S.reg(cls, meta=meta, visual=visual,
                     vertices=S.pix(S.arr_spec([x + L * rng.uniform(-1, 1) for _ in range(nv)]),
                                    S.arr_spec([y + L * rng.uniform(-1, 1) for _ in range(nv)])))
    if shape == 'line':
        L = logu(rng, 1e-2, 1e3)
        return S.reg(cls, meta=meta, visual=visual, start=c, end=S.pix(x + L * rng.uniform(-1, 1), y + L * rng.uniform(-1, 1)))
    if shape == 'text':
        return S.reg(cls, meta=meta, visual=visual, center=c, text=rng.choice(TEXTS))
    return S.reg(cls, meta=meta, visual=visual, center=c)


SHAPES = ['circle', 'annulus', 'ellipse', 'rotbox', 'poly', 'line', 'text', 'symbol']


def gen_rt_case(rng, sky):
    fmt = gen_fmt(rng)
    _, n, typ = parse_fmt(fmt)
    if sky:
        radunit = rng.choice(['deg', 'deg', 'arcmin', 'arcsec', 'arcsec', 'rad'])
        if radunit == 'rad' and typ == 'f' and n < 3:
            fmt = fmt.replace(f'.{n}f', '.3f')
        coordsys = rng.choice(SKY_FRAMES)
    else:
        radunit = rng.choice(['pix', 'pix', 'deg'])
        coordsys = 'image'
    nreg = rng.choice([1, 1, 1, 2, 3, 5])
    regs = []
    for _ in range(nreg):
        shape = rng.choice(SHAPES)
        regs.append(gen_sky_region(rng, shape, fmt, radunit) if sky else gen_pix_region(rng, shape, fmt))
    radunit_given = True
    if radunit == 'deg' and rng.random() < 0.5:
        radunit_given = False            # the default
    api = rng.choice(['regions', 'regions', 'regions', 'region', 'file']) if nreg == 1 else rng.choice(['regions'] * 6 + ['file'])
    return {'lane': 'rt-sky' if sky else 'rt-pix', 'regs': regs,
            'opts': {'coordsys': coordsys, 'fmt': fmt, 'radunit': radunit, 'radunit_given': radunit_given, 'api': api}}


# ===========================================================================
# generators, side (b): CRTF grammar + model
def dec_str(rng, lo, hi, maxdec, sign=False):
    d = rng.randint(0, maxdec)
    v = rng.uniform(lo, hi)
    s = f'{v:.{d}f}'
    if s.startswith('-') and float(s) == 0:
        s = s[1:]
    if sign and not s.startswith('-') and rng.random() < 0.2:
        s = '+' + s
    return s


def sec_str(rng):
    s = f'{rng.randint(0, 59):02d}'
    if rng.random() < 0.15:
        s = str(int(s))
    d = rng.randint(0, 5)
    if d:
        s += '.' + ''.join(rng.choice('0123456789') for _ in range(d))
    return s


def g_lon(rng):
    k = rng.choice(['deg', 'deg', 'rad', 'hms', 'colon', 'dms', 'dot'])
    if k == 'deg':
        s = dec_str(rng, -20 if rng.random() < 0.1 else 0, 360, 8, sign=True)
        return s + 'deg', float(s)
    if k == 'rad':
        s = dec_str(rng, 0, 6.28, 9)
        return s + 'rad', math.degrees(float(s))
    if k in ('hms', 'colon'):
        h, m, sec = rng.randint(0, 23), rng.randint(0, 59), sec_str(rng)
        val = 15.0 * (h + m / 60.0 + float(sec) / 3600.0)
        if k == 'hms':
            hs = f'{h:02d}' if rng.random() < 0.7 else str(h)
            return f'{hs}h{m:02d}m{sec}s', val
        return f'{h:02d}:{m:02d}:{sec}', val
    d, m, sec = rng.randint(0, 359), rng.randint(0, 59), sec_str(rng)
    val = d + m / 60.0 + float(sec) / 3600.0
    if k == 'dms':
        return f'{d}d{m:02d}m{sec}s', val
    return f'{d:03d}.{m:02d}.{sec}', val


def g_lat(rng):
    k = rng.choice(['deg', 'deg', 'rad', 'dms', 'dms', 'dot', 'colon'])
    if k == 'colon':
        # colon notation means HOURS in CASA region text, in the second slot too (02:00:00 is 30 deg)
        h, m, sec = rng.randint(0, 5), rng.randint(0, 59), sec_str(rng)
        sg = rng.choice(['-', '-', '', '+'])
        return f'{sg}{h:02d}:{m:02d}:{sec}', 15.0 * (h + m / 60.0 + float(sec) / 3600.0) * (-1 if sg == '-' else 1)
    if k == 'deg':
        s = dec_str(rng, -90, 90, 8, sign=True)
        return s + 'deg', float(s)
    if k == 'rad':
        s = dec_str(rng, -1.57, 1.57, 9, sign=True)
        if abs(float(s)) > 1.57:
            s = '1.5'
        return s + 'rad', math.degrees(float(s))
    d, m, sec = rng.randint(0, 89), rng.randint(0, 59), sec_str(rng)
    sg = rng.choice(['-', '-', '', '+'])
    val = (d + m / 60.0 + float(sec) / 3600.0) * (-1 if sg == '-' else 1)
    if k == 'dms':
        return f'{sg}{d}d{m:02d}m{sec}s', val
    return f'{sg}{d:03d}.{m:02d}.{sec}' if rng.random() < 0.6 else f'{sg}{d:02d}.{m:02d}.{sec}', val


def g_pix(rng):
    s = dec_str(rng, -100 if rng.random() < 0.2 else 0, 4096, 4)
    return s + 'pix', float(s)


def pos_dec_str(rng, lo, hi, maxdec):
    for _ in range(20):
        s = dec_str(rng, lo, hi, maxdec)
        if float(s) > 0:
            return s
    return '1'


def g_len(rng, sky, unit=None, with_unit=True):
    """-> (text, value, unit)"""
    if not sky:
        s = pos_dec_str(rng, 0.5, 500, 3)
        return s + ('pix' if with_unit else ''), float(s), 'pix'
    unit = unit or rng.choice(['deg', 'arcmin', 'arcsec', 'arcsec', 'rad'])
    lo, hi, d = {'deg': (0.001, 5, 6), 'arcmin': (0.1, 120, 4), 'arcsec': (0.1, 3600, 3), 'rad': (1e-5, 0.05, 8)}[unit]
    s = pos_dec_str(rng, lo, hi, d)
    return s + (unit if with_unit else ''), float(s), unit


def g_rot(rng):
    if rng.random() < 0.7:
        s = dec_str(rng, -360, 720, 5, sign=True)
        return s + 'deg', float(s)
    s = dec_str(rng, -6.3, 6.3, 6)
    return s + 'rad', math.degrees(float(s))


GLOBAL_VOCAB = {'frame': FRAMES_SPEC, 'veltype': VELTYPES, 'restfreq': ['1.42GHz', '115.271GHz', '1420.405MHz'],
                'linewidth': ['1', '2', '3'], 'linestyle': ['-', '--', ':'], 'symsize': ['1', '2'], 'symthick': ['1', '2'],
                'color': ['red', 'blue', 'green', '#00ff00', '2ee6d6'], 'font': ['Helvetica', 'Courier'],
                'fontsize': ['10', '12'], 'fontstyle': ['bold', 'normal', 'italic'], 'usetex': ['true', 'false'],
                'labelpos': ['top', 'bottom', 'left', 'right']}
READ_LABELS = ['My label here', 'region18', 'A', 'src 1', 'x;y#z', 'NGC_1234-b', '(core) +2', '42']
READ_TEXTS = ['my text', 'hello', 'NGC 1234', 'two, parts', 'x;y#z', 'T', '3.5mJy core', 'the "core"', 'offset 30"']


def g_meta_items(rng, allow_label, pmax):
    """-> ordered list of (key, rendered value, model value)."""
    items = []
    for k in rng.sample(sorted(GLOBAL_VOCAB), rng.randint(0, pmax)):
        v = rng.choice(GLOBAL_VOCAB[k])
        items.append((k, v, v))
    if rng.random() < 0.35:
        r = rng.choice(RANGES)
        txt = [f'{v:g}{un}' if rng.random() < 0.5 else f'{v}{un}' for v, un in r]
        items.append(('range', '[' + rng.choice([', ', ',']).join(txt) + ']', [[float(t[:len(t) - len(un)]), un]
                                                                                    for t, (v, un) in zip(txt, r)]))
    if rng.random() < 0.35:
        c = rng.choice(CORRS)
        items.append(('corr', '[' + rng.choice([', ', ',']).join(c) + ']', list(c)))
    if allow_label and rng.random() < 0.45:
        lab = rng.choice(READ_LABELS)
        qt = rng.choice(["'", "'", '"'])
        items.append(('label', f'{qt}{lab}{qt}', lab))
    rng.shuffle(items)
    return items


def g_region_line(rng, frame, shape=None, unitless=False):
    """one region line in frame (astropy name or 'image'); -> (text without meta, model dict)."""
    sky = frame != 'image'
    shape = shape or rng.choice(['circle', 'annulus', 'ellipse', 'box', 'centerbox', 'rotbox', 'poly', 'line', 'symbol', 'text'])

    def coord():
        if sky:
            (a, av), (b, bv) = g_lon(rng), g_lat(rng)
        else:
            (a, av), (b, bv) = g_pix(rng), g_pix(rng)
        sep = rng.choice([', ', ', ', ','])
        return f'[{a}{sep}{b}]', (av, bv)

    def pair(t1, t2):
        return f'[{t1}{rng.choice([", ", ", ", ","])}{t2}]'

    sep = rng.choice([', ', ', ', ','])
    m = {'shape': shape, 'sky': sky, 'frame': frame}
    bad_slot = rng.randint(0, 1) if unitless else None
    if shape == 'circle':
        c, cv = coord()
        t, v, un = g_len(rng, sky, with_unit=not unitless)
        m.update(pos=[cv], lens=[(v, un)])
        body = f'{c}{sep}{t}'
    elif shape == 'annulus':
        c, cv = coord()
        t1, v1, u1 = g_len(rng, sky, with_unit=bad_slot != 0)
        for _ in range(50):
            t2, v2, u2 = g_len(rng, sky, unit=u1 if sky else None, with_unit=bad_slot != 1)
            if v2 > v1:
                break
        else:
            v2 = v1 + 1
            t2 = repr(v2) + (u1 if bad_slot != 1 else '')
            u2 = u1
        m.update(pos=[cv], lens=[(v1, u1), (v2, u2)])
        body = f'{c}{sep}{pair(t1, t2)}'
    elif shape in ('ellipse', 'rotbox', 'centerbox'):
        c, cv = coord()
        t1, v1, u1 = g_len(rng, sky, with_unit=bad_slot != 0)
        t2, v2, u2 = g_len(rng, sky, unit=u1 if sky else None, with_unit=bad_slot != 1)
        if shape == 'ellipse' and v2 > v1:              # [major, minor]
            (t1, v1, u1), (t2, v2, u2) = (t2, v2, u2), (t1, v1, u1)
            if unitless:
                # keep the unitless slot where it was drawn
                pass
        body = f'{c}{sep}{pair(t1, t2)}'
        rot = 0.0
        if shape != 'centerbox':
            rt, rot = g_rot(rng)
            body += f'{sep}{rt}'
        m.update(pos=[cv], a=(v1, u1), b=(v2, u2), rot=rot)
    elif shape == 'box':
        c1, v1 = coord()
        c2, v2 = coord()
        if sky:
            # keep both corners' longitudes in plain degrees so that the midpoint is unambiguous (no wrap)
            for _ in range(50):
                if abs(v1[0] - v2[0]) < 170 and 0 <= v1[0] < 360 and 0 <= v2[0] < 360:
                    break
                c1, v1 = coord()
                c2, v2 = coord()
            else:
                c1, v1, c2, v2 = '[10deg, 2deg]', (10.0, 2.0), '[12deg, -3deg]', (12.0, -3.0)
        if v1[0] == v2[0] or v1[1] == v2[1]:
            c1, v1, c2, v2 = ('[10deg, 2deg]', (10.0, 2.0), '[12deg, -3deg]', (12.0, -3.0)) if sky else \
                ('[1pix, 2pix]', (1.0, 2.0), '[5pix, 9pix]', (5.0, 9.0))
        m.update(corners=[v1, v2])
        body = f'{c1}{sep}{c2}'
    elif shape == 'poly':
        n = rng.randint(3, 9)
        cs = [coord() for _ in range(n)]
        m.update(pos=[c[1] for c in cs])
        body = sep.join(c[0] for c in cs)
    elif shape == 'line':
        (c1, v1), (c2, v2) = coord(), coord()
        m.update(pos=[v1, v2])
        body = f'{c1}{sep}{c2}'
    elif shape == 'symbol':
        c, cv = coord()
        s = rng.choice(SYMBOLS)
        m.update(pos=[cv], symbol=s)
        body = f'{c}, {s}'
    else:
        c, cv = coord()
        s = rng.choice(READ_TEXTS)
        qt = rng.choice(["'", "'", '"'])
        m.update(pos=[cv], text=s)
        body = f'{c}, {qt}{s}{qt}'
    sp = ' ' if rng.random() < 0.15 else ''
    return f'{shape}{sp}[{body}]', m


def gen_read_case(rng, err=False):
    lines = []
    expect = []
    gl = {}
    if rng.random() < 0.4:
        lines.append(rng.choice(['#CRTFv0', '#CRTFv0 CASA Region Text Format version 0', '#CRTF']))
    n = rng.randint(1, 8)
    err_at = rng.randrange(n) if err else None
    flags = {'override': 0, 'coord_override': 0}

    def global_line():
        items = g_meta_items(rng, allow_label=False, pmax=3)
        if rng.random() < 0.7:
            f = rng.choice(SKY_FRAMES + ['image'])
            nm = CRTF_NAME[f]
            items.insert(rng.randint(0, len(items)), ('coord', nm.lower() if rng.random() < 0.1 else nm, f))
        if not items:
            items = [('color', 'blue', 'blue')]
        for k, _, mv in items:
            gl[k] = mv
        lines.append('global ' + rng.choice([', ', ', ', ',']).join(f'{k}={t}' for k, t, _ in items))

    if rng.random() < 0.6:
        global_line()
    for i in range(n):
        r = rng.random()
        if r < 0.1:
            lines.append(rng.choice(['', '# a comment', '# circle[[1deg, 2deg], 3deg]', '#ann box[[1pix,1pix],[2pix,2pix]]']))
        elif r < 0.17:
            global_line()
        items = g_meta_items(rng, allow_label=True, pmax=2)
        eff = dict(gl)
        frame = gl.get('coord', 'image')
        if rng.random() < (0.45 if 'coord' in gl else 0.7):
            f = rng.choice(SKY_FRAMES + ['image'])
            nm = CRTF_NAME[f]
            items.insert(rng.randint(0, len(items)), ('coord', nm.lower() if rng.random() < 0.1 else nm, f))
            if 'coord' in gl and gl['coord'] != f:
                flags['coord_override'] += 1
            frame = f
        for k, _, mv in items:
            if k in gl and k != 'coord' and gl[k] != mv:
                flags['override'] += 1
            eff[k] = mv
        eff.pop('coord', None)
        body, model = g_region_line(rng, frame, unitless=(i == err_at),
                                    shape=rng.choice(['circle', 'annulus', 'ellipse', 'rotbox', 'centerbox']) if i == err_at else None)
        include, typ = True, 'reg'
        prefix = ''
        r = rng.random()
        if r < 0.3:
            prefix, include = '-', False
        elif r < 0.36:
            prefix = '+'
        if rng.random() < 0.3 and prefix != '-':
            prefix += 'ann '
            typ = 'ann'
        line = prefix + body
        if items:
            line += rng.choice([', ', ', ', ' ']) + rng.choice([', ', ', ', ',']).join(f'{k}={t}' for k, t, _ in items)
        lines.append(line)
        model.update(include=include, type=typ, meta=eff)
        model['rt'] = None
        if rng.random() < 0.5:
            # options for pushing the parsed region through the round trip: enough decimals that every size (and
            # the annulus gap) keeps >= 3 units of the last printed digit
            radunit = rng.choice(['deg', 'arcmin', 'arcsec', 'rad']) if model['sky'] else 'pix'
            per = UNIT_DEG.get(radunit, 1.0)
            sizes = []
            for v, un in list(model.get('lens', [])) + [model[k] for k in ('a', 'b') if k in model]:
                sizes.append(v * UNIT_DEG.get(un, 1.0) / per)
            if model['shape'] == 'annulus':
                (v1, u1), (v2, u2) = model['lens']
                sizes.append((v2 * UNIT_DEG.get(u2, 1.0) - v1 * UNIT_DEG.get(u1, 1.0)) / per)
            if model['shape'] == 'box':
                (x1, y1), (x2, y2) = model['corners']
                sizes += [abs(x1 - x2) / per, abs(y1 - y2) / per]
                if model['sky']:
                    sizes.append(abs(x1 - x2) * math.cos(math.radians(max(abs(y1), abs(y2)))) / per)
            need = 1
            if sizes:
                need = max(1, int(math.ceil(-math.log10(min(sizes) / 3.0))))
            if need <= 12:
                nd = min(12, max(need, rng.choice([1, 2, 3, 4, 6, 8])))
                model['rt'] = {'coordsys': rng.choice([frame, frame, rng.choice(SKY_FRAMES)]) if model['sky'] else 'image',
                               'fmt': f'.{nd}f', 'radunit': radunit, 'api': 'region'}
        expect.append(model)
    return {'lane': 'read-err' if err else 'read', 'text': '\n'.join(lines) + rng.choice(['', '\n']), 'expect': expect,
            'flags': flags}


def generate(rng, tier, shard, nshards):
    n = 350 if tier == 'quick' else 12000
    for _ in range(n):
        r = rng.random()
        if r < 0.42:
            yield gen_rt_case(rng, sky=True)
        elif r < 0.62:
            yield gen_rt_case(rng, sky=False)
        elif r < 0.94:
            yield gen_read_case(rng)
        else:
            yield gen_read_case(rng, err=True)


# ===========================================================================
# side (b): comparing the parser's output with the model
CLS = {('circle', True): 'CircleSkyRegion', ('annulus', True): 'CircleAnnulusSkyRegion', ('ellipse', True): 'EllipseSkyRegion',
       ('box', True): 'RectangleSkyRegion', ('centerbox', True): 'RectangleSkyRegion', ('rotbox', True): 'RectangleSkyRegion',
       ('poly', True): 'PolygonSkyRegion', ('line', True): 'LineSkyRegion', ('symbol', True): 'PointSkyRegion',
       ('text', True): 'TextSkyRegion'}
CLS.update({(k, False): v.replace('Sky', 'Pixel') for (k, _), v in list(CLS.items())})


def check_read_region(obs, m, r, line_no):
    from regions import SkyRegion
    sh = m['shape']
    ctx = f'line {line_no} ({sh}, frame {m["frame"]})'
    want = CLS[(sh, m['sky'])]
    if sh in ('box', 'centerbox', 'rotbox'):
        mkey = 'read-box-not-rectangle'
    else:
        mkey = 'read-class'
    if not obs.check(type(r).__name__ == want, mkey, f'{ctx}: parsed as {type(r).__name__}, expected {want}', 'read-class'):
        return False
    obs.count('read-shape:' + sh)
    ctol = 1e-9

    def posvals(c):
        if m['sky']:
            return _sky_lonlat(c, m['frame'], transform=False)
        return np.atleast_1d(np.asarray(c.x, dtype=float)), np.atleast_1d(np.asarray(c.y, dtype=float))

    def frame_ok(c):
        if not m['sky']:
            return True
        return obs.check(c.frame.name == m['frame'], 'read-coord-frame', f'{ctx}: frame {c.frame.name}, expected {m["frame"]}',
                         'read-geometry')

    def cmp_pos(c, exp_list, name):
        a, b = posvals(c)
        if len(a) != len(exp_list):
            obs.violation('read-vertex-count', f'{ctx}: {name} has {len(a)} points, expected {len(exp_list)}')
            return
        for j, (ea, eb) in enumerate(exp_list):
            if m['sky']:
                ok = angdiff(ea, a[j], 360.0) <= ctol * 4 and abs(eb - b[j]) <= ctol
            else:
                ok = abs(ea - a[j]) <= 1e-12 * max(1, abs(ea)) and abs(eb - b[j]) <= 1e-12 * max(1, abs(eb))
            obs.check(ok, f'read-position:{sh}', f'{ctx}: {name}[{j}] = ({a[j]!r}, {b[j]!r}), expected ({ea!r}, {eb!r})',
                      'read-geometry')

    def cmp_len(q, exp, name, factor=1.0, key=None):
        v, un = exp
        try:
            got = float(q.to_value(un)) if m['sky'] else float(q)
        except Exception as exc:            # noqa: BLE001
            obs.violation(f'read-length-unit:{sh}', f'{ctx}: {name} = {q!r} is not convertible to {un}: {exc}')
            return
        obs.check(abs(got - factor * v) <= 1e-12 * abs(factor * v), key or f'read-length:{sh}',
                  f'{ctx}: {name} = {got!r} {un}, expected {factor * v!r}', 'read-geometry')

    def cmp_ang(q, exp_deg):
        got = float(q.to_value('deg'))
        obs.check(abs(got - exp_deg) <= 1e-9 * max(1.0, abs(exp_deg)), f'read-angle:{sh}',
                  f'{ctx}: angle = {got!r} deg, expected {exp_deg!r}', 'read-geometry')

    if sh == 'circle':
        if frame_ok(r.center):
            cmp_pos(r.center, m['pos'], 'center')
        cmp_len(r.radius, m['lens'][0], 'radius')
    elif sh == 'annulus':
        if frame_ok(r.center):
            cmp_pos(r.center, m['pos'], 'center')
        cmp_len(r.inner_radius, m['lens'][0], 'inner_radius')
        cmp_len(r.outer_radius, m['lens'][1], 'outer_radius')
    elif sh == 'ellipse':
        if frame_ok(r.center):
            cmp_pos(r.center, m['pos'], 'center')
        # [major, minor] semi-axes, position angle of the major axis from north == rotation of the height axis
        cmp_len(r.height, m['a'], 'height (2 x major semi-axis)', 2.0, 'read-ellipse-axes')
        cmp_len(r.width, m['b'], 'width (2 x minor semi-axis)', 2.0, 'read-ellipse-axes')
        cmp_ang(r.angle, m['rot'])
    elif sh in ('rotbox', 'centerbox'):
        if frame_ok(r.center):
            cmp_pos(r.center, m['pos'], 'center')
        cmp_len(r.width, m['a'], 'width')
        cmp_len(r.height, m['b'], 'height')
        cmp_ang(r.angle, m['rot'])
    elif sh == 'box':
        (x1, y1), (x2, y2) = m['corners']
        cmp_ang(r.angle, 0.0)
        if m['sky']:
            if frame_ok(r.center):
                cmp_pos(r.center, [((x1 + x2) / 2.0, (y1 + y2) / 2.0)], 'center')
            h = float(r.height.to_value('deg'))
            obs.check(abs(h - abs(y1 - y2)) <= 1e-9, 'read-box-height', f'{ctx}: height {h!r}, expected {abs(y1 - y2)!r}',
                      'read-geometry')
            w = float(r.width.to_value('deg'))
            dl = abs(x1 - x2)
            lo = dl * math.cos(math.radians(max(abs(y1), abs(y2))))
            obs.check(lo - 1e-9 <= w <= dl + 1e-9, 'read-box-width', f'{ctx}: width {w!r} outside [{lo!r}, {dl!r}]',
                      'read-geometry')
        else:
            cmp_pos(r.center, [((x1 + x2) / 2.0, (y1 + y2) / 2.0)], 'center')
            obs.check(abs(float(r.width) - abs(x1 - x2)) <= 1e-12 * abs(x1 - x2)
                      and abs(float(r.height) - abs(y1 - y2)) <= 1e-12 * abs(y1 - y2), 'read-box-size',
                      f'{ctx}: size ({r.width!r}, {r.height!r}), expected ({abs(x1 - x2)!r}, {abs(y1 - y2)!r})', 'read-geometry')
    elif sh == 'poly':
        if frame_ok(r.vertices):
            cmp_pos(r.vertices, m['pos'], 'vertices')
    elif sh == 'line':
        if frame_ok(r.start):
            cmp_pos(r.start, m['pos'][:1], 'start')
            cmp_pos(r.end, m['pos'][1:], 'end')
    elif sh == 'symbol':
        if frame_ok(r.center):
            cmp_pos(r.center, m['pos'], 'center')
        got = r.visual.get('symbol', r.meta.get('symbol'))
        obs.check(got == m['symbol'], 'read-symbol', f'{ctx}: symbol {got!r}, expected {m["symbol"]!r}', 'read-meta')
    elif sh == 'text':
        if frame_ok(r.center):
            cmp_pos(r.center, m['pos'], 'center')
        obs.check(r.text == m['text'], 'read-text', f'{ctx}: text {r.text!r}, expected {m["text"]!r}', 'read-meta')

    obs.check(include_of(r) == m['include'], 'read-include-sign', f'{ctx}: include={r.meta.get("include", "absent")!r}, '
              f'expected {m["include"]}', 'read-include')
    obs.check(type_of(r) == m['type'], 'read-ann', f'{ctx}: type={type_of(r)!r}, expected {m["type"]!r}', 'read-type')
    # metadata: effective = global defaults overridden by inline keys; nothing else
    for key in META_KEYS:
        has, v = meta_lookup(r, key)
        if key == 'label' and sh == 'text':
            continue                        # the library mirrors the text string into label
        if key in m['meta']:
            if not has:
                obs.violation(f'read-meta-missing:{key}', f'{ctx}: {key}={m["meta"][key]!r} expected (global default or inline), '
                              'absent')
                continue
            want_v = m['meta'][key]
            if key == 'range':
                import astropy.units as u
                want_v = [u.Quantity(a, b) for a, b in want_v]
                # a default from a `global` line is read like the same key given inline: as quantities, not as the raw text
                obs.check(all(isinstance(x, u.Quantity) for x in v), 'read-meta-value:range-not-quantities',
                          f'{ctx}: range={v!r} holds {[type(x).__name__ for x in v]} (an inline range= gives Quantity objects)', 'read-meta')
            obs.check(same_norm(key, want_v, v), f'read-meta-value:{key}', f'{ctx}: {key}={v!r}, expected {m["meta"][key]!r}',
                      'read-meta')
        else:
            obs.check(not has, f'read-meta-leak:{key}', f'{ctx}: {key}={v!r} present although neither global nor inline sets it',
                      'read-meta')
    return True


def run_read(case, obs):
    from regions import Regions
    text, expect = case['text'], case['expect']
    try:
        parsed = list(Regions.parse(text, format='crtf'))
    except Exception as exc:            # noqa: BLE001
        shapes = sorted({m['shape'] for m in expect})
        obs.violation(f'read-parse-error:{type(exc).__name__}', f'valid CRTF document rejected: {type(exc).__name__}: {exc} '
                      f'(shapes {shapes})', text=text[:2000])
        return
    if not obs.check(len(parsed) == len(expect), 'read-count', f'{len(expect)} region lines, {len(parsed)} regions parsed',
                     'read-count', text=text[:2000]):
        return
    obs.count('read-global-override', case['flags']['override'])
    obs.count('read-inline-coord-over-global', case['flags']['coord_override'])
    for i, (m, r) in enumerate(zip(expect, parsed)):
        ok = check_read_region(obs, m, r, i)
        if ok and m.get('rt'):
            roundtrip(obs, lambda r=r: [copy.deepcopy(r)], m['rt'], 'read-rt')


def run_read_err(case, obs):
    from regions import Regions
    try:
        got = Regions.parse(case['text'], format='crtf')
    except Exception:                   # noqa: BLE001 - any error is what the statement asks for
        obs.ok(1, 'read-unitless-error')
        return
    bad = [m['shape'] for m in case['expect']]
    obs.violation('read-unitless-length-accepted', f'a length without unit was accepted ({len(got)} regions from shapes {bad})',
                  text=case['text'][:2000])


def run_case(case, obs):
    lane = case['lane']
    if lane in ('rt-sky', 'rt-pix'):
        opts = case['opts']
        tmpdir = tempfile.mkdtemp(prefix='c11-') if opts.get('api') == 'file' else None
        try:
            specs = case['regs']
            back = roundtrip(obs, lambda: [S.build(s) for s in specs], opts, lane, tmpdir)
            if back is None and len(specs) > 1:
                # localise: judge every member on its own
                for s in specs:
                    roundtrip(obs, lambda s=s: [S.build(s)], dict(opts, api='regions'), lane, None)
        finally:
            if tmpdir:
                shutil.rmtree(tmpdir, ignore_errors=True)
    elif lane == 'read':
        run_read(case, obs)
    elif lane == 'read-err':
        run_read_err(case, obs)
    else:
        raise ValueError(f'harness: unknown lane {lane}')


MUTANTS = [
    ('ellipse-template-axes-exchanged', 'regions/io/crtf/io_core.py',
     "[{4:FMT}RAD, '\n                        '{3:FMT}RAD], {5:FMT}deg]'),", "[{3:FMT}RAD, '\n                        '{4:FMT}RAD], {5:FMT}deg]'),"),
    ('writer-ellipse-angle-halved', 'regions/io/crtf/io_core.py',
     "                if len(coord) % 2 == 1:\n                    coord[-1] *= 2\n",
     "                if len(coord) % 2 == 1:\n                    coord[-1] *= 1\n"),
    ('reader-inline-coord-ignored', 'regions/io/crtf/read.py',
     "self.coordsys = self.meta.get('coord', 'image').lower()", "self.coordsys = self.global_meta.get('coord', 'image').lower()"),
    ('reader-minus-not-propagated', 'regions/io/crtf/read.py',
     "self.meta['include'] = self.include != '-'", "self.meta['include'] = True"),
    ('writer-minus-dropped-for-bool', 'regions/io/crtf/io_core.py',
     "if shape.include in (False, '-'):", "if shape.include in ('-',):"),
    ('reader-ellipse-axes-not-swapped', 'regions/io/crtf/read.py',
     "            self.coord[2], self.coord[3] = self.coord[3], self.coord[2]\n", "            pass\n"),
    ('reader-ellipse-angle-doubled', 'regions/io/crtf/read.py',
     "                self.coord[-1] /= 2\n", "                self.coord[-1] /= 1\n"),
    ('reader-box-centre-not-halved', 'regions/io/crtf/read.py',
     "x = (self.coord[0] + self.coord[2]) / 2", "x = (self.coord[0] + self.coord[2])"),
    ('reader-global-meta-shared-not-copied', 'regions/io/crtf/read.py',
     "self.meta = copy.deepcopy(global_meta)", "self.meta = global_meta"),
    ('reader-colon-sexagesimal-as-degrees', 'regions/io/crtf/read.py',
     "        elif string_rep.count(':') == 2:\n            unit = u.hour", "        elif string_rep.count(':') == 2:\n            unit = u.deg"),
    ('reader-arcmin-read-as-arcsec', 'regions/io/crtf/read.py', "'arcmin': u.arcmin,", "'arcmin': u.arcsec,"),
    ('reader-b1950-mapped-to-fk5', 'regions/io/crtf/read.py', "coordsys_mapping['b1950'] = 'fk4'", "coordsys_mapping['b1950'] = 'fk5'"),
    ('writer-radunit-conversion-dropped', 'regions/io/crtf/io_core.py',
     "coord.append(float(val.to(radunit).value))", "coord.append(float(val.value))"),
    ('writer-latitude-not-transformed', 'regions/io/crtf/io_core.py',
     "new_coord.append(Angle(val.transform_to(frame).spherical.lat))", "new_coord.append(Angle(val.spherical.lat))"),
    ('writer-ann-not-written', 'regions/io/crtf/io_core.py',
     "if shape.meta.get('type', 'reg') == 'ann':", "if shape.meta.get('type', 'reg') == 'annotation':"),
    ('writer-supergal-named-galactic', 'regions/io/crtf/io_core.py',
     "coordsys_mapping['CRTF']['supergalactic'] = 'SUPERGAL'", "coordsys_mapping['CRTF']['supergalactic'] = 'GALACTIC'"),
    ('writer-rotation-angle-in-radians', 'regions/io/crtf/io_core.py',
     "coord[-1] = float(shape.coord[-1].to('deg').value)", "coord[-1] = float(shape.coord[-1].to('rad').value)"),
    ('writer-polygon-ignores-fmt', 'regions/io/crtf/io_core.py',
     "vals = [f'[{x:{fmt}}deg, {y:{fmt}}deg]'", "vals = [f'[{x:.3f}deg, {y:.3f}deg]'"),
]
