"""C10 - DS9 text is read according to the DS9 region-file conventions.

Oracle = generator model.  A document AST is produced first (frame lines,
global lines, region lines with structured number tokens, comments,
unsupported shapes/frames, mixed-unit regions, composite blocks).  ``model()``
interprets the AST by the DS9 rules of the property statement (it never looks
at text) and yields the expected region list; ``render()`` writes the AST as
text choosing separators / parentheses / commas / case at random.  The real
``Regions.parse(text, format='ds9')`` result is compared with the model.
"""
import math
import random
import os
import warnings
from fractions import Fraction

ID = 'C10'
LEVEL = 'exploration'
TECHNIQUE = ('runtime oracle: document AST -> independent DS9-rule interpreter (exact rational arithmetic on structured number '
             'tokens) vs Regions.parse of a randomly rendered text; skipped items cross-checked against a parse of the '
             'document without them')
RULE = ('cases = documents of 1-14 items drawn from: frame lines (image icrs fk5 j2000 fk4 b1950 galactic ecliptic), unsupported '
        'frames, global lines, comments (incl. comments that look like frames/globals/regions), 8 shapes + multi-radius '
        'annulus/ellipse/box, unsupported shapes, mixed-unit regions, composite blocks; coordinates bare/d/r/i/a:b:c/hms/dms, '
        'sizes bare/"/\'/d/r/i, separators newline/;/parentheses/commas/spaces, upper/lower case, sign +/-/none, property '
        'lists (flags, include, text in {} "" \'\', tags, colour/width/font/dash noise, bare source/background words); matrix lane = '
        'every shape x frame walked systematically; edge lane = six hostile constructs; '
        'non-trivial = >=1 judged comparison; distinct = distinct sub-seeds')
ASSUMPTIONS = [
    'astropy Angle/SkyCoord/units are trusted for building the comparison values (degrees) from the parsed objects',
    'subset boundaries kept out of the grammar: box/ellipse always carry an angle; no trailing-dot or exponent numbers; rotation '
    'angles are bare numbers; the "# text(x,y)" / "# composite(x,y,a)" forms are written lower-case, compact (no blanks inside '
    'the parentheses) and at the start of a physical line; comments never contain ";"; tags never contain ";"; duplicate keys '
    'do not occur on one line; no blanks around "="; text never has leading/trailing blanks or braces inside',
    'hostile-but-valid constructs that the unchanged reader gets wrong are generated only by the "edge" lane, one per document '
    '(numeric-looking text, a text delimiter character at the end of a text written in another delimiter, upper-case TEXT= with '
    '";" inside, global include=0, an unsupported shape or a text containing "||" as last composite member), so that every '
    'other lane stays silent and each defect keeps its own mechanism key',
    'an unsupported frame makes the following region lines frameless until the next supported frame line (DESIGN.md C10)',
    'successive global lines accumulate key-wise (DS9 behaviour)',
    'a flag no level defines may be absent or carry its DS9 default; the ecliptic frame may map to any astropy *ecliptic frame',
    'text / flag values are compared through str() (a label 12 returned as int 12 is accepted, 007 returned as 7 is not)',
]

EQUATORIAL = ('icrs', 'fk5', 'j2000', 'fk4', 'b1950')
FRAMES = ['image', 'icrs', 'fk5', 'j2000', 'fk4', 'b1950', 'galactic', 'ecliptic']
FRAME_FAMILY = {'icrs': 'icrs', 'fk5': 'fk5', 'j2000': 'fk5', 'fk4': 'fk4', 'b1950': 'fk4', 'galactic': 'galactic',
                'ecliptic': 'ecliptic'}
UFRAMES = ['physical', 'linear', 'amplifier', 'detector', 'wcs', 'wcsa', 'wcsq']
USHAPES = ['vector', 'ruler', 'compass', 'projection', 'panda', 'epanda', 'bpanda', 'segment']
SHAPES = ['circle', 'ellipse', 'box', 'annulus', 'polygon', 'line', 'point', 'text', 'annulus+', 'ellipse+', 'box+']
FLAGS = ['select', 'highlite', 'fixed', 'edit', 'move', 'delete', 'rotate']
FLAG_DEFAULT = {'select': 1, 'highlite': 1, 'fixed': 0, 'edit': 1, 'move': 1, 'delete': 1, 'rotate': 1}
EDGES = ['numeric-text', 'nested-delims', 'upper-text-semicolon', 'global-include-0', 'composite-last-unsupported',
         'composite-last-text-bars']
EPS = 2.0 ** -52
# core.py:26-34 is a module-level dict evaluated at import (before line monitoring starts); every one of its keys is looked
# up by read.py:598-599 for the eight frame names below and the result is judged by 'judged:frame' (see required_counters)
ANCHORS_NOT_DRIVEN = ('frame name mapping to astropy frames',)

# mechanism keys of specific, recognised deviations
K_NUMTEXT = 'text-numeric-coerced'
K_NESTED = 'text-nested-delimiter-stripped'
K_UPTEXT = 'uppercase-text-key-semicolon-split'
K_GINC = 'global-include-overridden-by-default-sign'
K_COMP_US = 'composite-not-ended-by-unsupported-last-member'
K_COMP_BARS = 'composite-not-ended-text-contains-bars'


def budget(tier):
    return 34 if tier == 'quick' else 420


def shards(tier):
    return 16


def required_counters(tier):
    return {'judged:count': 150, 'judged:class': 400, 'judged:frame': 400, 'judged:position': 400, 'judged:size': 300,
            'judged:angle': 60, 'judged:include': 400, 'judged:flag': 300, 'judged:text': 60, 'judged:tag': 60, 'judged:fill': 100, 'judged:font': 200,
            'judged:frameless-no-region': 15, 'judged:skip-warns': 30, 'judged:neighbours-unaffected': 30,
            'judged:multi-annulus': 30, 'seen:colon-hours': 20, 'seen:colon-degrees-lon': 10, 'seen:excluded': 50,
            'seen:composite-member': 20, 'judged:skip-no-region': 30,
            **{'frame:' + f: 20 for f in FRAMES}, **{'shape:' + sh.rstrip('+'): 40 for sh in SHAPES},
            **{'seen:' + n: 20 for n in ('coord-bare', 'coord-d', 'coord-r', 'hms', 'dms', 'colon-degrees-lat', 'size-bare',
                                        'size-arcsec', 'size-arcmin', 'size-d', 'size-r', 'pixel-i-suffix')}}


# ---------------------------------------------------------------------------
# generator: structured number tokens
def dec_body(rng, ax, sig=None, plain=False):
    """unsigned plain-decimal text for ax >= 0: no exponent, never a trailing dot."""
    if ax == 0:
        return rng.choice(['0', '0', '0.0', '0.000'])
    sig = sig or rng.choice([3, 4, 6, 8, 10, 13])
    nd = min(15, max(0, sig - 1 - int(math.floor(math.log10(ax)))))
    body = f'{ax:.{nd}f}'
    if '.' in body and rng.random() < 0.5:
        body = body.rstrip('0').rstrip('.')
    if set(body) <= set('0.'):          # rounded to zero
        body = f'{ax:.15f}'.rstrip('0')
    r = 1.0 if plain else rng.random()
    if r < 0.08:
        # the same number in exponent notation (what the DS9 writer itself prints for very small / large values)
        from decimal import Decimal
        e = format(Decimal(body), 'e')
        if rng.random() < 0.3:
            e = e.replace('e-', 'E-').replace('e+', 'E+')
        if rng.random() < 0.5:
            e = e.replace('e+', 'e').replace('E+', 'E')
        body = e
    elif r < 0.14 and body.startswith('0.'):
        body = body[1:]                 # a leading-dot decimal
    return body


def t_num(rng, x, suf='', sig=None, plus=0.06, plain=False):
    sg = '-' if x < 0 else ('+' if rng.random() < plus else '')
    return {'n': 'num', 'sg': sg, 'body': dec_body(rng, abs(x), sig, plain), 'suf': suf, 'up': rng.random() < 0.2}


def t_sexa(rng, kind, x, limit):
    """kind colon/hms/dms; x in the unit of the leading field; |x| <= limit kept by integer arithmetic."""
    nd = rng.choice([0, 1, 2, 3, 4, 6])
    unit = 10 ** nd
    total = int(round(abs(x) * 3600 * unit))
    total = min(total, limit * 3600 * unit)
    a, rem = divmod(total, 3600 * unit)
    b, rem = divmod(rem, 60 * unit)
    ci, cf = divmod(rem, unit)
    pad = rng.random() < 0.7
    c = f'{ci:02d}' if pad else str(ci)
    if nd:
        c += '.' + f'{cf:0{nd}d}'
    neg = x < 0 or (x == 0 and rng.random() < 0.1)
    sg = '-' if neg else ('+' if rng.random() < 0.25 else '')
    a_txt = f'{a:02d}' if (pad and rng.random() < 0.5) else str(a)
    return {'n': kind, 'sg': sg, 'a': a_txt, 'b': b, 'c': c, 'pad': pad, 'up': rng.random() < 0.2}


def rand_lon(rng):
    r = rng.random()
    if r < 0.70:
        return rng.uniform(0, 360)
    if r < 0.90:
        return rng.choice([0.0, 180.0, 359.99999, 15.0, 1e-5, 0.004, 270.0, 345.0, 14.999])
    if r < 0.96:
        return -rng.uniform(0, 180)
    return rng.uniform(360, 400)


def rand_lat(rng):
    r = rng.random()
    if r < 0.70:
        return rng.uniform(-90, 90)
    return rng.choice([90.0, -90.0, 0.0, -0.3, -0.0005, 0.75, 89.9999, -89.9999, -45.5])


def lon_token(rng, frame, lon):
    eq = frame in EQUATORIAL
    kinds = ['bare', 'bare', 'd', 'r', 'colon', 'colon', 'hms' if (eq or rng.random() < 0.2) else 'dms', 'dms']
    k = rng.choice(kinds)
    if lon < 0 or lon >= 360:
        k = rng.choice(['bare', 'd', 'colon' if lon < 0 else 'bare'])
    if k == 'bare':
        return t_num(rng, lon)
    if k == 'd':
        return t_num(rng, lon, 'd', plain=True)
    if k == 'r':
        return t_num(rng, math.radians(lon), 'r', sig=rng.choice([6, 9, 13]), plain=True)
    if k == 'colon':
        return t_sexa(rng, 'colon', lon / 15.0, 24) if eq else t_sexa(rng, 'colon', lon, 360)
    if k == 'hms':
        return t_sexa(rng, 'hms', lon / 15.0, 24)
    return t_sexa(rng, 'dms', lon, 360)


def lat_token(rng, lat):
    k = rng.choice(['bare', 'bare', 'd', 'r', 'colon', 'colon', 'dms'])
    if k == 'bare':
        return t_num(rng, lat)
    if k == 'd':
        return t_num(rng, lat, 'd', plain=True)
    if k == 'r':
        lat = max(-89.9, min(89.9, lat))
        return t_num(rng, math.radians(lat), 'r', sig=rng.choice([6, 9, 13]), plain=True)
    return t_sexa(rng, 'colon' if k == 'colon' else 'dms', lat, 90)


def pix_token(rng, v=None):
    if v is None:
        r = rng.random()
        if r < 0.6:
            v = rng.uniform(-500, 5000)
        elif r < 0.8:
            v = float(rng.randint(-20, 4000))
        else:
            v = rng.choice([0.0, 1.0, 0.5, 1.0000001, 2.0, -1.0, 1e5, 0.999])
    return t_num(rng, v, rng.choice(['', '', '', 'i']))


def coord_tokens(rng, frame, lon=None, lat=None):
    if frame == 'image':
        return [pix_token(rng, lon), pix_token(rng, lat)]
    return [lon_token(rng, frame, rand_lon(rng) if lon is None else lon), lat_token(rng, rand_lat(rng) if lat is None else lat)]


def size_token(rng, frame, v):
    """v in pixels (image) or degrees (sky)."""
    if frame == 'image':
        return t_num(rng, v, rng.choice(['', '', 'i']), plus=0)
    k = rng.choice(['', '"', '"', "'", 'd', 'r'])
    f = {'': 1.0, '"': 3600.0, "'": 60.0, 'd': 1.0, 'r': math.pi / 180}[k]
    return t_num(rng, v * f, k, sig=rng.choice([4, 6, 9, 13]), plus=0)


def rand_size(rng, frame):
    if frame == 'image':
        return rng.choice([math.exp(rng.uniform(math.log(0.01), math.log(1e4))), float(rng.randint(1, 200))])
    return math.exp(rng.uniform(math.log(1e-5), math.log(20.0)))


def angle_token(rng):
    v = rng.choice([rng.uniform(0, 360), rng.uniform(-360, 720), 0.0, 90.0, 45.0, -30.0, 359.9999, float(rng.randint(0, 360))])
    return t_num(rng, v, '', plus=0.03)


def increasing(rng, frame, k):
    v = rand_size(rng, frame)
    out = []
    for _ in range(k):
        out.append(v)
        v *= rng.uniform(1.3, 3.0)
    return out


# ---------------------------------------------------------------------------
# generator: properties
WORDS = ['M31', 'core', 'Src', 'A', 'b2', 'NGC 1275', 'x=1', 'a,b', '(bkg)', 'No.7', 'r<5', '50%', 'a/b', 'Halpha+[NII]',
         'q?', 'jet #2', 'one; two', 'circle(1,2,3)', 'fk5', 'global', 'include=0', 'select=0', 'café', 'α Cen',
         'it is', 'A&A', 'x_y', '-3.5 sigma', '1e3 counts', 'v1.0', '12 arcsec',
         # blanks around '=' inside a delimited value; characters str.splitlines() would split at but DS9 lines do not end at
         'S/N = 5.2', 'a =b', 'a= b', 'page\x0cbreak', 'v\x0bt', 'nel\x85x', 'ls\u2028x', 'ps\u2029x', 'rs\x1ex', 'tab\tx']
TAGW = ['Group 1', 'bkg', 'src_A', 'cluster-3', 'v1.0', 'set', 'X', 'Ring 2']
COLORS = ['red', 'green', 'Blue', 'cyan', 'magenta', 'yellow', 'white', '#0ff', '#FF00AA', '#12ab9f']


def looks_numeric(s):
    try:
        float(s)
        return True
    except ValueError:
        return False


def rand_text(rng, delim, edge=None):
    """(content, delimiter pair); content never contains its closing delimiter, braces, or leading/trailing blanks."""
    close = {'{': '}', '"': '"', "'": "'"}[delim]
    if edge == 'numeric-text':
        return rng.choice(['007', '1.0', '2.50', '1e3', '12', '+5', '3.', '.5', '0012.10', '-0', '1_0', 'nan', 'inf', 'Infinity'])
    if edge == 'nested-delims':
        inner = rng.choice(['x', 'M 31', 'a b c'])
        if delim == '{':
            delim2 = rng.choice(['"', "'"])         # harmless direction, kept as control
            return delim2 + inner + delim2
        if delim == '"':
            return rng.choice(['{' + inner + '}', "'" + inner + "'", "'" + inner, inner + '}'])
        return rng.choice(['{' + inner + '}', '"' + inner + '"', '{' + inner, inner + '"'])
    if edge == 'upper-text-semicolon':
        return rng.choice(['a;b', 'one; two', 'x ;y'])
    if edge == 'composite-last-text-bars':
        return rng.choice(['a||b', 'A || B', '|| end'])
    if rng.random() < 0.04:
        return ''                      # an empty string between the delimiters is a (valid) empty text
    for _ in range(20):
        n = rng.choice([1, 1, 2, 2, 3, 4])
        s = ' '.join(rng.choice(WORDS) for _ in range(n))
        if rng.random() < 0.15 and delim == '{':
            s += rng.choice([" it's", ' say "hi"', ' text="hello"', " text='q'"])
        if rng.random() < 0.1 and delim == '"':
            s += " o'clock"
        if rng.random() < 0.1 and delim == "'":
            s += ' 5" pipe'
        if close in s or '{' in s or '}' in s or '||' in s or looks_numeric(s):
            continue
        if delim != '{' and (s[0] in '\'"' or s[-1] in '\'"'):
            continue
        return s
    return 'label'


def noise_props(rng, shape):
    out = []
    if rng.random() < 0.5:
        out.append(('color', rng.choice(COLORS)))
    if rng.random() < 0.3:
        out.append(('width', str(rng.randint(1, 5))))
    if rng.random() < 0.2 and shape != 'point':
        out.append(('dash', rng.choice(['0', '1'])))
    if rng.random() < 0.2:
        out.append(('dashlist', rng.choice(['8 3', '4 4', '2 6'])))
    if rng.random() < 0.3:
        out.append(('font', '"' + rng.choice(['helvetica 10 normal roman', 'times 12 bold roman', 'courier 14 normal italic',
                                             'helvetica 10 bold', 'times 9', 'courier 12 bold', 'times 11 normal']) + '"'))
    if rng.random() < 0.2 and shape in ('circle', 'ellipse', 'box', 'polygon'):
        out.append(('fill', rng.choice(['0', '1', '1'])))
    if shape == 'point' and rng.random() < 0.7:
        out.append(('point', rng.choice(['circle', 'box', 'diamond', 'cross', 'x', 'arrow', 'boxcircle'])
                    + rng.choice(['', '', ' 7', ' 12'])))
    if shape == 'text' and rng.random() < 0.3:
        out.append(('textangle', str(rng.choice([0, 30, 45, 270]))))
    if shape == 'line' and rng.random() < 0.3:
        out.append(('line', '0 0'))
    if rng.random() < 0.2:
        out.append(('source', '1'))
    return out


def region_props(rng, shape, edge=None, flag_p=0.25, want_text=None):
    props = noise_props(rng, shape)
    for f in FLAGS:
        if rng.random() < flag_p:
            props.append((f, str(rng.randint(0, 1))))
    if rng.random() < 0.18:
        props.append(('include', str(rng.randint(0, 1))))
    has_text = (rng.random() < (0.9 if shape == 'text' else 0.35)) if want_text is None else want_text
    if has_text:
        d = rng.choice(['{', '{', '"', "'"])
        if edge == 'nested-delims':
            d = rng.choice(['"', "'", '"', "'", '{'])
        if edge in ('upper-text-semicolon', 'composite-last-text-bars'):
            d = '{'
        s = rand_text(rng, d, edge)
        props.append(('text', d + s + {'{': '}', '"': '"', "'": "'"}[d]))
    for _ in range(rng.choice([0, 0, 0, 1, 1, 2, 3])):
        props.append(('tag', '{' + rng.choice(TAGW) + '}'))
    rng.shuffle(props)
    if rng.random() < 0.08:                   # DS9 flag words without a value
        props.insert(rng.randint(0, len(props)), (rng.choice(['background', 'source']), None))
    return props


def global_props(rng, include0=False):
    if rng.random() < 0.4:      # the line DS9 itself writes
        props = [('color', 'green'), ('dashlist', '8 3'), ('width', '1'), ('font', '"helvetica 10 normal roman"'),
                 ('select', '1'), ('highlite', '1'), ('dash', '0'), ('fixed', '0'), ('edit', '1'), ('move', '1'),
                 ('delete', '1'), ('include', '1'), ('source', '1')]
        if rng.random() < 0.5:
            i = rng.randrange(len(props))
            if props[i][0] in FLAGS:
                props[i] = (props[i][0], str(1 - int(props[i][1])))
    else:
        props = noise_props(rng, 'circle')
        for f in FLAGS:
            if rng.random() < 0.4:
                props.append((f, str(rng.randint(0, 1))))
        if rng.random() < 0.3:
            props.append(('include', '1'))
        rng.shuffle(props)
        if not props:
            props = [('color', 'green')]
    if include0:
        props = [p for p in props if p[0] != 'include']
        props.insert(rng.randint(0, len(props)), ('include', '0'))
    return props


# ---------------------------------------------------------------------------
# generator: items
def style(rng):
    seps = [rng.choice([',', ',', ', ', ' ', ' ', '  ', ' , ', '\t', ',\t']) for _ in range(40)]
    uniform = rng.random() < 0.6
    if uniform:
        seps = [seps[0]] * 40
    paren = rng.choice(['()', '()', '()', 'bare', ' ()'])
    if paren == 'bare' and all(s.strip() == ',' for s in seps[:1]) and rng.random() < 0.5:
        seps = [' '] * 40
    return {'case': rng.choice([0, 0, 0, 1, 2]), 'kcase': rng.choice([0, 0, 0, 0, 1]), 'paren': paren, 'seps': seps,
            'indent': rng.choice(['', '', '', '', ' ', '   ']), 'trail': rng.choice(['', '', '', ' ']),
            'hashsp': rng.choice([' # ', ' # ', ' #', '# ', '  #  ', '\t# ', '\t#\t']),
            # free white space just inside the parentheses: circle( 10, 20, 3 )
            'pad': rng.choice(['', '', '', '', ' ', '  ', '\t']), 'pad2': rng.choice(['', '', '', ' ', '\t']),
            'sep': rng.choice(['\n', '\n', '\n', '\n', ';', '; ', ';\n', '\n\n']), 'last': rng.choice(['', '\n', '\n', ';'])}


def region_item(rng, frame, shape, edge=None, hashform=None, **kw):
    """frame = frame used to choose in-domain tokens (the model re-derives everything from the tokens)."""
    toks = []
    multi = shape.endswith('+')
    base = shape.rstrip('+')
    if base == 'polygon':
        n = rng.randint(3, 7)
        if frame == 'image':
            cx, cy = rng.uniform(-100, 3000), rng.uniform(-100, 3000)
            for _ in range(n):
                toks += coord_tokens(rng, frame, cx + rng.uniform(-50, 50), cy + rng.uniform(-50, 50))
        else:
            for _ in range(n):
                toks += coord_tokens(rng, frame)
    elif base == 'line':
        toks += coord_tokens(rng, frame) + coord_tokens(rng, frame)
    else:
        toks += coord_tokens(rng, frame)
    if base == 'circle':
        toks.append(size_token(rng, frame, rand_size(rng, frame)))
    elif base == 'annulus':
        for v in increasing(rng, frame, rng.randint(3, 5) if multi else 2):
            toks.append(size_token(rng, frame, v))
    elif base in ('ellipse', 'box'):
        k = rng.randint(2, 4) if multi else 1
        for a, b in zip(increasing(rng, frame, k), increasing(rng, frame, k)):
            toks += [size_token(rng, frame, a), size_token(rng, frame, b)]
        toks.append(angle_token(rng))
    if hashform is None:
        hashform = base == 'text' and rng.random() < 0.5
    if hashform:
        kw['want_text'] = True            # the "# text(x,y) ..." form always carries its text
    props = region_props(rng, base, edge, **kw)
    sign = '' if hashform else rng.choice(['', '', '', '', '-', '-', '+'])
    st = style(rng)
    if edge != 'upper-text-semicolon' and any(k == 'text' and ';' in v for k, v in props):
        st['kcase'] = 0                   # upper-case TEXT= with ';' inside is generated by the edge lane only
    return {'k': 'region', 'shape': base, 'sign': sign, 'toks': toks, 'props': props, 'hash': bool(hashform),
            'st': st, 'comp': None}


def mixed_item(rng, frame):
    """a region whose numbers mix image and sky units (the documented unsupported case)."""
    shape = rng.choice(['circle', 'circle', 'ellipse', 'box', 'annulus', 'point', 'line', 'polygon', 'annulus+', 'text'])
    it = region_item(rng, frame, shape, hashform=False)
    base = it['shape']
    ncoord = {'polygon': len(it['toks']), 'line': 4}.get(base, 2)
    nsize = len(it['toks']) - ncoord - (1 if base in ('ellipse', 'box') else 0)
    if nsize > 0 and rng.random() < 0.7:
        j = ncoord + rng.randrange(nsize)
        v = rand_size(rng, 'fk5' if frame == 'image' else 'image')
        if frame == 'image':
            it['toks'][j] = t_num(rng, v * 3600, rng.choice(['"', "'", 'd', 'r', 'p']), plus=0)
        else:
            it['toks'][j] = t_num(rng, v, rng.choice(['i', 'p']), plus=0)
    else:
        j = rng.randrange(ncoord)
        if frame == 'image':
            it['toks'][j] = rng.choice([t_num(rng, rng.uniform(0, 90), rng.choice(['d', 'r', 'p'])),
                                        t_sexa(rng, 'colon', rng.uniform(0, 20), 24),
                                        t_sexa(rng, 'dms', rng.uniform(0, 80), 90)])
        else:
            it['toks'][j] = t_num(rng, rng.uniform(1, 80), rng.choice(['i', 'p']))
    it['want'] = 'mixed'
    return it


def ushape_item(rng, frame):
    name = rng.choice(USHAPES)
    toks = coord_tokens(rng, frame)
    if name in ('vector', 'compass', 'projection', 'ruler', 'segment'):
        if name in ('ruler', 'projection', 'segment'):
            toks += coord_tokens(rng, frame)
        if name in ('vector', 'compass', 'projection'):
            toks.append(size_token(rng, frame, rand_size(rng, frame)))
        if name == 'vector':
            toks.append(angle_token(rng))
    else:
        toks += [t_num(rng, 0.0), t_num(rng, 360.0), t_num(rng, 4.0)]
        rs = increasing(rng, frame, 4 if name != 'panda' else 2)
        toks += [size_token(rng, frame, v) for v in rs] + [t_num(rng, 1.0)]
        if name != 'panda':
            toks.append(angle_token(rng))
    props = noise_props(rng, 'circle')
    if name == 'vector':
        props.append(('vector', '1'))
    if name == 'ruler':
        props.append(('ruler', 'fk5 degrees'))
    if name == 'compass':
        props.append(('compass', 'fk5 {N} {E} 1 1'))
    hashform = name in ('vector', 'ruler', 'compass', 'projection', 'segment') and rng.random() < 0.4
    return {'k': 'ushape', 'shape': name, 'sign': '' if hashform else rng.choice(['', '', '-']), 'toks': toks, 'props': props,
            'hash': hashform, 'st': style(rng), 'comp': None}


COMMENTS = ['# Region file format: DS9 version 4.1', '# Filename: /data/img.fits[SCI]', '#', '# fk5', '# image', '# galactic',
            '# global color=red select=0 include=0 fixed=1', '# circle(10,20,5)', '# -box(1,2,3,4,0) # color=red', '#circle(1,2,3)',
            '# physical', '# texture map', '# composition note', '#text', '# a note about text={not a label}', '## double',
            '# point(5,5) # point=cross', '#global move=0', '# -ellipse 1 2 3 4 5', '# tile 2']


def comment_item(rng):
    st = style(rng)
    st['sep'] = rng.choice(['\n', '\n', '\n\n'])
    return {'k': 'comment', 'text': rng.choice(COMMENTS), 'st': st}


def frame_item(rng, name):
    return {'k': 'frame', 'name': name, 'st': style(rng)}


def uframe_item(rng):
    return {'k': 'uframe', 'name': rng.choice(UFRAMES), 'st': style(rng)}


def global_item(rng, include0=False):
    return {'k': 'global', 'props': global_props(rng, include0), 'st': style(rng)}


def composite_block(rng, frame, cid, edge=None):
    tf = frame or 'image'
    props = [('composite', '1')]
    if rng.random() < 0.6:
        props.append(('color', rng.choice(COLORS)))
    for f in FLAGS:
        if rng.random() < 0.45:
            props.append((f, str(1 - FLAG_DEFAULT[f]) if rng.random() < 0.8 else str(FLAG_DEFAULT[f])))
    if rng.random() < 0.3:
        props.append(('width', str(rng.randint(1, 4))))
    head = {'k': 'composite', 'toks': coord_tokens(rng, tf) + [angle_token(rng)], 'props': props, 'st': style(rng), 'comp': cid}
    members = []
    for _ in range(rng.randint(1, 4)):
        shape = rng.choice(SHAPES)
        m = region_item(rng, tf, shape, flag_p=0.15)
        if rng.random() < 0.08:
            m = ushape_item(rng, tf) if rng.random() < 0.5 else mixed_item(rng, tf)
            m['hash'] = False
        members.append(m)
    if members[-1]['k'] != 'region':          # an unsupported shape as LAST member is generated by the edge lane only
        members.append(region_item(rng, tf, rng.choice(SHAPES), flag_p=0.15))
    if edge and not any(k in FLAGS and v != str(FLAG_DEFAULT[k]) for k, v in props):
        f = rng.choice(FLAGS)
        props[:] = [p for p in props if p[0] != f] + [(f, str(1 - FLAG_DEFAULT[f]))]
    if edge == 'composite-last-unsupported':
        u = ushape_item(rng, tf)
        u['hash'] = False
        u['sign'] = ''
        members.append(u)
    if edge == 'composite-last-text-bars':
        members.append(region_item(rng, tf, rng.choice(['circle', 'box', 'point', 'text']), edge=edge, want_text=True,
                                   hashform=False))
    for m in members:
        m['comp'] = cid
    if rng.random() < 0.15:
        members.insert(rng.randrange(len(members)), comment_item(rng))     # comments may sit between members
    return [head] + members


def gen_doc(rng, lane, edge=None):
    items = []
    frame = None
    cid = [0]

    def add_frame(name=None):
        nonlocal frame
        frame = name or rng.choice(FRAMES)
        items.append(frame_item(rng, frame))

    if rng.random() < 0.5:
        items.append(comment_item(rng))
    if rng.random() < (0.9 if lane in ('meta', 'composite') else 0.45) or edge == 'global-include-0':
        items.append(global_item(rng, include0=(edge == 'global-include-0')))
    if rng.random() < (0.6 if lane == 'skips' else 0.9):
        add_frame()
    n = rng.randint(1, 12)
    w = {'region': 55, 'frame': 12, 'global': 5, 'comment': 6, 'ushape': 5, 'mixed': 4, 'uframe': 3, 'composite': 5}
    if lane == 'skips':
        w.update(ushape=18, mixed=14, uframe=10, frame=16)
    if lane == 'meta':
        w.update({'global': 16, 'composite': 10})
    if lane == 'composite':
        w.update(composite=30)
    kinds, weights = list(w), list(w.values())
    for _ in range(n):
        k = rng.choices(kinds, weights)[0]
        tf = frame or rng.choice(FRAMES)           # tokens for frameless lines are drawn as for some frame
        if k == 'region':
            items.append(region_item(rng, tf, rng.choice(SHAPES), flag_p=0.4 if lane == 'meta' else 0.2))
        elif k == 'frame':
            add_frame()
        elif k == 'global':
            items.append(global_item(rng, include0=(edge == 'global-include-0' and rng.random() < 0.5)))
        elif k == 'comment':
            items.append(comment_item(rng))
        elif k == 'ushape':
            items.append(ushape_item(rng, tf))
        elif k == 'mixed':
            items.append(mixed_item(rng, tf))
        elif k == 'uframe':
            items.append(uframe_item(rng))
            frame = None
        elif k == 'composite':
            cid[0] += 1
            items.extend(composite_block(rng, frame, cid[0]))
    if edge in ('composite-last-unsupported', 'composite-last-text-bars'):
        if frame is None:
            add_frame()
        cid[0] += 1
        items.extend(composite_block(rng, frame, cid[0], edge))
        for _ in range(rng.randint(1, 2)):
            items.append(region_item(rng, frame, rng.choice(['circle', 'box', 'point', 'polygon']), flag_p=0.1))
    if edge in ('numeric-text', 'nested-delims', 'upper-text-semicolon'):
        if frame is None:
            add_frame()
        for _ in range(rng.randint(1, 2)):
            it = region_item(rng, frame, rng.choice(['circle', 'text', 'box', 'point']), edge=edge, want_text=True)
            if edge == 'upper-text-semicolon':
                it['st']['kcase'] = 1
                it['st']['sep'] = '\n'
            items.append(it)
            if rng.random() < 0.5:
                items.append(region_item(rng, frame, rng.choice(SHAPES)))
    if edge == 'global-include-0':
        if frame is None:
            add_frame()
        for _ in range(rng.randint(1, 3)):
            it = region_item(rng, frame, rng.choice(SHAPES))
            if rng.random() < 0.6:
                it['sign'] = ''
            items.append(it)
    fix_layout(items)
    return items


def matrix_doc(rng, idx):
    shape = SHAPES[idx % len(SHAPES)]
    frame = FRAMES[(idx // len(SHAPES)) % len(FRAMES)]
    items = []
    if rng.random() < 0.3:
        items.append(global_item(rng))
    items.append(frame_item(rng, frame))
    items.append(region_item(rng, frame, shape))
    if rng.random() < 0.5:
        items.append(region_item(rng, frame, shape))
    fix_layout(items)
    return items


def fix_layout(items):
    """layout constraints of the supported subset: the '# text(' / '# composite(' forms and comments start a physical line;
    comments end with a newline."""
    for i, it in enumerate(items):
        needs_line_start = it['k'] in ('comment', 'composite') or it.get('hash')
        if needs_line_start:
            it['st']['indent'] = ''
            if i > 0 and not items[i - 1]['st']['sep'].endswith('\n'):
                items[i - 1]['st']['sep'] = '\n'
        if it['k'] == 'comment' and not it['st']['sep'].endswith('\n'):
            it['st']['sep'] = '\n'


# ---------------------------------------------------------------------------
# renderer (AST -> text); never consulted by the model
def tok_text(t):
    if t['n'] == 'num':
        s = t['sg'] + t['body'] + t['suf']
    else:
        b = f"{t['b']:02d}" if t['pad'] else str(t['b'])
        if t['n'] == 'colon':
            s = f"{t['sg']}{t['a']}:{b}:{t['c']}"
        elif t['n'] == 'hms':
            s = f"{t['sg']}{t['a']}h{b}m{t['c']}s"
        else:
            s = f"{t['sg']}{t['a']}d{b}m{t['c']}s"
    return s.upper() if t['up'] else s


def cased(word, mode):
    return word if mode == 0 else word.upper() if mode == 1 else word.capitalize()


def props_text(props, kcase):
    return ' '.join(cased(k, kcase) if v is None else f"{cased(k, kcase)}={v}" for k, v in props)


def params_text(toks, st):
    s = ''
    for i, t in enumerate(toks):
        if i:
            s += st['seps'][i % len(st['seps'])]
        s += tok_text(t)
    if st['paren'] == '()':
        return '(' + st.get('pad', '') + s + st.get('pad2', '') + ')'
    if st['paren'] == ' ()':
        return ' (' + st.get('pad', '') + s + st.get('pad2', '') + ')'
    return ' ' + s


def mark_cont(items):
    """a composite member is followed by '||' unless it is the last member of its block (comments do not count)."""
    nxt = None
    for it in reversed(items):
        if it['k'] == 'comment':
            continue
        c = it.get('comp')
        it['cont'] = bool(c is not None and nxt is not None and nxt.get('comp') == c)
        nxt = it


def render_item(it):
    st = it['st']
    k = it['k']
    if k == 'comment':
        return it['text']
    if k in ('frame', 'uframe'):
        return st['indent'] + cased(it['name'], st['case']) + st['trail']
    if k == 'global':
        return st['indent'] + cased('global', st['case']) + ' ' + props_text(it['props'], st['kcase']) + st['trail']
    if k == 'composite':
        st2 = dict(st, paren='()', seps=[','], pad='', pad2='')
        return '# composite' + params_text(it['toks'], st2) + ' || ' + props_text(it['props'], 0)
    # region / ushape
    if it['hash']:
        st2 = dict(st, paren='()', seps=[','], pad='', pad2='')
        s = '# ' + it['shape'] + params_text(it['toks'], st2)
        if it['cont']:
            s += ' ||'
        if it['props']:
            s += ' ' + props_text(it['props'], st['kcase'])
        elif not it['cont']:
            s += ' '
        return s
    s = st['indent'] + it['sign'] + cased(it['shape'], st['case']) + params_text(it['toks'], st)
    if it['cont']:
        s += ' ||'
    if it['props']:
        s += st['hashsp'] + props_text(it['props'], st['kcase'])
    return s + st['trail']


def render(items):
    mark_cont(items)
    out = []
    for i, it in enumerate(items):
        out.append(render_item(it))
        out.append(it['st']['sep'] if i + 1 < len(items) else ('\n' if it['k'] == 'comment' else it['st']['last']))
    return ''.join(out)


# ---------------------------------------------------------------------------
# the model: DS9 conventions applied to the AST
class Mixed(Exception):
    pass


def t_frac(t):
    v = Fraction(t['body'])
    return -v if t['sg'] == '-' else v


def t_sexa_frac(t):
    v = int(t['a']) + Fraction(t['b'], 60) + Fraction(t['c']) / 3600
    return -v if t['sg'] == '-' else v


def m_coord(t, frame, is_lon, seen):
    """-> (value, scale): 0-based pixel, or degrees."""
    if frame == 'image':
        if t['n'] == 'num' and t['suf'] in ('', 'i'):
            v = float(t_frac(t))
            if t['suf']:
                seen.add('pixel-i-suffix')
            return v - 1.0, abs(v) + 1.0            # 1-based -> 0-based
        raise Mixed()
    if t['n'] == 'num':
        if t['suf'] in ('', 'd'):
            seen.add('coord-' + (t['suf'] or 'bare'))
            return float(t_frac(t)), 360.0
        if t['suf'] == 'r':
            seen.add('coord-r')
            return math.degrees(float(t_frac(t))), 360.0
        raise Mixed()
    v = t_sexa_frac(t)
    if t['n'] == 'hms' or (t['n'] == 'colon' and is_lon and frame in EQUATORIAL):
        seen.add('colon-hours' if t['n'] == 'colon' else 'hms')
        return float(v * 15), 360.0
    seen.add(('colon-degrees-lon' if is_lon else 'colon-degrees-lat') if t['n'] == 'colon' else 'dms')
    return float(v), 360.0


def m_size(t, frame, seen):
    if t['n'] != 'num':
        raise Mixed()
    v = t_frac(t)
    if frame == 'image':
        if t['suf'] in ('', 'i'):
            return float(v)                          # sizes are not shifted
        raise Mixed()
    suf = t['suf']
    seen.add('size-' + {'': 'bare', '"': 'arcsec', "'": 'arcmin'}.get(suf, suf))
    if suf in ('', 'd'):
        return float(v)
    if suf == '"':
        return float(v / 3600)
    if suf == "'":
        return float(v / 60)
    if suf == 'r':
        return math.degrees(float(v))
    raise Mixed()


def prop_text_value(v):
    return v[1:-1]          # the generator always writes text/tag values inside one delimiter pair


def m_region(it, frame, seen):
    """expected region descriptors of one region line in a (supported) frame; raises Mixed."""
    shape, toks = it['shape'], it['toks']
    kind = 'Pixel' if frame == 'image' else 'Sky'

    def pos(i):
        return [m_coord(toks[i], frame, True, seen), m_coord(toks[i + 1], frame, False, seen)]

    if shape == 'polygon':
        pts = [pos(i) for i in range(0, len(toks), 2)]
        return [dict(cls='Polygon' + kind + 'Region', pos=pts, sizes=[], angle=None)]
    if shape == 'line':
        return [dict(cls='Line' + kind + 'Region', pos=[pos(0), pos(2)], sizes=[], angle=None)]
    c = pos(0)
    if shape in ('point', 'text'):
        return [dict(cls=shape.capitalize() + kind + 'Region', pos=[c], sizes=[], angle=None)]
    if shape == 'circle':
        return [dict(cls='Circle' + kind + 'Region', pos=[c], sizes=[m_size(toks[2], frame, seen)], angle=None)]
    if shape == 'annulus':
        r = [m_size(t, frame, seen) for t in toks[2:]]
        return [dict(cls='CircleAnnulus' + kind + 'Region', pos=[c], sizes=[r[i], r[i + 1]], angle=None, multi=len(r) > 2)
                for i in range(len(r) - 1)]
    # ellipse / box: pairs then the angle
    if toks[-1]['n'] != 'num' or toks[-1]['suf']:
        raise Mixed()
    ang = float(t_frac(toks[-1]))                  # bare number = degrees
    s = [m_size(t, frame, seen) for t in toks[2:-1]]
    f = 2.0 if shape == 'ellipse' else 1.0          # ellipse radii are semi-axes; box sizes are full sizes
    pairs = [(f * s[i], f * s[i + 1]) for i in range(0, len(s), 2)]
    name = 'Ellipse' if shape == 'ellipse' else 'Rectangle'
    if len(pairs) == 1:
        return [dict(cls=name + kind + 'Region', pos=[c], sizes=list(pairs[0]), angle=ang)]
    return [dict(cls=name + 'Annulus' + kind + 'Region', pos=[c], sizes=[*pairs[i], *pairs[i + 1]], angle=ang,
                 multi=len(pairs) > 2) for i in range(len(pairs) - 1)]


def model(items):
    """-> (expected regions, per-item status).  status: 'regions' | 'skip-warn' | 'frameless' | 'neutral'."""
    mark_cont(items)
    frame = None
    glob = {}
    comp = {}
    ended = None                                      # (properties, how it ended, index of its last member) of the last closed composite
    exp, status, ctx = [], [], []
    seen = set()
    for idx, it in enumerate(items):
        k = it['k']
        ctx.append(frame)
        if k in ('comment',):
            status.append('neutral')
        elif k == 'frame':
            frame = it['name']
            status.append('neutral')
        elif k == 'uframe':
            frame = None                              # regions that follow have no usable frame
            status.append('skip-warn')
        elif k == 'global':
            for key, v in it['props']:
                glob[key] = v
            status.append('neutral')
        elif k == 'composite':
            if frame is None:
                status.append('frameless')
            else:
                comp = {key: v for key, v in it['props'] if key != 'composite'}
                status.append('neutral')
        else:
            if frame is None:
                status.append('frameless')
            elif k == 'ushape':
                status.append('skip-warn' if not it['hash'] else 'skip-silent')
            else:
                try:
                    seen_local = set()
                    regs = m_region(it, frame, seen_local)
                except Mixed:
                    regs = None
                if regs is None:
                    status.append('skip-warn')
                else:
                    seen |= seen_local
                    own = {}
                    tags = []
                    for key, v in it['props']:
                        if key == 'tag':
                            tags.append(prop_text_value(v))
                        else:
                            own[key] = v
                    # precedence: region property > sign > composite > global
                    if 'include' in own:
                        inc = own['include'] == '1'
                    elif it['sign'] in ('-', '+'):
                        inc = it['sign'] == '+'
                    elif 'include' in comp:
                        inc = comp['include'] == '1'
                    elif 'include' in glob:
                        inc = glob['include'] == '1'
                    else:
                        inc = True
                    flags = {}
                    for f in FLAGS:
                        for level in (own, comp, glob):
                            if f in level:
                                flags[f] = level[f]
                                break
                    fill = next((level['fill'] for level in (own, comp, glob) if 'fill' in level), None)
                    font = next((level['font'] for level in (own, comp, glob) if 'font' in level), None)
                    for r in regs:
                        r.update(frame=frame, include=inc, flags=flags, tags=tags, item=idx, shape=it['shape'], fill=fill, font=font,
                                 text=prop_text_value(own['text']) if 'text' in own else None,
                                 inc_src=('prop' if 'include' in own else 'sign' if it['sign'] else
                                          'global' if 'include' in glob else 'default'),
                                 in_comp=it.get('comp') is not None, ended=ended, kcase=it['st']['kcase'])
                    exp.extend(regs)
                    status.append('regions')
            # the composite ends with its first member line that is not followed by '||'
            if it.get('comp') is not None and not it['cont']:
                how = 'unsupported-shape' if k == 'ushape' else 'text-with-bars' if any(
                    key == 'text' and '||' in v for key, v in it['props']) else 'normal'
                if frame is not None:
                    ended = (comp, how, idx)
                comp = {}
    return exp, status, ctx, seen


def reduced(items, status):
    """the document without the items that must be skipped (and without composite headers left memberless)."""
    keep = [it for it, s in zip(items, status) if s not in ('skip-warn', 'skip-silent', 'frameless')]
    out = []
    for i, it in enumerate(keep):
        if it['k'] == 'composite' and not any(o.get('comp') == it['comp'] for o in keep[i + 1:]):
            continue
        out.append(dict(it, st=dict(it['st'])))
    fix_layout(out)
    return out


# ---------------------------------------------------------------------------
# observation of the real parser
def parse(text):
    from regions import Regions
    with warnings.catch_warnings(record=True) as w:
        warnings.simplefilter('always')
        regs = list(Regions.parse(text, format='ds9'))
    return regs, [x for x in w if issubclass(x.category, Warning)]


GETTERS = {
    'Circle': (['center'], ['radius'], None),
    'Ellipse': (['center'], ['width', 'height'], 'angle'),
    'Rectangle': (['center'], ['width', 'height'], 'angle'),
    'CircleAnnulus': (['center'], ['inner_radius', 'outer_radius'], None),
    'EllipseAnnulus': (['center'], ['inner_width', 'inner_height', 'outer_width', 'outer_height'], 'angle'),
    'RectangleAnnulus': (['center'], ['inner_width', 'inner_height', 'outer_width', 'outer_height'], 'angle'),
    'Polygon': (['vertices'], [], None),
    'Line': (['start', 'end'], [], None),
    'Point': (['center'], [], None),
    'Text': (['center'], [], None),
}


def observe(reg):
    """-> dict(cls, frame, equinox, pos [[x, y], ...], sizes [...], angle) in pixels / degrees; raises ValueError
    with a mechanism word when the object does not have the expected kind of attribute."""
    import numpy as np
    import astropy.units as u
    from astropy.coordinates import SkyCoord
    from regions import PixCoord
    cls = type(reg).__name__
    base = cls.replace('PixelRegion', '').replace('SkyRegion', '')
    if base not in GETTERS:
        raise ValueError('unknown-class')
    pnames, snames, aname = GETTERS[base]
    out = {'cls': cls, 'frame': None, 'equinox': None, 'pos': [], 'sizes': [], 'angle': None}
    sky = cls.endswith('SkyRegion')
    for n in pnames:
        c = getattr(reg, n)
        if sky:
            if not isinstance(c, SkyCoord):
                raise ValueError('position-not-skycoord')
            out['frame'] = c.frame.name
            eq = getattr(c.frame, 'equinox', None)
            out['equinox'] = str(eq.value) if eq is not None else None
            lon = np.atleast_1d(c.data.lon.to_value(u.deg))
            lat = np.atleast_1d(c.data.lat.to_value(u.deg))
            out['pos'] += [[float(a), float(b)] for a, b in zip(lon, lat)]
        else:
            if not isinstance(c, PixCoord):
                raise ValueError('position-not-pixcoord')
            out['frame'] = 'image'
            out['pos'] += [[float(a), float(b)] for a, b in zip(np.atleast_1d(c.x), np.atleast_1d(c.y))]
    for n in snames:
        v = getattr(reg, n)
        if sky:
            if not isinstance(v, u.Quantity) or not v.unit.is_equivalent(u.deg):
                raise ValueError('sky-size-not-angular')
            out['sizes'].append(float(v.to_value(u.deg)))
        else:
            if isinstance(v, u.Quantity):
                raise ValueError('pixel-size-has-unit')
            out['sizes'].append(float(v))
    if aname:
        v = getattr(reg, aname)
        if not isinstance(v, u.Quantity) or not v.unit.is_equivalent(u.deg):
            raise ValueError('angle-not-angular')
        out['angle'] = float(v.to_value(u.deg))
    return out


def fingerprint(reg):
    """exact, order-sensitive description used for the with/without comparison (both sides come from the parser)."""
    import numpy as np
    import astropy.units as u
    from astropy.coordinates import SkyCoord
    from regions import PixCoord

    def fp(v):
        if isinstance(v, PixCoord):
            return ('pix', np.asarray(v.x).tolist(), np.asarray(v.y).tolist())
        if isinstance(v, SkyCoord):
            return ('sky', v.frame.name, np.asarray(v.data.lon.deg).tolist(), np.asarray(v.data.lat.deg).tolist())
        if isinstance(v, u.Quantity):
            return ('q', np.asarray(v.value).tolist(), str(v.unit))
        if isinstance(v, dict):
            return tuple((k, fp(x)) for k, x in v.items())
        if isinstance(v, (list, tuple)):
            return tuple(fp(x) for x in v)
        if isinstance(v, float):
            return repr(v)                  # nan-safe
        if isinstance(v, (int, str, bool)) or v is None:
            return v
        return type(v).__name__
    return (type(reg).__name__, tuple((n, fp(getattr(reg, n))) for n in reg._params), fp(dict(reg.meta)), fp(dict(reg.visual)))


# ---------------------------------------------------------------------------
# comparison
def close_rel(got, exp, scale=0.0):
    return abs(got - exp) <= 1e-9 * abs(exp) + 4 * EPS * scale + 1e-300


def lon_close(got, exp):
    d = (got - exp + 180.0) % 360.0 - 180.0
    return abs(d) <= 1e-9 * abs(exp % 360.0) + 8 * EPS * 360.0


RATIO_KEYS = [(15.0, 'sexagesimal-hours-vs-degrees'), (1 / 15.0, 'sexagesimal-hours-vs-degrees'), (60.0, 'arcmin-arcsec-unit'),
              (1 / 60.0, 'arcmin-arcsec-unit'), (3600.0, 'arcsec-degree-unit'), (1 / 3600.0, 'arcsec-degree-unit'),
              (180 / math.pi, 'radian-degree-unit'), (math.pi / 180, 'radian-degree-unit'), (2.0, 'factor-2'), (0.5, 'factor-2'),
              (-1.0, 'sign-lost')]


def ratio_key(got, exp):
    if exp != 0:
        for r, name in RATIO_KEYS:
            if abs(got - r * exp) <= 1e-7 * abs(r * exp):
                return name
    return None


def classify_value(what, e, got, exp, j):
    """mechanism key for one deviating number."""
    pixel = e['frame'] == 'image'
    if what == 'position':
        if pixel:
            if abs(got - (exp + 1)) <= 1e-7 * (abs(exp) + 1):
                return 'pixel-position-not-shifted-to-0-based'
            if abs(got - (exp - 1)) <= 1e-7 * (abs(exp) + 1):
                return 'pixel-position-shifted-twice'
            return 'pixel-position-value'
        rk = ratio_key(got, exp) or ratio_key(got, exp % 360.0)
        axis = 'lon' if j % 2 == 0 else 'lat'
        return f'sky-{axis}-{rk}' if rk else f'sky-{axis}-value'
    if what == 'size':
        if pixel and (abs(got - (exp - 1)) <= 1e-7 * (abs(exp) + 1) or abs(got - (exp + 1)) <= 1e-7 * (abs(exp) + 1)):
            return 'pixel-size-shifted'
        rk = ratio_key(got, exp)
        if rk == 'factor-2':
            return {'ellipse': 'ellipse-semi-axes-not-doubled', 'box': 'box-size-doubled'}.get(e['shape'], e['shape'] + '-size-factor-2')
        return f"{'pixel' if pixel else 'sky'}-size-{rk}" if rk else f"{e['shape']}-size-value"
    rk = ratio_key(got, exp)
    return f'angle-{rk}' if rk else 'angle-value'


def compare_region(obs, e, reg, case):
    """judge one parsed region against its expected descriptor."""
    try:
        g = observe(reg)
    except ValueError as exc:
        obs.violation(str(exc), f'{type(reg).__name__}: {exc}', expected=e)
        return
    if not obs.check(g['cls'] == e['cls'], 'class-mismatch:' + e['shape'], f"expected {e['cls']} got {g['cls']}", 'class'):
        return
    # frame
    if e['frame'] == 'image':
        ok = g['frame'] == 'image'
    else:
        fam = FRAME_FAMILY[e['frame']]
        ok = ('ecliptic' in g['frame']) if fam == 'ecliptic' else g['frame'] == fam
        if ok and fam == 'fk5':
            ok = str(g['equinox']).startswith('J2000')
        if ok and fam == 'fk4':
            ok = str(g['equinox']).startswith('B1950')
    obs.check(ok, 'frame-mismatch', f"line in frame {e['frame']} gave {g['frame']} (equinox {g['equinox']})", 'frame')
    # positions
    if len(g['pos']) != len(e['pos']):
        obs.violation('vertex-count', f"{e['cls']}: {len(g['pos'])} points, expected {len(e['pos'])}")
    else:
        for i, (gp, ep) in enumerate(zip(g['pos'], e['pos'])):
            for j in (0, 1):
                ev, scale = ep[j]
                if e['frame'] == 'image':
                    okv = close_rel(gp[j], ev, scale)
                elif j == 0:
                    okv = lon_close(gp[j], ev)
                else:
                    okv = close_rel(gp[j], ev, 0.0) or abs(gp[j] - ev) <= 1e-15
                if not okv:
                    obs.violation(classify_value('position', e, gp[j], ev, j),
                                  f"{e['cls']} in {e['frame']}: point {i} {'xy'[j] if e['frame'] == 'image' else ('lon', 'lat')[j]} "
                                  f"= {gp[j]!r}, the text denotes {ev!r}", text=case.get('_text'))
                else:
                    obs.ok(1, 'position')
    # sizes
    for i, (gv, ev) in enumerate(zip(g['sizes'], e['sizes'])):
        if close_rel(gv, ev):
            obs.ok(1, 'size')
        else:
            obs.violation(classify_value('size', e, gv, ev, i), f"{e['cls']} in {e['frame']}: size #{i} = {gv!r}, the text denotes {ev!r}",
                          text=case.get('_text'))
    if e.get('multi'):
        obs.ok(1, 'multi-annulus')
    if e['angle'] is not None:
        if close_rel(g['angle'], e['angle']):
            obs.ok(1, 'angle')
        else:
            obs.violation(classify_value('angle', e, g['angle'], e['angle'], 0),
                          f"{e['cls']}: angle {g['angle']!r}, the text denotes {e['angle']!r} deg", text=case.get('_text'))
    meta = dict(reg.meta)
    # text
    if e['text'] is not None:
        gt = getattr(reg, 'text', None) if e['shape'] == 'text' else meta.get('text')
        if gt is not None and str(gt) == e['text']:
            obs.ok(1, 'text')
        else:
            if looks_numeric(e['text']) and not isinstance(gt, str) and gt is not None:
                key = K_NUMTEXT
            elif gt is not None and isinstance(gt, str) and gt != e['text'] and gt in e['text'] and (
                    e['text'][0] in '{\'"' or e['text'][-1] in '}\'"'):
                key = K_NESTED
            elif e['kcase'] == 1 and ';' in e['text'] and isinstance(gt, str) and e['text'].split(';')[0].rstrip() == gt:
                key = K_UPTEXT
            else:
                key = 'text-not-verbatim'
            obs.violation(key, f"{e['cls']}: text {gt!r}, the file says {e['text']!r}", text=case.get('_text'))
            if key == K_UPTEXT:
                return          # the rest of this line's property list was cut off with the text: one mechanism, one report
    # include
    ginc = bool(meta.get('include', True))
    if ginc == e['include']:
        obs.ok(1, 'include')
    else:
        if e['inc_src'] == 'global' and ginc:
            key = K_GINC
        elif e['inc_src'] == 'prop':
            key = 'include-property-not-overriding-sign'
        elif e['inc_src'] == 'sign':
            key = 'include-sign-ignored'
        else:
            key = 'include-default-wrong'
        obs.violation(key, f"{e['cls']}: include={meta.get('include')!r}, expected {'included' if e['include'] else 'excluded'} "
                      f"(decided by {e['inc_src']})", text=case.get('_text'))
    # flags: region > composite > global
    for f in FLAGS:
        if f in e['flags']:
            okf = f in meta and str(meta[f]) == e['flags'][f]
        else:
            okf = f not in meta or str(meta[f]) == str(FLAG_DEFAULT[f])
        if okf:
            obs.ok(1, 'flag')
        else:
            key = 'property-precedence' if f in e['flags'] else 'property-appeared'
            # a closed composite whose properties still act on a region outside it
            if not e['in_comp'] and e['ended'] and f in e['ended'][0] and str(meta.get(f)) == e['ended'][0][f]:
                key = {'unsupported-shape': K_COMP_US, 'text-with-bars': K_COMP_BARS}.get(e['ended'][1], 'composite-properties-leak-past-end')
            obs.violation(key, f"{e['cls']}: {f}={meta.get(f)!r}, expected {e['flags'].get(f, 'absent/default')} "
                          f"(region > composite > global)", text=case.get('_text'))
    # fill=1 makes a filled region of the four shapes DS9 can fill (circle, ellipse, box, polygon - not their annulus expansions)
    if e.get('fill') is not None and 'Annulus' not in e['cls']:
        want = e['fill'] == '1' and e['shape'] in ('circle', 'ellipse', 'box', 'polygon')
        gotf = bool(dict(reg.visual).get('fill', False))
        obs.check(gotf == want, 'fill-property-wrong', f"{e['cls']} ({e['shape']} line): fill={e['fill']} gives visual fill={dict(reg.visual).get('fill')!r}", 'fill',
                  text=case.get('_text'))
    # font="family size weight slant": missing items take DS9's defaults (10, normal, roman); 'roman' is the upright style
    if e.get('font'):
        items = e['font'].strip('"\'{}').split()
        want = {'fontname': items[0].lower(), 'fontsize': int(items[1]) if len(items) > 1 else 10,
                'fontweight': items[2].lower() if len(items) > 2 else 'normal',
                'fontstyle': {'roman': 'normal'}.get(items[3].lower(), items[3].lower()) if len(items) > 3 else 'normal'}
        vis = dict(reg.visual)
        gotf = {k: (str(vis.get(k)).lower() if k != 'fontsize' else vis.get(k)) for k in want}
        okf = all(str(gotf[k]) == str(want[k]) for k in want)
        obs.check(okf, 'font-property-wrong', f"{e['cls']}: font={e['font']} gives {gotf}, the format defines {want}", 'font', text=case.get('_text'))
    # tags
    gtags = meta.get('tag', [])
    if e['tags'] or gtags:
        obs.check(isinstance(gtags, list) and [str(t) for t in gtags] == e['tags'], 'tags-mismatch',
                  f"{e['cls']}: tags {gtags!r}, expected {e['tags']!r}", 'tag', text=case.get('_text'))


def count_key(items, status, exp, regs):
    ecls = [e['cls'] for e in exp]
    gcls = [type(r).__name__ for r in regs]
    i = 0
    while i < min(len(ecls), len(gcls)) and ecls[i] == gcls[i]:
        i += 1
    if len(gcls) > len(ecls):
        lo = exp[i - 1]['item'] if i > 0 else -1
        hi = exp[i]['item'] if i < len(exp) else len(items)
        between = set(status[lo + 1:hi])
        if 'frameless' in between:
            return 'region-from-frameless-line'
        if 'skip-warn' in between or 'skip-silent' in between:
            return 'region-from-unsupported-item'
        if i > 0 and exp[i - 1].get('multi') is not None or (i < len(exp) and exp[i].get('multi') is not None):
            return 'multi-annulus-expansion-count'
        return 'extra-region'
    if i < len(exp):
        if exp[i].get('multi') is not None:
            return 'multi-annulus-expansion-count'
        return 'region-lost:' + exp[i]['shape']
    return 'region-count'


def generate(rng, tier, shard, nshards):
    n = 1200 if tier == 'quick' else 30000
    lanes = ['doc'] * 8 + ['matrix'] * 4 + ['skips'] * 3 + ['meta'] * 2 + ['composite'] * 2 + ['edge']
    nm = ne = 0
    for i in range(n):
        lane = lanes[i % len(lanes)] if i < 2 * len(lanes) else rng.choice(lanes)
        case = {'lane': lane, 'rs': rng.randrange(2 ** 40)}
        if lane == 'matrix':
            case['idx'] = shard + nshards * nm          # walks shape x frame systematically across shards
            nm += 1
        if lane == 'edge':
            case['edge'] = EDGES[(shard + ne) % len(EDGES)]
            ne += 1
        yield case


def build(case):
    rng = random.Random(case['rs'])
    if case['lane'] == 'matrix':
        return matrix_doc(rng, case['idx'])
    return gen_doc(rng, case['lane'], case.get('edge'))


def run_case(case, obs):
    items = build(case)
    exp, status, ctx, seen = model(items)
    text = render(items)
    case = dict(case, _text=text)
    regs, _ = parse(text)
    if case['rs'] % 6 == 0 and '\r' not in text:
        # the same document read from a file (the reader that files go through) gives the same regions
        import tempfile
        from regions import Regions
        with tempfile.TemporaryDirectory(prefix='c10-') as td:
            path = os.path.join(td, 'doc.reg')
            with open(path, 'w', encoding='utf-8', newline='') as fh:
                fh.write(text)
            with warnings.catch_warnings():
                warnings.simplefilter('ignore')
                try:
                    fregs = list(Regions.read(path, format='ds9'))
                    ferr = None
                except Exception as exc:
                    fregs, ferr = None, exc
        obs.count('documents-read-from-file')
        if ferr is not None:
            obs.violation('file-read-differs-from-parse', f'Regions.read of the document raised {type(ferr).__name__}: {ferr} while Regions.parse of its text gave '
                          f'{len(regs)} regions', text=text[:600])
        else:
            obs.check([fingerprint(r) for r in fregs] == [fingerprint(r) for r in regs], 'file-read-differs-from-parse',
                      f'Regions.read of the document gave {[type(r).__name__ for r in fregs]}, Regions.parse of its text {[type(r).__name__ for r in regs]}',
                      'file-read', text=text[:600])
    nviol0 = sum(obs.violation_counts.values())
    for s in seen:
        obs.count('seen:' + s)
    for it in items:
        if it['k'] in ('region', 'ushape'):
            obs.count('shape:' + it['shape'])
        if it['k'] == 'frame':
            obs.count('frame:' + it['name'])
    obs.count('seen:excluded', sum(1 for e in exp if not e['include']))
    obs.count('seen:composite-member', sum(1 for e in exp if e['in_comp']))

    # 1. count and order
    ecls = [e['cls'] for e in exp]
    gcls = [type(r).__name__ for r in regs]
    n_frameless = status.count('frameless')
    if len(regs) != len(exp):
        obs.violation(count_key(items, status, exp, regs),
                      f'{len(regs)} regions parsed, the document defines {len(exp)}: got {gcls}, expected {ecls}', text=text,
                      status=status)
    else:
        obs.ok(1, 'count')
        if n_frameless:
            obs.ok(n_frameless, 'frameless-no-region')
        for e, r in zip(exp, regs):
            compare_region(obs, e, r, case)

    # 2. skipped items: warn, and leave the neighbours as in the document without them
    skipped = [i for i, s in enumerate(status) if s in ('skip-warn', 'skip-silent')]
    if skipped or n_frameless:
        red = reduced([dict(it) for it in items], status)
        text2 = render(red)
        regs2, _ = parse(text2)
        f1, f2 = [fingerprint(r) for r in regs], [fingerprint(r) for r in regs2]
        if f1 == f2:
            obs.ok(1, 'neighbours-unaffected')
        elif sum(obs.violation_counts.values()) == nviol0:
            # (deviations already reported against the model keep their own key and are not reported twice)
            key = 'skipped-item-affects-neighbours'
            if len(f1) == len(f2) == len(exp):
                diff_items = {exp[j]['item'] for j in range(len(f1)) if f1[j] != f2[j]}
                ends = {e['ended'][2] for e in exp if e['ended'] and e['ended'][1] == 'unsupported-shape' and not e['in_comp']}
                firsts = {min(e['item'] for e in exp if not e['in_comp'] and e['ended'] and e['ended'][2] == x) for x in ends}
                if diff_items and diff_items <= firsts:
                    key = K_COMP_US
            obs.violation(key, f'parse of the document differs from the parse without its skipped items: '
                          f'{[f[0] for f in f1]} vs {[f[0] for f in f2]}', text=text, text_without=text2)
        for i in skipped:
            if status[i] != 'skip-warn':
                continue
            it = dict(items[i], comp=None)
            it['st'] = dict(it['st'], sep='\n', indent='')
            if it['k'] == 'uframe':
                mini = render([it]) + '\ncircle(10,20,3)'
            else:
                mini = ctx[i] + '\n' + render([it])
            r3, w3 = parse(mini)
            obs.check(len(r3) == 0, 'unsupported-item-produced-region', f'{mini!r} gave {[type(r).__name__ for r in r3]}',
                      'skip-no-region')
            obs.check(len(w3) >= 1, 'unsupported-item-skipped-silently', f'{mini!r} was skipped without a warning', 'skip-warns')


def classify_exception(case, exc):
    return 'parse-raises-' + type(exc).__name__


MUTANTS = [
    ('lon-rule-on-every-index', 'regions/io/ds9/read.py', "if index % 2 == 0 and frame not in ('galactic', 'ecliptic'):",
     "if index == 0 and frame not in ('galactic', 'ecliptic'):"),
    ('arcmin-read-as-arcsec', 'regions/io/ds9/read.py', "\"'\": u.arcmin,", "\"'\": u.arcsec,"),
    ('frame-kept-after-unsupported-frame', 'regions/io/ds9/read.py',
     "            if frame_or_shape in unsupported_frames:\n                frame = None\n", "            if frame_or_shape in unsupported_frames:\n                pass\n"),
    ('composite-meta-never-cleared', 'regions/io/ds9/read.py', "if '||' not in line_notext and composite_meta:", "if False:"),
    ('i-suffix-kept-on-pixel-positions', 'regions/io/ds9/read.py',
     "    if param_str[-1] == 'i':\n        param_str = param_str[:-1]\n\n    # DS9 uses 1-indexed pixels",
     "    if param_str[-1] == 'i':\n        return float(param_str[:-1])\n\n    # DS9 uses 1-indexed pixels"),
    ('box-sizes-doubled', 'regions/io/ds9/read.py', "            if shape == 'ellipse':\n                param *= 2.0",
     "            if shape in ('ellipse', 'box'):\n                param *= 2.0"),
    ('pixel-sizes-shifted', 'regions/io/ds9/read.py', "        return float(param_str)\n\n    else:\n        # size in angular units",
     "        return float(param_str) - 1\n\n    else:\n        # size in angular units"),
    ('ecliptic-colon-lon-in-hours', 'regions/io/ds9/read.py', "frame not in ('galactic', 'ecliptic'):", "frame not in ('galactic',):"),
    ('sign-beats-include-property', 'regions/io/ds9/read.py', "    all_meta.update(include_meta)\n    # region_meta must come after include_meta because include=1/0 in\n    # metadata overrides the leading \"-/+\" include symbol\n    all_meta.update(region_meta)",
     "    all_meta.update(region_meta)\n    all_meta.update(include_meta)"),
    ('global-beats-region-property', 'regions/io/ds9/read.py', "    all_meta.update(region_meta)\n\n    # valid DS9 point symbols",
     "    all_meta.update(region_meta)\n    all_meta.update(global_meta)\n\n    # valid DS9 point symbols"),
    ('composite-below-global', 'regions/io/ds9/read.py', "    all_meta.update(global_meta)\n    all_meta.update(composite_meta)",
     "    all_meta.update(composite_meta)\n    all_meta.update(global_meta)"),
    ('multi-annulus-off-by-one', 'regions/io/ds9/read.py', "                idx = i + 2\n", "                idx = min(i + 3, len(shape_params) - 2)\n"),
    ('j2000-mapped-to-icrs', 'regions/io/ds9/core.py', "'j2000': 'fk5',", "'j2000': 'icrs',"),
    ('semicolon-split-inside-text', 'regions/io/ds9/read.py', "            if i0 <= i <= i1:\n                break", "            if False:\n                break"),
    ('text-lowercased', 'regions/io/ds9/read.py', "            region_meta = _parse_metadata(meta_str)", "            region_meta = _parse_metadata(meta_str.lower())"),
    ('radian-coordinates-read-as-degrees', 'regions/io/ds9/read.py', "        return Angle(param_str[:-1], unit=u.radian)", "        return Angle(param_str[:-1], unit=u.degree)"),
]
