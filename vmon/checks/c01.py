"""C01 - point membership equals the geometric definition of every pixel shape.

Monitor: every PixelRegion.contains return (all classes, incl. nested calls
made by compounds/annuli) is judged against geom.contains_member outside the
ambiguity band; workload drives hostile regions x query sets and the `in`
operator.
"""
import math

import numpy as np

from vmon import gen, geom, monitors, spec as S

ID = 'C01'
LEVEL = 'exploration'
RULE = ('cases = (pixel region spec, query-set spec) drawn from class x size (log-uniform 1e-3..1e6) x aspect<=1000 '
        'x angle (any magnitude/unit) x centre x include x query kinds (bbox-uniform, boundary-bisected +-delta, far, '
        'lattice) x array form/dtype; a case is non-trivial when >=1 membership/shape/type assertion was judged '
        'outside the ambiguity band; distinct = distinct case-spec hashes')
ASSUMPTIONS = ['numpy and astropy unit conversion are trusted', 'points within the stated rounding band of the boundary are not judged']
ANCHORS_NOT_DRIVEN = ()


def budget(tier):
    return 40 if tier == 'quick' else 420


def shards(tier):
    return 16


def required_counters(tier):
    return {'monitor:contains:CirclePixelRegion': 10, 'monitor:contains:EllipsePixelRegion': 10,
            'monitor:contains:RectanglePixelRegion': 10, 'monitor:contains:PolygonPixelRegion': 10,
            'monitor:contains:CompoundPixelRegion': 10, 'monitor:contains:PointPixelRegion': 5,
            'monitor:contains:LinePixelRegion': 5, 'in_operator': 10, 'history-steps': 50, 'sibling-regions': 10, 'answers-overwritten-then-asked-again': 20, 'scalar-queries-on-vertex-rows': 100}


def setup(obs):
    monitors.install_contains_monitor(obs)


QKINDS = ['bbox', 'boundary', 'boundary', 'far', 'lattice', 'mixed']
FORMS = [('scalar', None), ('empty', (0,)), ('empty', (0, 3)), ('empty', (2, 0, 4)), ('empty', (3, 0)), ('1d', None), ('1d', None), ('2d', None), ('3d', (2, 1, 3)),
         ('2d-transposed', None), ('2d-fortran', None), ('1d-strided', None), ('2d-sliced', None), ('1d-reversed', None),
         ('one-element', (1,)), ('one-element', (1, 1)), ('one-element', (1, 1, 1)), ('broadcast', None), ('readonly', None), ('masked', None),
         ('open-grid', None), ('open-grid', None)]
DTYPES = ['float64', 'float64', 'float64', 'float32', 'int64', 'int32']


def generate(rng, tier, shard, nshards):
    n = 1200 if tier == "quick" else 40000
    for i in range(n):
        if i % 40 == 7:
            # narrow integer query types far from an integer-valued centre: distances are representable, their squares are not
            cls = rng.choice(['CirclePixelRegion', 'CircleAnnulusPixelRegion', 'CirclePixelRegion'])
            dt = rng.choice(['int32', 'int32', 'int16'])
            big = 30000 if dt == 'int16' else 2 * 10 ** 9
            r = rng.choice([10, 1000.5, 70000, 10 ** 5]) if dt == 'int32' else rng.choice([10, 250.5, 20000])
            p = {'center': S.pix(rng.randint(-5, 5), rng.randint(-5, 5))}
            if cls == 'CirclePixelRegion':
                p['radius'] = r
            else:
                p.update(inner_radius=r / 2, outer_radius=r)
            yield {'lane': 'int-overflow', 'region': S.reg(cls, meta=gen.meta_with_include(rng), **p), 'history': 0,
                   'q': {'kind': 'intfar', 'form': '1d', 'shape': None, 'dtype': dt, 'n': 60, 'rs': rng.randrange(2 ** 31), 'big': big, 'r': r}}
            continue
        if i % 400 == 23:
            # one very large query (a full detector frame of positions): every position is answered, the last ones too
            region = gen.pixel_region_spec(rng, classes=['PolygonPixelRegion', 'RegularPolygonPixelRegion', 'CirclePixelRegion', 'EllipsePixelRegion',
                                                         'RectanglePixelRegion', 'EllipseAnnulusPixelRegion'])
            yield {'lane': 'huge-query', 'region': region, 'history': 0,
                   'q': {'kind': 'bbox', 'form': rng.choice(['1d', '2d']), 'shape': None, 'dtype': 'float64', 'n': rng.randint(2 ** 18 + 1, 700000),
                         'rs': rng.randrange(2 ** 31)}}
            continue
        if i % 40 == 31:
            # needles: axis ratios of 1e5 .. 1e9 within the size domain (1e-3 .. 1e6 px), at oblique angles, asked along their long axis
            cls = rng.choice(['EllipsePixelRegion', 'EllipsePixelRegion', 'RectanglePixelRegion', 'EllipseAnnulusPixelRegion'])
            Lmaj = gen.logu(rng, 1e3, 1e6)
            ratio = gen.logu(rng, 1e5, min(1e9, Lmaj / 1e-3))
            w, h = (Lmaj, Lmaj / ratio) if rng.random() < 0.5 else (Lmaj / ratio, Lmaj)
            c = S.pix(rng.uniform(-100, 100), rng.uniform(-100, 100))
            ang = S.q(rng.uniform(-180, 180), 'deg')
            if cls == 'EllipseAnnulusPixelRegion':
                reg = S.reg(cls, meta=gen.meta_with_include(rng), center=c, inner_width=0.5 * w, outer_width=w, inner_height=0.5 * h, outer_height=h, angle=ang)
            else:
                reg = S.reg(cls, meta=gen.meta_with_include(rng), center=c, width=w, height=h, angle=ang)
            yield {'lane': 'needle', 'region': reg, 'history': 0,
                   'q': {'kind': 'axis', 'form': '1d', 'shape': None, 'dtype': 'float64', 'n': 200, 'rs': rng.randrange(2 ** 31)}}
            continue
        if i % 40 == 11:
            # sibling isolation: regions built WITHOUT meta/visual, one of them edited in place, then more built
            a = gen.pixel_region_spec(rng)
            for k in ('meta', 'visual'):
                a.pop(k, None)
            form, shape = rng.choice(FORMS)
            yield {'lane': 'siblings', 'region': a, 'history': 0, 'edit': rng.choice(['setitem', 'update', 'ior', 'setdefault']),
                   'q': {'kind': rng.choice(QKINDS), 'form': form, 'shape': shape, 'dtype': 'float64', 'n': 33, 'rs': rng.randrange(2 ** 31)}}
            continue
        r = rng.random()
        if r < 0.12:
            leaf = lambda: gen.pixel_region_spec(rng, classes=gen.MASKABLE + ['PointPixelRegion'], size=gen.logu(rng, 1, 100),
                                                 center=(rng.uniform(-30, 30), rng.uniform(-30, 30)))
            region = gen.compound_spec(rng, rng.randint(1, 2), leaf)
            while region['cls'] != 'CompoundPixelRegion':
                region = gen.compound_spec(rng, 2, leaf)
            lane = 'compound'
        elif r < 0.17:
            # a centre-defined shape 1e12..1e14 of its own sizes away from the origin: the offsets p - c are still exact
            L = gen.logu(rng, 1e-3, 1e3)
            region = gen.pixel_region_spec(rng, classes=gen.SIMPLE_PIX + gen.ANNULI_PIX, size=L, center=gen.center_xy(rng, L, 'ultrafar'))
            lane = 'ultrafar'
        else:
            region = gen.pixel_region_spec(rng)
            lane = region['cls']
        form, shape = rng.choice(FORMS)
        yield {'lane': lane, 'region': region, 'history': rng.choice([0, 0, 0, 1, 3]),
               'q': {'kind': rng.choice(QKINDS), 'form': form, 'shape': shape, 'dtype': rng.choice(DTYPES),
                     'n': rng.choice([7, 33, 120, 400]), 'rs': rng.randrange(2 ** 31),
                     # x and y are two arrays: a quarter of the queries type them differently
                     'dtype_y': rng.choice(DTYPES + ['>f8']) if rng.random() < 0.25 else None}}


def region_scale(region):
    """(cx, cy, L) of a live region: a representative centre and size."""
    bb = None
    name = type(region).__name__
    if name == 'CompoundPixelRegion':
        a, b = region_scale(region.region1), region_scale(region.region2)
        x0, x1 = min(a[0] - a[2], b[0] - b[2]), max(a[0] + a[2], b[0] + b[2])
        y0, y1 = min(a[1] - a[2], b[1] - b[2]), max(a[1] + a[2], b[1] + b[2])
        return 0.5 * (x0 + x1), 0.5 * (y0 + y1), max(x1 - x0, y1 - y0) / 2
    ext = geom.true_extent(region)
    x0, x1, y0, y1 = ext[:4]
    L = max(x1 - x0, y1 - y0) / 2
    if L == 0:
        L = 1.0
    return 0.5 * (x0 + x1), 0.5 * (y0 + y1), L


def make_queries(region, q):
    """Build the query PixCoord (live) from the query-set spec."""
    import regions
    nrng = np.random.default_rng(q['rs'])
    cx, cy, L = region_scale(region)
    n = q['n']
    kind = q['kind']

    def bbox_pts(m):
        return cx + nrng.uniform(-1.3, 1.3, m) * L, cy + nrng.uniform(-1.3, 1.3, m) * L

    def boundary_pts(m):
        x, y = bbox_pts(max(64, m))
        ins, dec = geom.shape_member(region, x, y)
        a = np.flatnonzero(ins & dec)
        b = np.flatnonzero(~ins & dec)
        if len(a) == 0 or len(b) == 0:
            return x[:m], y[:m]
        ia = nrng.choice(a, m)
        ib = nrng.choice(b, m)
        xa, ya, xb, yb = x[ia].copy(), y[ia].copy(), x[ib].copy(), y[ib].copy()
        for _ in range(48):
            xm, ym = 0.5 * (xa + xb), 0.5 * (ya + yb)
            mi, _d = geom.shape_member(region, xm, ym)
            xa, ya = np.where(mi, xm, xa), np.where(mi, ym, ya)
            xb, yb = np.where(mi, xb, xm), np.where(mi, yb, ym)
        # step off the boundary along the chord by +-delta*L
        dx, dy = x[ib] - x[ia], y[ib] - y[ia]
        nn = np.hypot(dx, dy)
        nn[nn == 0] = 1.0
        delta = 10.0 ** nrng.uniform(-6, -2, m) * nrng.choice([-1.0, 1.0], m) * L
        return xa + dx / nn * delta, ya + dy / nn * delta

    if kind == 'intfar':
        mags = 10.0 ** nrng.uniform(1, math.log10(q['big'] / 2.5), n)
        ang = nrng.uniform(0, 2 * math.pi, n)
        x, y = cx + mags * np.cos(ang), cy + mags * np.sin(ang)
        k = n // 3
        x[:k], y[:k] = cx + nrng.uniform(-1.5, 1.5, k) * q['r'], cy + nrng.uniform(-1.5, 1.5, k) * q['r']
    elif kind == 'axis':
        # along the long axis of an elongated shape, within a few semi-minor axes of it
        w_ = float(getattr(region, 'width', getattr(region, 'outer_width', 1.0)))
        h_ = float(getattr(region, 'height', getattr(region, 'outer_height', 1.0)))
        th_ = geom.theta_rad(region.angle)
        x0_, y0_ = float(region.center.x), float(region.center.y)
        a_, b_, th_ = (w_ / 2, h_ / 2, th_) if w_ >= h_ else (h_ / 2, w_ / 2, th_ + math.pi / 2)
        t = nrng.uniform(-1.2, 1.2, n) * a_
        sdev = nrng.uniform(-3, 3, n) * b_
        x = x0_ + t * math.cos(th_) - sdev * math.sin(th_)
        y = y0_ + t * math.sin(th_) + sdev * math.cos(th_)
    elif kind == 'bbox':
        x, y = bbox_pts(n)
    elif kind == 'boundary':
        x, y = boundary_pts(n)
    elif kind == 'far':
        reach = max(1e3 * L, 2e5)            # also far in absolute terms (integer overflow of squared offsets starts at 46341 px)
        x, y = cx + nrng.uniform(-1, 1, n) * reach, cy + nrng.uniform(-1, 1, n) * reach
    elif kind == 'lattice':
        x = np.round(cx + nrng.uniform(-1.3, 1.3, n) * L * 2) / 2
        y = np.round(cy + nrng.uniform(-1.3, 1.3, n) * L * 2) / 2
    else:
        x1, y1 = bbox_pts(n // 2 + 1)
        x2, y2 = boundary_pts(n // 2 + 1)
        x, y = np.concatenate([x1, x2]), np.concatenate([y1, y2])
    dt = np.dtype(q['dtype'])
    if dt.kind == 'i':
        x, y = np.round(x), np.round(y)
        lim = np.iinfo(dt).max // 2
        x, y = np.clip(x, -lim, lim), np.clip(y, -lim, lim)
    x = x.astype(dt)
    dty = np.dtype(q.get('dtype_y') or q['dtype'])
    if dty != dt:
        if dty.kind == 'i':
            lim = np.iinfo(dty).max // 2
            y = np.clip(np.round(y), -lim, lim)
    y = y.astype(dty)
    form = q['form']
    if form == 'scalar':
        xs, ys = x[0].item(), y[0].item()
        return regions.PixCoord(xs, ys)
    if form == 'empty':
        return regions.PixCoord(x[:0].reshape(q['shape'] or (0,)), y[:0].reshape(q['shape'] or (0,)))
    if form == 'one-element':
        return regions.PixCoord(x[:1].reshape(q['shape']), y[:1].reshape(q['shape']))
    if form == '2d':
        k = max(1, len(x) // 3)
        return regions.PixCoord(x[:3 * k].reshape(3, k), y[:3 * k].reshape(3, k))
    if form == '3d':
        return regions.PixCoord(x[:6].reshape(2, 1, 3), y[:6].reshape(2, 1, 3))
    # non-C-contiguous memory layouts (views) - same values, different strides
    if form in ('2d-transposed', '2d-fortran', '2d-sliced'):
        k = max(2, len(x) // 3)
        X, Y = x[:3 * k].reshape(3, k), y[:3 * k].reshape(3, k)
        if form == '2d-transposed':
            return regions.PixCoord(X.T, Y.T)                      # shape (k, 3), F-ordered view
        if form == '2d-fortran':
            return regions.PixCoord(np.asfortranarray(X), np.asfortranarray(Y))
        return regions.PixCoord(X[:, ::2], Y[:, ::2])
    if form == 'open-grid':
        # np.ogrid-style: a row of x values against a column of y values (same ndim, shapes (1, nx) and (ny, 1)) - a grid query
        k = max(1, min(len(x), 12))
        m = max(1, min(len(y), 7))
        return regions.PixCoord(x[:k].reshape(1, k), y[:m].reshape(m, 1))
    if form == 'broadcast':
        return regions.PixCoord(x, y[0].item())                 # y is a scalar: PixCoord holds a read-only broadcast view
    if form == 'readonly':
        x.setflags(write=False)
        y.setflags(write=False)
        return regions.PixCoord(x, y)
    if form == 'masked':
        # masked arrays are arrays too; nothing is masked, so the answers are those of the plain data
        return regions.PixCoord(np.ma.MaskedArray(x), np.ma.MaskedArray(y))
    if form == '1d-strided':
        return regions.PixCoord(x[::3], y[::3])
    if form == '1d-reversed':
        return regions.PixCoord(x[::-1], y[::-1])
    return regions.PixCoord(x, y)


def regions_pix(x, y):
    import regions
    return regions.PixCoord(x, y)


def driver_extra(tier, seed, rundir):
    """thorough tier: the repository's own test-suite as an additional, organically shaped workload for the same monitor."""
    if tier != 'thorough':
        return None
    from vmon import suite
    return suite.run_suite_lane(ID, 'contains')


def meta_as_constructed(obs, spec, region, path='region'):
    """a freshly constructed region carries exactly the meta it was given (nothing inherited from other regions
    built or edited earlier in this process)."""
    if spec['cls'] == 'CompoundPixelRegion':
        meta_as_constructed(obs, spec['p']['region1'], region.region1, path + '.region1')
        meta_as_constructed(obs, spec['p']['region2'], region.region2, path + '.region2')
        if 'meta' not in spec:
            return
    given = dict(spec.get('meta') or {})
    obs.check(dict(region.meta) == given, 'fresh-region-meta-differs-from-construction',
              f'{type(region).__name__} constructed with meta={given} carries {dict(region.meta)} ({path})', 'meta-as-constructed')


def run_siblings(case, obs):
    """two regions of one class built without meta/visual; the first is made an exclusion region in place; the second
    and a third built afterwards must still be plain include-regions that answer geometrically."""
    import regions
    first, second = S.build(case['region']), S.build(case['region'])
    how = case['edit']
    if how == 'setitem':
        first.meta['include'] = False
        first.visual['color'] = 'red'
    elif how == 'update':
        first.meta.update(include=False)
        first.visual.update({'color': 'red'})
    elif how == 'ior':
        first.meta |= {'include': False}
        first.visual |= {'color': 'red'}
    else:
        first.meta.setdefault('include', False)
        first.visual.setdefault('color', 'red')
    third = S.build(case['region'])
    for nm, reg in (('second', second), ('third', third)):
        obs.count('sibling-regions')
        obs.check(dict(reg.meta) == {} and dict(reg.visual) == {}, 'fresh-region-meta-differs-from-construction',
                  f'{type(reg).__name__} built without meta/visual carries meta={dict(reg.meta)} visual={dict(reg.visual)} '
                  f'after a sibling was edited in place via {how} ({nm})', 'siblings')
        obs.check(reg.meta is not first.meta and reg.visual is not first.visual, 'fresh-region-shares-meta-object',
                  f'{type(reg).__name__} built without meta shares its meta/visual object with another instance', 'siblings')
        reg.contains(make_queries(reg, case['q']))
    first.contains(make_queries(first, case['q']))


def run_case(case, obs):
    if case['lane'].startswith('suite:'):
        return monitors.replay_suite_case(case, obs)
    if case['lane'] == 'siblings':
        return run_siblings(case, obs)
    region = S.build(case['region'])
    meta_as_constructed(obs, case['region'], region)
    pc = make_queries(region, case['q'])
    res = region.contains(pc)          # judged by the installed monitor
    if case['q']['rs'] % 3 == 0 and isinstance(res, np.ndarray) and res.size and res.flags.writeable:
        # the answer belongs to the caller: overwriting it must not show in a later answer
        res[...] = ~res
        obs.count('answers-overwritten-then-asked-again')
        res = region.contains(pc)      # judged again
    if hasattr(region, 'vertices') and case['q']['rs'] % 4 == 1:
        # single positions on the very row (and column) of a vertex: x or y bit-equal to a vertex coordinate, to its left / right / above
        vx, vy = np.asarray(region.vertices.x, dtype=float), np.asarray(region.vertices.y, dtype=float)
        cx_, cy_, L_ = region_scale(region)
        nrng = np.random.default_rng(case['q']['rs'])
        for k in nrng.permutation(len(vx))[:3]:
            for sgn in (-1.0, 1.0):
                d = sgn * float(nrng.uniform(0.03, 1.2)) * L_
                region.contains(regions_pix(float(vx[k]) + d, float(vy[k])))        # each one judged by the monitor
                region.contains(regions_pix(float(vx[k]), float(vy[k]) + d))
                obs.count('scalar-queries-on-vertex-rows', 2)
    if case.get('history'):
        # mutate-then-requery on the same object: the monitor's oracle reads the live parameters
        import random
        prng = random.Random(case['q']['rs'])
        for _ in range(case['history']):
            label = gen.mutate_live(region, prng)
            obs.count('history-steps')
            pc2 = make_queries(region, dict(case['q'], rs=prng.randrange(2 ** 31)))
            region.contains(pc2)
            region.contains(pc)
        res = region.contains(pc)
    # the `in` operator
    if pc.isscalar:
        r2 = pc in region
        obs.count('in_operator')
        obs.check(bool(r2) == bool(np.asarray(res).ravel()[0]) if np.size(res) == 1 else False, 'in-operator',
                  f'`coord in region` gave {r2!r} but contains gave {res!r}', 'in')
    elif np.size(pc.x) > 0:
        obs.count('in_operator')
        try:
            r2 = pc in region
            obs.violation('in-operator-array', f'`array coord in region` returned {r2!r} instead of raising ValueError')
        except ValueError:
            obs.ok(1, 'in-raises')
    # polygon oracle self-check in exact rational arithmetic (keeps the float oracle honest)
    name = type(region).__name__
    if name == 'PolygonPixelRegion' and np.size(pc.x) > 0:
        vx, vy = region.vertices.x, region.vertices.y
        px, py = np.asarray(pc.x, dtype=float).ravel(), np.asarray(pc.y, dtype=float).ravel()
        m, band = geom.shape_margin(region, px, py)
        band = np.broadcast_to(band, px.shape)
        got = np.asarray(region.contains(pc)).ravel()
        inc = geom._include(region)
        for i in range(0, len(px), max(1, len(px) // 12)):
            ex = geom.poly_inside_exact(vx, vy, px[i], py[i])
            if ex is None:
                continue
            obs.count('exact_rational_points')
            if abs(m[i]) > band[i] and (m[i] > 0) != ex:
                raise AssertionError(f'float polygon oracle disagrees with exact oracle at {px[i]!r},{py[i]!r}')
