"""C18 - the matplotlib artist of a region depicts the region.

Observed: PixelRegion.as_artist(origin, **kwargs) and RegionBoundingBox.as_artist.
Oracle: the patch path in data coordinates, split into sub-paths, queried with
matplotlib's own point-in-path test at generated positions and compared with the
independent geometric membership model (band = curve-approximation tolerance).
"""
import math
import random

import numpy as np

from vmon import gen, geom, spec as S
from vmon.checks import c01

ID = 'C18'
LEVEL = 'exploration'
TECHNIQUE = 'runtime oracle on as_artist results: patch path in data coordinates (matplotlib point-in-path, trusted) compared with the independent geometric membership model; positions/strings/kwargs read back from the artist'
RULE = ('cases = (circle/ellipse/rectangle/polygon/regular polygon/annulus pixel region spec x plot origin x visual dict (mpl-style and DS9-derived) x '
        'overriding kwargs; point/line/text regions x positions x origins); non-trivial = >=1 judged point or attribute; distinct = distinct case specs')
ASSUMPTIONS = ['matplotlib Path.contains_points and patch transforms are the trusted reference', 'points within 2e-3*L of the boundary are not judged (Bezier arc tolerance)']


def budget(tier):
    return 50 if tier == 'quick' else 420


def shards(tier):
    return 16


def required_counters(tier):
    d = {'judged:path-membership': 2000, 'judged:annulus-two-subpaths': 20, 'judged:point-position': 20, 'judged:text': 20, 'judged:line': 20,
         'judged:kwargs-override': 100, 'judged:bbox-artist': 50, 'judged:visual-applied': 50, 'nested-xor-artists': 15}
    return d


PATCHY = gen.SIMPLE_PIX + gen.ANNULI_PIX


def generate(rng, tier, shard, nshards):
    n = 600 if tier == 'quick' else 8000
    for i in range(n):
        if i % 25 == 7:
            # extreme but valid sizes: slits with aspect ratios of 1e13..1e15, sizes near the ends of the float64 range
            kind = rng.choice(['slit-x', 'slit-y', 'tiny', 'huge'])
            w, h = {'slit-x': (gen.logu(rng, 1e14, 1e16), gen.logu(rng, 0.5, 50)), 'slit-y': (gen.logu(rng, 0.5, 50), gen.logu(rng, 1e14, 1e16)),
                    'tiny': (gen.logu(rng, 1e-175, 1e-160), gen.logu(rng, 1e-175, 1e-160)), 'huge': (gen.logu(rng, 1e150, 1e160), gen.logu(rng, 1e150, 1e160))}[kind]
            yield {'lane': 'extreme-rectangle', 'w': w, 'h': h, 'angle': 0.0, 'cx': rng.uniform(-50, 50), 'cy': rng.uniform(-50, 50),
                   'annulus': rng.random() < 0.3, 'origin': rng.choice([[0, 0], [7, 3], [0.5, -2.25]]), 'kw': {}, 'rs': rng.randrange(2 ** 31)}
            continue
        if i % 25 == 9:
            # a hole that is itself a ring (or a plain shape) cut out of an enclosing shape with ^ : the patch of any pixel region outlines
            # the region's point set - here an outline with several nested sub-outlines
            L = gen.logu(rng, 2, 100)
            c = (rng.uniform(-100, 100), rng.uniform(-100, 100))
            inner = gen.pixel_region_spec(rng, cls=rng.choice(['CircleAnnulusPixelRegion', 'EllipseAnnulusPixelRegion', 'RectangleAnnulusPixelRegion',
                                                               'CirclePixelRegion', 'EllipsePixelRegion']), size=L, center=c, max_aspect=3.0, include='absent')
            outer = gen.pixel_region_spec(rng, cls=rng.choice(['CirclePixelRegion', 'EllipsePixelRegion', 'RectanglePixelRegion']), size=3.2 * L, center=c,
                                          max_aspect=1.3, include='absent')
            yield {'lane': 'nested-xor', 'region': S.reg('CompoundPixelRegion', region1=inner, region2=outer, operator='xor'),
                   'origin': rng.choice([[0, 0], [10, -3], [0, 12], [100.5, 64]]), 'kw': {}, 'rs': rng.randrange(2 ** 31)}
            continue
        cls = rng.choice(PATCHY + ['PointPixelRegion', 'LinePixelRegion', 'TextPixelRegion'])
        reg = gen.pixel_region_spec(rng, cls=cls, size=gen.logu(rng, 0.5, 200), center=(rng.uniform(-100, 100), rng.uniform(-100, 100)), max_aspect=10.0,
                                    include='absent', angle=(None if rng.random() < 0.8 else S.q(rng.choice([180.0, -180.0, 540.0, 90.0, 270.0, 360.0]), 'deg')))
        if cls == 'PolygonPixelRegion' and rng.random() < 0.3:
            n = rng.randint(3, 8)
            reg = S.reg(cls, vertices=S.pix({'a': [rng.randint(-40, 40) for _ in range(n)], 'dt': 'int64', 'sh': [n]},
                                            {'a': [rng.randint(-40, 40) for _ in range(n)], 'dt': 'int64', 'sh': [n]}))
        style = rng.choice(['none', 'mpl', 'ds9']) if cls not in ('PointPixelRegion', 'TextPixelRegion') else rng.choice(['none', 'ds9'])
        vis = {}
        if style == 'mpl':
            vis = {k: v for k, v in {'edgecolor': rng.choice(['red', 'blue']), 'linewidth': rng.choice([1, 3.5]), 'facecolor': 'green',
                                     'linestyle': rng.choice(['--', ':'])}.items() if rng.random() < 0.6}
        elif style == 'ds9':
            vis = {'default_style': 'ds9'}
            if rng.random() < 0.6:
                vis['color'] = rng.choice(['green', 'red', '#ff00ff'])
            if rng.random() < 0.5:
                vis['linewidth'] = rng.choice([1, 2])
            # keys as the DS9 reader produces them
            if cls == 'TextPixelRegion' and rng.random() < 0.6:
                vis.update(fontname='helvetica', fontsize=12, fontweight='bold', fontstyle='normal', rotation=30.0)
            elif cls == 'PointPixelRegion' and rng.random() < 0.6:
                vis.update(marker=rng.choice(['x', 'o', '+']), markersize=7)
            elif cls not in ('TextPixelRegion', 'PointPixelRegion') and rng.random() < 0.4:
                vis.update(fill=rng.choice([True, False]), linestyle=(0, (8, 3)))
        if cls == 'PointPixelRegion' and style == 'none' and rng.random() < 0.5:
            vis = {'symbol': rng.choice(['.', 'x', '+', 'o', 's']), 'symsize': rng.choice([5, 9])}       # keys as the CRTF reader produces them
        reg['visual'] = vis
        if rng.random() < 0.3:
            reg['meta'] = {'include': rng.choice([False, 0])}          # an excluded region (e.g. DS9 "-circle(...)") is drawn like any other
        kw = {}
        if rng.random() < 0.6:
            if cls == 'TextPixelRegion':
                # property names and the aliases matplotlib accepts for them
                kw = rng.choice([{'color': 'green'}, {'color': 'cyan'}, {'fontsize': 17}, {'rotation': 45.0}, {'alpha': 0.25}, {'ha': 'left'}, {'va': 'top'},
                                 {'horizontalalignment': 'right'}, {'verticalalignment': 'bottom'}, {'size': 19}, {'weight': 'light'},
                                 {'fontweight': 'light'}, {'style': 'italic'}, {'fontstyle': 'oblique'}, {'c': 'cyan'}, {'family': 'serif'},
                                 {'fontfamily': 'monospace'}, {'ha': 'right', 'va': 'bottom', 'size': 8}])
            elif cls == 'PointPixelRegion':
                kw = rng.choice([{'markersize': 13}, {'markeredgecolor': 'green'}, {'markeredgecolor': 'cyan'}, {'marker': 's'}, {'alpha': 0.25}, {'ms': 15}, {'mec': 'cyan'},
                                 {'mew': 2.5}, {'markeredgewidth': 3.5}, {'fillstyle': 'full', 'markerfacecolor': 'yellow'}, {'fillstyle': 'full', 'markerfacecolor': 'yellow'},
                                 {'fillstyle': 'left', 'markerfacecolor': 'yellow', 'markeredgecolor': 'cyan'}, {'fillstyle': 'full', 'mfc': 'yellow'},
                                 {'markerfacecolor': 'yellow'}, {'fillstyle': 'full', 'mfc': 'yellow', 'mec': 'cyan'}, {'fillstyle': 'full'}])
            elif cls == 'LinePixelRegion' and rng.random() < 0.4:
                kw = {'width': rng.choice([0.5, 2.0, 7.0])}        # the arrow's own keyword (matplotlib.patches.Arrow)
            else:
                kw = rng.choice([{'transform': 'transData'}, {'transform': 'transData', 'linewidth': 2.5}, {'linewidth': None}, {'linestyle': None}, {'edgecolor': None}, {'edgecolor': 'green'}, {'ec': 'green'}, {'fill': True, 'facecolor': 'green'}, {'edgecolor': 'cyan'}, {'linewidth': 7.5}, {'fill': True, 'facecolor': 'yellow'}, {'alpha': 0.25}, {'linestyle': '-.'},
                                 {'ec': 'cyan'}, {'lw': 6.5}, {'ls': '-.'}, {'fill': True, 'fc': 'yellow'}])
        yield {'lane': cls, 'region': reg, 'origin': rng.choice([[0, 0], [0, 0], [rng.uniform(-50, 50), rng.uniform(-50, 50)], [10, -3], [0.5, 0.5], [-0.25, 7.75], [100, 64], [7, 3], [100, 64], [0, 12], [5, 0], [0, -7.5]]), 'kw': kw,
               'rs': rng.randrange(2 ** 31)}


def data_path(patch):
    return patch.get_patch_transform().transform_path(patch.get_path())


def subpaths(path):
    """split a compound path into closed sub-paths (list of matplotlib Paths)."""
    import matplotlib.path as mpath
    out = []
    verts, codes = path.vertices, path.codes
    if codes is None:
        return [path]
    start = 0
    for i in range(1, len(codes) + 1):
        if i == len(codes) or codes[i] == mpath.Path.MOVETO:
            out.append(mpath.Path(verts[start:i], codes[start:i]))
            start = i
    return out


def signed_area(path):
    p = path.to_polygons()
    if not p:
        return 0.0
    v = p[0]
    return 0.5 * float(np.sum(v[:-1, 0] * v[1:, 1] - v[1:, 0] * v[:-1, 1]))


def colour_eq(a, b):
    import matplotlib.colors as mc
    try:
        return np.allclose(mc.to_rgba(a)[:3], mc.to_rgba(b)[:3])          # alpha is a separate setting
    except Exception:
        return False


_AX = {'ax': None, 'n': 0}


def _axes():
    import matplotlib
    matplotlib.use('Agg')
    import matplotlib.pyplot as plt
    if _AX['ax'] is None or _AX['n'] > 200:
        if _AX['ax'] is not None:
            plt.close(_AX['ax'].figure)
        _AX['ax'] = plt.figure().add_subplot(111)
        _AX['n'] = 0
    _AX['n'] += 1
    return _AX['ax']


def run_extreme_rectangle(case, obs):
    import astropy.units as u
    import regions
    w, h, cx, cy = case['w'], case['h'], case['cx'], case['cy']
    ox, oy = case['origin']
    ang = case['angle']
    c = regions.PixCoord(cx, cy)
    if case['annulus']:
        reg = regions.RectangleAnnulusPixelRegion(c, w / 2, w, h / 4, h, ang * u.deg)
        sizes = [(w, h), (w / 2, h / 4)]
    else:
        reg = regions.RectanglePixelRegion(c, w, h, ang * u.deg)
        sizes = [(w, h)]
    try:
        art = reg.as_artist(origin=(ox, oy))
    except Exception as exc:
        obs.violation('as_artist-raises', f'{type(reg).__name__}(width={w!r}, height={h!r}, angle={ang}).as_artist raised {type(exc).__name__}: {exc}')
        return
    verts = data_path(art).vertices
    eps = np.finfo(float).eps
    obs.count('extreme-rectangles')
    for k, (ww, hh) in enumerate(sizes):
        if ang % 180 == 90:
            ww, hh = hh, ww
        # expected corners (axis-aligned): per coordinate, to a few ulp of the coordinate
        xs, ys = [cx - ox - ww / 2, cx - ox + ww / 2], [cy - oy - hh / 2, cy - oy + hh / 2]
        tolx, toly = 16 * eps * (abs(cx) + abs(ox) + ww) + 1e-300, 16 * eps * (abs(cy) + abs(oy) + hh) + 1e-300
        ok = True
        for ex in xs:
            for ey in ys:
                if not np.any((np.abs(verts[:, 0] - ex) <= tolx) & (np.abs(verts[:, 1] - ey) <= toly)):
                    ok = False
        obs.check(ok, 'artist-outline-differs-from-region:' + type(reg).__name__,
                  f'{type(reg).__name__}(centre=({cx!r},{cy!r}), {"outer" if k == 0 else "inner"} size {ww!r} x {hh!r}, angle {ang}) origin ({ox},{oy}): the patch has no '
                  f'vertex at every corner of the rectangle (x in {xs}, y in {ys}); patch vertices {verts[:10].tolist()}', 'path-membership')


def run_nested_xor(case, obs):
    import matplotlib.patches as mp
    import matplotlib.transforms as mtr
    reg = S.build(case['region'])
    ox, oy = case['origin']
    art = reg.as_artist(origin=(ox, oy))
    if not obs.check(isinstance(art, mp.Patch), 'artist-type', f'xor compound as_artist returned {type(art).__name__}', 'artist-type'):
        return
    q = {'kind': 'mixed', 'form': '1d', 'shape': None, 'dtype': 'float64', 'n': 300, 'rs': case['rs']}
    pc = c01.make_queries(reg.region2, q)
    px, py = np.asarray(pc.x, dtype=float), np.asarray(pc.y, dtype=float)
    cx, cy, L = c01.region_scale(reg.region2)
    decided = np.ones(px.shape, dtype=bool)
    for leaf in (reg.region1, reg.region2):
        m, band = geom.shape_margin(leaf, px, py)
        decided &= np.abs(m) > np.asarray(band) + 2e-3 * L
    sc = 1e5 / L
    path = data_path(art).transformed(mtr.Affine2D().translate(-(cx - ox), -(cy - oy)).scale(sc))
    pts = np.column_stack([(px - cx) * sc, (py - cy) * sc])
    inside = np.zeros(px.shape, dtype=bool)
    for sub in subpaths(path):
        inside ^= sub.contains_points(pts)          # even-odd over the sub-outlines
    exp = np.asarray(reg.contains(pc))
    bad = decided & (inside != exp)
    obs.count('nested-xor-artists')
    if bad.any():
        i = int(np.flatnonzero(bad)[0])
        obs.violation('artist-outline-differs-from-region:CompoundPixelRegion',
                      f'{type(reg.region1).__name__} ^ {type(reg.region2).__name__}: position ({px[i]!r},{py[i]!r}) is {"inside" if inside[i] else "outside"} the '
                      f'patch (even-odd over its {len(subpaths(path))} sub-outlines) but {"inside" if exp[i] else "outside"} the region; {int(bad.sum())} of '
                      f'{int(decided.sum())} points differ', region=repr(reg)[:300])
    else:
        obs.ok(int(decided.sum()), 'path-membership')


def run_case(case, obs):
    if case['lane'] == 'extreme-rectangle':
        return run_extreme_rectangle(case, obs)
    if case['lane'] == 'nested-xor':
        return run_nested_xor(case, obs)
    import matplotlib
    import matplotlib.patches as mp
    import matplotlib.lines as ml
    import matplotlib.text as mt
    import regions
    reg = S.build(case['region'])
    cls = type(reg).__name__
    ox, oy = case['origin']
    kw = dict(case['kw'])
    fp0 = S.fingerprint(reg)
    origin = (ox, oy)
    okind = case['rs'] % 7
    if float(ox).is_integer() and float(oy).is_integer():
        # "array_like" origins: lists, tuples and NumPy arrays/scalars of any integer type (the plot origin of an image cutout)
        ix, iy = int(ox), int(oy)
        if okind == 1:
            origin = [ix, iy]
        elif okind == 2:
            origin = np.array([ix, iy], dtype=np.int32)
        elif okind == 3 and ix >= 0 and iy >= 0:
            origin = np.array([ix, iy], dtype=np.uint16)
        elif okind == 4 and ix >= 0 and iy >= 0:
            origin = (np.uint8(ix % 200), np.uint8(iy % 200))
            ox, oy = ix % 200, iy % 200
        elif okind == 5:
            origin = np.array([ix, iy], dtype=float)
        if okind in (1, 2, 3, 4, 5):
            obs.count('origin-kind:' + type(origin).__name__ + ':' + str(getattr(origin, 'dtype', type(origin[0]).__name__)))
    if kw.get('transform') == 'transData':
        kw['transform'] = _axes().transData            # what an artist added to an Axes has anyway: the patch path stays in data coordinates
        obs.count('transform-keyword')
    if hasattr(reg, 'angle') and case['rs'] % 6 == 2:
        # the rotation angle held by the other angle classes astropy offers (a Latitude when it is within +-90 deg, a Longitude otherwise)
        import astropy.units as u
        from astropy.coordinates import Latitude, Longitude
        deg = float(reg.angle.to_value(u.deg))
        reg.angle = Latitude(reg.angle) if abs(deg) <= 90 else Longitude(deg % 360, u.deg)
        obs.count('angle-as-' + type(reg.angle).__name__)
        fp0 = S.fingerprint(reg)
    model = reg
    if cls == 'RegularPolygonPixelRegion' and case['rs'] % 4 == 0:
        # a regular polygon whose parameters were reassigned after construction still *is* (contains, box, mask) the polygon of
        # its stored vertices; the patch has to depict that same point set
        how = case['rs'] // 4 % 3
        if how == 0:
            reg.radius = reg.radius * 1.7
        elif how == 1:
            reg.center = regions.PixCoord(reg.center.x + 0.6 * float(reg.radius), reg.center.y - 0.3 * float(reg.radius))
        else:
            import astropy.units as u
            reg.angle = reg.angle + 25 * u.deg
        obs.count('regular-polygon-edited-before-as_artist')
        model = regions.PolygonPixelRegion(regions.PixCoord(np.array(reg.vertices.x, dtype=float), np.array(reg.vertices.y, dtype=float)))
        fp0 = S.fingerprint(reg)
    if case['rs'] % 3 == 1:
        # the documented way to draw: plot() puts the artist of as_artist() on an Axes and hands it back - the same artist
        art = reg.plot(origin=origin, ax=_axes(), **kw)
        obs.count('artists-obtained-through-plot')
        # (excluded regions included: how a region is drawn does not depend on its include flag beyond what the visual says)
    elif case['rs'] % 3 == 2 and case['rs'] % 2 == 0:
        art = reg.as_artist(origin, **kw)          # the origin is the first positional parameter of the documented signature
        obs.count('origin-given-positionally')
    else:
        art = reg.as_artist(origin=origin, **kw)
    obs.check(S.fingerprint(reg) == fp0, 'as_artist-mutates-region', f'{cls}.as_artist changed the region', 'region-unchanged')
    if cls in PATCHY:
        if not obs.check(isinstance(art, mp.Patch), 'artist-type', f'{cls}.as_artist returned {type(art).__name__}', 'artist-type'):
            return
        path = data_path(art)
        # matplotlib flattens Bezier arcs with a tolerance of ~0.5 path units: scale the path (and the query points) so
        # that this is negligible against the region size
        import matplotlib.transforms as mtr
        # query points from the C01 generator (interior, exterior, near the boundary)
        q = {'kind': 'mixed', 'form': '1d', 'shape': None, 'dtype': 'float64', 'n': 200, 'rs': case['rs']}
        pc = c01.make_queries(model, q)
        px, py = np.asarray(pc.x, dtype=float), np.asarray(pc.y, dtype=float)
        m, band = geom.shape_margin(model, px, py)
        cx, cy, L = c01.region_scale(model)
        decided = np.abs(m) > np.asarray(band) + 2e-3 * L
        sc = 1e5 / L
        cxo, cyo = cx - ox, cy - oy
        tr = mtr.Affine2D().translate(-cxo, -cyo).scale(sc)
        path = path.transformed(tr)
        pts = np.column_stack([(px - ox - cxo) * sc, (py - oy - cyo) * sc])
        subs = subpaths(path)
        if 'Annulus' in cls:
            ok2 = len(subs) == 2
            obs.check(ok2, 'annulus-path-not-two-subpaths', f'{cls}: artist path has {len(subs)} sub-paths, expected outer + inner', 'annulus-two-subpaths')
            if not ok2:
                return
            areas = [signed_area(s) for s in subs]
            obs.check(areas[0] * areas[1] < 0, 'annulus-inner-not-oppositely-oriented', f'{cls}: sub-path signed areas {areas} have the same orientation',
                      'annulus-two-subpaths')
            big, small = (subs[0], subs[1]) if abs(areas[0]) >= abs(areas[1]) else (subs[1], subs[0])
            inside = big.contains_points(pts) & ~small.contains_points(pts)
        elif cls in ('PolygonPixelRegion', 'RegularPolygonPixelRegion'):
            # matplotlib fills polygons with the non-zero rule; the region is even-odd: judge only where both rules agree
            vx, vy = (np.asarray(reg.vertices.x, dtype=float), np.asarray(reg.vertices.y, dtype=float))
            verts = data_path(art).vertices
            exp_v = np.column_stack([vx - ox, vy - oy])
            n = len(vx)
            okv = len(verts) >= n and np.allclose(verts[:n], exp_v, rtol=0, atol=1e-9 * (L + abs(cx) + abs(cy) + abs(ox) + abs(oy)))
            obs.check(okv, 'polygon-artist-vertices-wrong', f'{cls}: patch vertices differ from region vertices minus origin', 'path-membership')
            inside = path.contains_points(pts)
            wn = winding_number(vx, vy, px, py)
            decided &= (np.abs(wn) <= 1)
        else:
            inside = path.contains_points(pts)
        exp = m > 0
        bad = decided & (inside != exp)
        obs.skip(int((~decided).sum()), 'path-membership')
        if bad.any():
            i = int(np.flatnonzero(bad)[0])
            obs.violation('artist-outline-differs-from-region:' + cls,
                          f'{cls}.as_artist(origin=({ox},{oy})): position ({px[i]!r},{py[i]!r}) is {"inside" if inside[i] else "outside"} the patch path but '
                          f'{"inside" if exp[i] else "outside"} the region (margin {m[i]:.4g}, L {L:.4g}); {int(bad.sum())} of {int(decided.sum())} points differ',
                          region=repr(reg)[:300])
        else:
            obs.ok(int(decided.sum()), 'path-membership')
        # kwargs override the visual-derived settings
        judge_patch_kwargs(obs, art, reg, kw, cls)
    elif cls == 'PointPixelRegion':
        if not obs.check(isinstance(art, ml.Line2D), 'artist-type', f'{cls}.as_artist returned {type(art).__name__}', 'artist-type'):
            return
        xy = art.get_xydata()
        ok = xy.shape == (1, 2) and abs(xy[0, 0] - (reg.center.x - ox)) <= 1e-9 * (1 + abs(reg.center.x) + abs(ox)) and \
            abs(xy[0, 1] - (reg.center.y - oy)) <= 1e-9 * (1 + abs(reg.center.y) + abs(oy))
        obs.check(ok, 'point-artist-position', f'point artist at {xy.tolist()}, region centre minus origin = ({reg.center.x - ox}, {reg.center.y - oy})', 'point-position')
        for k, v in kw.items():
            got = {'markersize': art.get_markersize(), 'ms': art.get_markersize(), 'markeredgecolor': art.get_markeredgecolor(), 'mec': art.get_markeredgecolor(),
                   'marker': art.get_marker(), 'alpha': art.get_alpha(), 'mew': art.get_markeredgewidth(), 'markeredgewidth': art.get_markeredgewidth(),
                   'fillstyle': art.get_fillstyle(), 'markerfacecolor': art.get_markerfacecolor(), 'mfc': art.get_markerfacecolor()}[k]
            if k in ('markerfacecolor', 'mfc') and art.get_fillstyle() == 'none':
                continue          # matplotlib reports 'none' as the face colour of an unfilled marker whatever colour was set
            obs.check(colour_eq(got, v) if k in ('markeredgecolor', 'mec', 'markerfacecolor', 'mfc') else got == v, 'caller-kwargs-do-not-override', f'{cls}: {k}={v!r} not applied (got {got!r})', 'kwargs-override')
        kw = {{'ms': 'markersize', 'mec': 'markeredgecolor', 'mew': 'markeredgewidth'}.get(k, k): v for k, v in kw.items()}
        if 'symbol' in reg.visual and 'marker' not in kw:
            obs.check(art.get_marker() == reg.visual['symbol'], 'visual-not-applied', f'visual symbol {reg.visual["symbol"]!r} not applied as marker (got {art.get_marker()!r})', 'visual-applied')
        if 'symsize' in reg.visual and 'markersize' not in kw:
            obs.check(art.get_markersize() == reg.visual['symsize'], 'visual-not-applied', 'visual symsize not applied as markersize', 'visual-applied')
        if 'markersize' in reg.visual and 'markersize' not in kw:
            obs.check(art.get_markersize() == reg.visual['markersize'], 'visual-not-applied', 'visual markersize not applied', 'visual-applied')
        if 'marker' in reg.visual and 'marker' not in kw:
            obs.check(art.get_marker() == reg.visual['marker'], 'visual-not-applied', 'visual marker not applied', 'visual-applied')
    elif cls == 'TextPixelRegion':
        if not obs.check(isinstance(art, mt.Text), 'artist-type', f'{cls}.as_artist returned {type(art).__name__}', 'artist-type'):
            return
        x, y = art.get_position()
        ok = abs(x - (reg.center.x - ox)) <= 1e-9 * (1 + abs(reg.center.x) + abs(ox)) and abs(y - (reg.center.y - oy)) <= 1e-9 * (1 + abs(reg.center.y) + abs(oy))
        obs.check(ok, 'text-artist-position', f'text artist at ({x},{y}), region centre minus origin = ({reg.center.x - ox}, {reg.center.y - oy})', 'text')
        obs.check(art.get_text() == reg.text, 'text-artist-string', f'text artist shows {art.get_text()!r}, region text {reg.text!r}', 'text')
        for k, v in kw.items():
            got = {'color': art.get_color(), 'c': art.get_color(), 'fontsize': art.get_fontsize(), 'size': art.get_fontsize(), 'rotation': art.get_rotation(),
                   'alpha': art.get_alpha(), 'ha': art.get_horizontalalignment(), 'horizontalalignment': art.get_horizontalalignment(),
                   'va': art.get_verticalalignment(), 'verticalalignment': art.get_verticalalignment(), 'weight': art.get_fontweight(),
                   'fontweight': art.get_fontweight(), 'style': art.get_fontstyle(), 'fontstyle': art.get_fontstyle(),
                   'family': art.get_fontfamily()[0], 'fontfamily': art.get_fontfamily()[0]}[k]
            obs.check(colour_eq(got, v) if k in ('color', 'c') else got == v, 'caller-kwargs-do-not-override', f'{cls}: {k}={v!r} not applied (got {got!r})', 'kwargs-override')
        kw = {{'size': 'fontsize', 'c': 'color'}.get(k, k): v for k, v in kw.items()}
        if 'rotation' in reg.visual and 'rotation' not in kw:
            obs.check(abs(art.get_rotation() - reg.visual['rotation'] % 360) < 1e-9, 'visual-not-applied', 'visual rotation not applied', 'visual-applied')
        if 'fontsize' in reg.visual and 'fontsize' not in kw:
            obs.check(art.get_fontsize() == reg.visual['fontsize'], 'visual-not-applied', 'visual fontsize not applied', 'visual-applied')
    elif cls == 'LinePixelRegion':
        if not obs.check(isinstance(art, mp.Patch), 'artist-type', f'{cls}.as_artist returned {type(art).__name__}', 'artist-type'):
            return
        path = data_path(art)
        v = path.vertices
        sx, sy = reg.start.x - ox, reg.start.y - oy
        ex, ey = reg.end.x - ox, reg.end.y - oy
        length = math.hypot(ex - sx, ey - sy)
        if 'width' in kw and length > 0:
            # the caller's arrow width is the arrow's width: the same patch as matplotlib's Arrow built with it
            from matplotlib.patches import Arrow
            ref = Arrow(sx, sy, ex - sx, ey - sy, width=kw['width'])
            rv = ref.get_patch_transform().transform_path(ref.get_path()).vertices
            same = rv.shape == v.shape and bool(np.allclose(rv, v, rtol=1e-9, atol=1e-9 * (length + abs(sx) + abs(sy))))
            obs.check(same, 'caller-kwargs-do-not-override', f'LinePixelRegion.as_artist(width={kw["width"]}): the arrow is not the one matplotlib draws for that '
                      f'width (stored visual {dict(reg.visual)})', 'kwargs-override')
        if length == 0:
            # a line of no extent: the (degenerate) arrow sits on that position, shifted by the plot origin like everything else
            d = float(np.hypot(v[:, 0] - sx, v[:, 1] - sy).max()) if len(v) else float('inf')
            obs.check(d <= max(1.0, 0.6 * float(kw.get('width', 0.1))), 'line-artist-not-start-to-end', f'artist of a zero-length line at ({sx!r}, {sy!r}) (origin ({ox!r}, {oy!r})) has vertices up to '
                      f'{d:.6g} px away from it', 'line')
            return
        # the arrow runs from start to end: extreme projections onto the direction are 0 and the length
        ux, uy = (ex - sx) / length, (ey - sy) / length
        t = (v[:, 0] - sx) * ux + (v[:, 1] - sy) * uy
        w = np.abs(-(v[:, 0] - sx) * uy + (v[:, 1] - sy) * ux)
        tol = 1e-6 * (length + abs(sx) + abs(sy))
        ok = abs(t.min()) <= tol and abs(t.max() - length) <= tol and w.max() <= max(1.0, 0.5 * length, 0.6 * float(kw.get('width', 0.1)))
        # tail at start (widest part of the shaft base), head tip at end
        tip = v[np.argmax(t)]
        ok = ok and math.hypot(tip[0] - ex, tip[1] - ey) <= tol
        obs.check(ok, 'line-artist-not-start-to-end', f'line artist spans t in [{t.min():.6g}, {t.max():.6g}] along start->end of length {length:.6g}; tip at {tip.tolist()}',
                  'line')
    # bounding-box artist
    if cls in PATCHY:
        bb = reg.bounding_box
        r = bb.as_artist(**({'edgecolor': 'red'} if case['rs'] % 2 else {}))
        p = data_path(r)
        xs, ys = p.vertices[:, 0], p.vertices[:, 1]
        e = bb.extent
        ok = isinstance(r, mp.Rectangle) and (xs.min(), xs.max(), ys.min(), ys.max()) == (e[0], e[1], e[2], e[3]) == (bb.ixmin - 0.5, bb.ixmax - 0.5, bb.iymin - 0.5, bb.iymax - 0.5)
        obs.check(ok, 'bbox-artist-not-extent', f'bounding-box artist spans {(xs.min(), xs.max(), ys.min(), ys.max())}, extent {e}', 'bbox-artist')


def winding_number(vx, vy, px, py):
    wn = np.zeros(px.shape, dtype=int)
    n = len(vx)
    for i in range(n):
        x0, y0, x1, y1 = vx[i], vy[i], vx[(i + 1) % n], vy[(i + 1) % n]
        cross = (x1 - x0) * (py - y0) - (px - x0) * (y1 - y0)
        up = (y0 <= py) & (y1 > py) & (cross > 0)
        dn = (y0 > py) & (y1 <= py) & (cross < 0)
        wn += up.astype(int) - dn.astype(int)
    return wn


def judge_patch_kwargs(obs, art, reg, kw, cls):
    vis = dict(reg.visual)
    kw = {{'ec': 'edgecolor', 'lw': 'linewidth', 'ls': 'linestyle', 'fc': 'facecolor'}.get(k, k): v for k, v in kw.items()}      # aliases -> property names
    for k, v in list(kw.items()):
        if v is None:
            # an explicit None is matplotlib's "use your default": it overrides the stored attribute like any other value
            import matplotlib.patches as _mp
            ref = _mp.Circle((0, 0), 1, fill=art.get_fill(), **{k: None})
            getter = {'linewidth': 'get_linewidth', 'linestyle': 'get_linestyle', 'edgecolor': 'get_edgecolor'}[k]
            got, exp = getattr(art, getter)(), getattr(ref, getter)()
            same = colour_eq(got, exp) if k == 'edgecolor' else got == exp
            obs.check(same, 'caller-kwargs-do-not-override', f'{cls}: {k}=None (matplotlib default {exp!r}) not applied (got {got!r})', 'kwargs-override')
    for k, v in kw.items():
        if v is None:
            continue
        if k == 'edgecolor':
            obs.check(colour_eq(art.get_edgecolor(), v), 'caller-kwargs-do-not-override', f'{cls}: edgecolor kwarg {v!r} not applied (got {art.get_edgecolor()})', 'kwargs-override')
        elif k == 'linewidth':
            obs.check(art.get_linewidth() == v, 'caller-kwargs-do-not-override', f'{cls}: linewidth kwarg {v!r} not applied (got {art.get_linewidth()})', 'kwargs-override')
        elif k == 'fill':
            obs.check(art.get_fill() == v and colour_eq(art.get_facecolor(), kw['facecolor']), 'caller-kwargs-do-not-override', f'{cls}: fill/facecolor kwargs not applied',
                      'kwargs-override')
        elif k == 'alpha':
            obs.check(art.get_alpha() == v, 'caller-kwargs-do-not-override', f'{cls}: alpha kwarg not applied', 'kwargs-override')
        elif k == 'linestyle':
            obs.check(art.get_linestyle() in (v, 'dashdot'), 'caller-kwargs-do-not-override', f'{cls}: linestyle kwarg {v!r} not applied (got {art.get_linestyle()!r})',
                      'kwargs-override')
    # visual-derived settings (when not overridden)
    if 'edgecolor' not in kw:
        exp = vis.get('edgecolor', vis.get('color'))
        if exp is not None:
            if vis.get('default_style') == 'ds9' and exp == 'green':
                exp = '#00ff00'
            obs.check(colour_eq(art.get_edgecolor(), exp), 'visual-not-applied', f'{cls}: visual colour {exp!r} not applied (edgecolor {art.get_edgecolor()})', 'visual-applied')
        elif vis.get('default_style') == 'ds9':
            obs.check(colour_eq(art.get_edgecolor(), '#00ff00'), 'visual-not-applied', f'{cls}: ds9 default colour not applied', 'visual-applied')
    if 'linewidth' not in kw and 'linewidth' in vis:
        obs.check(art.get_linewidth() == vis['linewidth'], 'visual-not-applied', f'{cls}: visual linewidth not applied', 'visual-applied')
    if 'fill' not in kw and 'fill' in vis:
        obs.check(art.get_fill() == bool(vis['fill']), 'visual-not-applied', f'{cls}: visual fill not applied', 'visual-applied')
    if 'fill' not in kw and 'fill' not in vis:
        obs.check(art.get_fill() is False, 'default-fill-on', f'{cls}: patch is filled by default', 'visual-applied')


MUTANTS = [
    ('circle-origin-added', 'regions/shapes/circle.py', '        xy = self.center.x - origin[0], self.center.y - origin[1]\n        radius = self.radius', '        xy = self.center.x + origin[0], self.center.y - origin[1]\n        radius = self.radius'),
    ('ellipse-angle-radians-as-degrees', 'regions/shapes/ellipse.py', "        angle = self.angle.to('deg').value\n\n        mpl_kwargs", "        angle = self.angle.to('rad').value\n\n        mpl_kwargs"),
    ('ellipse-width-height-swapped', 'regions/shapes/ellipse.py', '        return Ellipse(xy=xy, width=width, height=height, angle=angle,', '        return Ellipse(xy=xy, width=height, height=width, angle=angle,'),
    ('annulus-inner-path-not-reversed', 'regions/core/compound.py', 'verts_inner = path_inner.vertices[:-1][::-1]', 'verts_inner = path_inner.vertices[:-1]'),
    ('kwargs-applied-before-visual', 'regions/shapes/rectangle.py', "        mpl_kwargs = self.visual.define_mpl_kwargs(self._mpl_artist)\n        mpl_kwargs.update(kwargs)\n\n        return Rectangle(", "        mpl_kwargs = dict(kwargs)\n        mpl_kwargs.update(self.visual.define_mpl_kwargs(self._mpl_artist))\n\n        return Rectangle("),
    ('rectangle-anchor-unrotated', 'regions/shapes/rectangle.py', '        dx = (hh * sint) - (hw * cost)\n', '        dx = -hw\n'),
    ('text-origin-ignored', 'regions/shapes/text.py', 'return Text(self.center.x - origin[0], self.center.y - origin[1],', 'return Text(self.center.x, self.center.y - origin[1],'),
    ('line-arrow-reversed', 'regions/shapes/line.py', '        dx = self.end.x - self.start.x\n        dy = self.end.y - self.start.y\n        kwargs', '        dx = self.start.x - self.end.x\n        dy = self.start.y - self.end.y\n        kwargs'),
    ('point-y-origin-sign', 'regions/shapes/point.py', '[self.center.y - origin[1]],', '[self.center.y + origin[1]],'),
    ('polygon-origin-y-uses-x', 'regions/shapes/polygon.py', 'self.vertices.y - origin[1]]).transpose()', 'self.vertices.y - origin[0]]).transpose()'),
    ('bbox-artist-upper-left', 'regions/core/bounding_box.py', 'return Rectangle(xy=(self.extent[0], self.extent[2]),', 'return Rectangle(xy=(self.extent[0], self.extent[3]),'),
    ('ds9-green-not-translated', 'regions/core/metadata.py', "                if val == 'green':", "                if val == 'Green':"),
]
