"""C09 - DS9 serialise -> parse round-trips every region, and is a fixed point thereafter.

Observed: ``Region.serialize(format='ds9', precision=p)`` /
``Regions.serialize(...)`` text, what the real ``Regions.parse`` makes of it,
and the warnings emitted.  The serialised text itself is never inspected: every
verdict is taken on the regions the parser returns.

Oracle (independent of the serialiser): the numbers held by the input regions,
converted by astropy to the unit the DS9 format prints (degrees for sky
positions / sizes / angles, 0-based pixels for image positions, *semi*-axes
for ellipses) and compared with the parsed region within
``0.5*10**-p + 4*eps*|v|`` (longitudes and angles modulo 360);
class / frame / text / tags / include sense compared directly;
``serialize`` called twice (and on an independently rebuilt copy) must give the
same text; ``parse(ser(parse(ser(R)))) == parse(ser(R))`` by ``Region.__eq__``
inside the stable-decimal regime; lists with inexpressible members (compound
regions, sky frames without a DS9 name) must warn and must parse to the same
regions as the list without them.
"""
import math
import os
import warnings

import numpy as np

from vmon import gen, spec as S

ID = 'C09'
LEVEL = 'exploration'
TECHNIQUE = ('runtime oracle on serialize(format="ds9")/parse: input parameters converted to the printed unit by astropy and compared '
             'with what the real parser returns (half a unit of the last decimal + 4 eps|v|, angles/longitudes mod 360, ellipse axes '
             'as semi-axes); determinism, Region.__eq__ fixed point in the stable-decimal regime, skip-with-warning differential '
             'against the list without the inexpressible members')
RULE = ('cases = (lane, precision p in 1..12 or default, list of 1..8 region specs); region spec = one of 11 DS9-expressible classes '
        '(circle, ellipse, rectangle, polygon, regular polygon, line, point, text, circle/ellipse/rectangle annulus) x frame in '
        '{image, icrs, fk5, fk4, galactic, barycentricmeanecliptic} x coordinates (edges 0/360/poles/-1 px, rounding ties, ints, '
        'magnitudes 1e-9..1e6) x sizes >= 2*10^-p of the printed unit in deg/arcmin/arcsec/rad/mas/hourangle (Quantity or Angle; int/float/float32 pixels) x angles of any magnitude/unit x '
        'metadata (include True/False/1/0/absent, text with spaces ; # = quotes unicode, 0..3 tags, DS9 flags, dropped keys) x visual '
        '(colour names/#hex, face/edgecolor, linewidth, linestyle/dash/dashlist, fill, font*, marker+size, rotation/textangle); '
        'list modes: metadata none/shared/partly shared/disjoint, frames same/two/mixed; skip lane adds 1-2 compound or '
        'unmapped-frame members; non-trivial = >=1 judged comparison; distinct = distinct case specs')
ASSUMPTIONS = [
    'astropy unit conversion and SkyCoord spherical components are the trusted reference for the printed values',
    'ellipse axes are judged as printed (semi-axes): the full width may differ by one unit of the last decimal',
    'visual attributes are legitimately translated (linewidth<->width, edgecolor<->color, ...): they are judged only through the '
    'parse/serialise/parse fixed point (Region.__eq__), not on the first trip',
    "meta['label'] has no DS9 spelling; it is generated but its loss is only counted (label-not-carried), not judged",
    'input sky frames carry default frame attributes (DS9 cannot name an equinox); frame identity = is_equivalent_frame',
    'fixed point is judged only where every printed value satisfies |v|*10^p <= 1e14 (decimal string stable under +1/-1, /2*2)',
]

EPS = float(np.finfo(float).eps)
FRAMES = ['image', 'icrs', 'fk5', 'fk4', 'galactic', 'barycentricmeanecliptic']
SKY_FRAMES = FRAMES[1:]
# celestial frames without a DS9 name (regions/io/ds9/core.py: ds9_frame_map)
UNMAPPED_FRAMES = ['supergalactic', 'geocentricmeanecliptic', 'heliocentricmeanecliptic', 'barycentrictrueecliptic',
                   'fk4noeterms', 'gcrs', 'cirs', 'hcrs', 'precessedgeocentric']
SHAPES = ['circle', 'ellipse', 'rectangle', 'polygon', 'regularpolygon', 'line', 'point', 'text', 'circleannulus',
          'ellipseannulus', 'rectangleannulus']
CLSNAME = {'circle': 'Circle', 'ellipse': 'Ellipse', 'rectangle': 'Rectangle', 'polygon': 'Polygon',
           'regularpolygon': 'RegularPolygon', 'line': 'Line', 'point': 'Point', 'text': 'Text',
           'circleannulus': 'CircleAnnulus', 'ellipseannulus': 'EllipseAnnulus', 'rectangleannulus': 'RectangleAnnulus'}
# parameter name -> kind, in the order judged
SHAPE_PARAMS = {
    'circle': [('center', 'coord'), ('radius', 'size')],
    'ellipse': [('center', 'coord'), ('width', 'semi'), ('height', 'semi'), ('angle', 'angle')],
    'rectangle': [('center', 'coord'), ('width', 'size'), ('height', 'size'), ('angle', 'angle')],
    'polygon': [('vertices', 'coord')],
    'line': [('start', 'coord'), ('end', 'coord')],
    'point': [('center', 'coord')],
    'text': [('center', 'coord')],
    'circleannulus': [('center', 'coord'), ('inner_radius', 'size'), ('outer_radius', 'size')],
    'ellipseannulus': [('center', 'coord'), ('inner_width', 'semi'), ('outer_width', 'semi'), ('inner_height', 'semi'),
                       ('outer_height', 'semi'), ('angle', 'angle')],
    'rectangleannulus': [('center', 'coord'), ('inner_width', 'size'), ('outer_width', 'size'), ('inner_height', 'size'),
                         ('outer_height', 'size'), ('angle', 'angle')],
}

TEXTS = ['hello', 'a b', 'NGC 1234', 'x;y', 'a; b; c', ';', 'tag#1', '# leading hash', 'k=v', 'text=fake', 'a=b;c#d e',
         'α Cen é°', "it's", 'say "hi"', ' padded ', '', 'UPPER lower', 'circle(1,2,3)', '-minus', 'global',
         'include=0', 'a,b', 'a|b', 'color=red tag=x', 'Source_17b', 'x' * 60, 'fk5; circle', 'two  spaces', '(paren)', 'a:b:c',
         '12h 30m', 'r=5"',
         # '=' with blanks around it; characters that str.splitlines() treats as line boundaries but the DS9 line grammar
         # does not (form feed, vertical tab, FS/GS/RS, NEL, LS, PS); a tab
         'S/N = 5.2', 'a =b', 'a= b', 'page\x0cbreak', 'v\x0bt', 'fs\x1cgs\x1drs\x1eus\x1fend', 'nel\x85x', 'ls\u2028x', 'ps\u2029x',
         'tab\tx', 'a b c}', 'x}y', '{x}', 'brace} and "quote"',
         # words of the format's own vocabulary inside free text
         'sky background estimate', 'background', 'source', 'Background', 'select highlite', 'dash', 'fixed star', 'composite', 'image',
         'exclude', 'physical', 'ruler', 'point=circle', 'edit move', 'line 1 1', 'delete', 'the background']
NUMERIC_TEXTS = ['42', '007', '1e3', '3.14', 'nan', 'inf', '-5', '+7', ' 12 ', '1_000', 'Infinity', '0']
TAGS = ['k = v', 'g\x0c1', 'x}y', 'a', 'group 1', 'src', 'bkg', 'Tag-3', 'x_y', 'A B C', '1', '2.5', 'α', 'a#b', 'k=v', 'Group 1', 'b', 'background', 'source', 'sky background', 'select', 'dash', 'fixed']
COLORS = ['red', 'green', 'blue', 'cyan', 'magenta', 'yellow', 'black', 'white', '#ff0000', '#0F0', '#12ab9F', 'Red', '#000000']
FLAGS = ['select', 'highlite', 'fixed', 'edit', 'move', 'rotate', 'delete', 'source', 'background']
DROPPED_META = [('label', 'my label'), ('comment', 'a comment'), ('name', 'n1'), ('type', 'ann'), ('frame', 'x'), ('label', 'L 2')]
MARKERS = ['o', 's', 'D', 'x', '+', '*', 'v']


def budget(tier):
    return 32 if tier == 'quick' else 440


def shards(tier):
    return 16


def required_counters(tier):
    k = 1 if tier == 'quick' else 10
    return {'judged:count': 300 * k, 'judged:class': 800 * k, 'judged:frame': 800 * k, 'judged:coord-pixel': 500 * k,
            'judged:coord-sky': 1500 * k, 'judged:size-pixel': 200 * k, 'judged:size-sky': 500 * k, 'judged:angle': 300 * k,
            'judged:text': 300 * k, 'judged:tags': 800 * k, 'judged:include-sense': 800 * k, 'judged:include-excluded': 60 * k,
            'judged:determinism': 300 * k, 'judged:fixed-point': 500 * k, 'skip:decided': 40 * k, 'lane:single': 50 * k, 'lane:list': 100 * k, 'lane:skip': 40 * k,
            'shape:ellipseannulus': 30 * k, 'shape:regularpolygon': 15 * k, 'frame:barycentricmeanecliptic': 50 * k,
            'frame:fk4': 50 * k, 'frame:image': 100 * k, 'list:hoisted-candidates': 30 * k, 'list:mixed-frames': 30 * k}


# ---------------------------------------------------------------------------
# generators
def _tie(rng, p, lo=-50, hi=50):
    """k + odd/2^(p+1): exactly representable, exactly half-way between two p-decimal numbers."""
    p = min(p, 10)
    return rng.randint(lo, hi) + (2 * rng.randrange(2 ** p) + 1) / 2 ** (p + 1)


def pix_v(rng, p):
    kind = rng.choice(['mid', 'mid', 'mid', 'large', 'tiny', 'neg1', 'tie', 'int', 'halfint', 'zero'])
    if kind == 'mid':
        return rng.uniform(-500, 500)
    if kind == 'large':
        return rng.choice([-1, 1]) * gen.logu(rng, 1e3, 1e6)
    if kind == 'tiny':
        return rng.choice([-1, 1]) * gen.logu(rng, 1e-9, 1e-3)
    if kind == 'neg1':
        return -1 + rng.choice([0.0, 1e-12, -1e-12, 1e-5, -1e-5])
    if kind == 'tie':
        return _tie(rng, p) - 1
    if kind == 'int':
        return rng.randint(-100, 1000)
    if kind == 'halfint':
        return rng.randint(-50, 500) + 0.5
    return 0.0


def lon_v(rng, p):
    kind = rng.choice(['u', 'u', 'u', 'u', 'edge', 'tie', 'neg', 'big'])
    if kind == 'u':
        return rng.uniform(0, 360)
    if kind == 'edge':
        return rng.choice([0.0, 1e-9, 359.999999999, 359.9999, 360 - 1e-7, 180.0, 1e-13, 359.96, 90.0, 270.0])
    if kind == 'tie':
        return _tie(rng, p, 0, 359)
    if kind == 'neg':
        return rng.uniform(-180, 0)
    return rng.uniform(360, 720)


def lat_v(rng, p):
    kind = rng.choice(['u', 'u', 'u', 'u', 'pole', 'zero', 'tie'])
    if kind == 'u':
        return math.degrees(math.asin(rng.uniform(-1, 1)))
    if kind == 'pole':
        return rng.choice([90.0, -90.0, 89.999999999, -89.9999, 89.96, -89.96])
    if kind == 'zero':
        return rng.choice([0.0, 1e-10, -1e-10])
    return _tie(rng, p, -89, 88)


def coord_spec(rng, p, frame):
    if frame == 'image':
        return S.pix(pix_v(rng, p), pix_v(rng, p))
    return S.held(S.sky(lon_v(rng, p), lat_v(rng, p), frame), rng)


def coords_spec(rng, p, frame, n):
    """n vertices: hostile independent values, or a cluster around one point."""
    cluster = rng.random() < 0.6
    if frame == 'image':
        if cluster:
            cx, cy, L = pix_v(rng, p), pix_v(rng, p), gen.logu(rng, 1e-2, 1e3)
            xs = [float(cx) + rng.uniform(-L, L) for _ in range(n)]
            ys = [float(cy) + rng.uniform(-L, L) for _ in range(n)]
        else:
            xs = [pix_v(rng, p) for _ in range(n)]
            ys = [pix_v(rng, p) for _ in range(n)]
        if n >= 4 and rng.random() < 0.15:
            xs[-1], ys[-1] = xs[0], ys[0]          # an explicitly closed ring (last vertex repeats the first, as GIS tools write it)
        if all(isinstance(v, int) for v in xs + ys):
            return S.pix(S.arr_spec(np.array(xs, dtype='int64')), S.arr_spec(np.array(ys, dtype='int64')))
        return S.pix(S.arr_spec(np.array(xs, dtype=float)), S.arr_spec(np.array(ys, dtype=float)))
    if cluster:
        l0, b0, L = lon_v(rng, p), lat_v(rng, p), gen.logu(rng, 1e-4, 10)
        lons = [l0 + rng.uniform(-L, L) for _ in range(n)]
        lats = [min(90.0, max(-90.0, b0 + rng.uniform(-L, L))) for _ in range(n)]
    else:
        lons = [lon_v(rng, p) for _ in range(n)]
        lats = [lat_v(rng, p) for _ in range(n)]
    if n >= 4 and rng.random() < 0.15:
        lons[-1], lats[-1] = lons[0], lats[0]
    return S.held(S.sky(S.arr_spec(np.array(lons, dtype=float)), S.arr_spec(np.array(lats, dtype=float)), frame), rng)


_UNIT_PER_DEG = {'deg': 1.0, 'arcmin': 60.0, 'arcsec': 3600.0, 'rad': math.pi / 180.0, 'mas': 3.6e6, 'hourangle': 1.0 / 15.0}


def size_v(rng, p, frame, lo_mult=2.0):
    """a size in the printed unit (pixels / degrees), >= lo_mult * 10^-p."""
    lo = lo_mult * 10.0 ** -p
    hi = 1e5 if frame == 'image' else 60.0
    kind = rng.choice(['log', 'log', 'log', 'lo', 'tie', 'mid', 'int', 'small'])
    if kind == 'log':
        v = gen.logu(rng, lo, max(hi, lo * 10))
    elif kind == 'lo':
        v = lo
    elif kind == 'tie':
        v = _tie(rng, p, 0, 40)
    elif kind == 'mid':
        v = rng.uniform(1, 100) if frame == 'image' else rng.uniform(0.01, 5)
    elif kind == 'int':
        v = rng.randint(1, 1000) if frame == 'image' else float(rng.randint(1, 40))
    else:
        v = gen.logu(rng, lo, max(lo * 100, 1e-3))
    if v < lo:
        v = lo
    return v


def size_spec(rng, v, frame, unit=None, allow32=True):
    """size value in printed unit -> spec (number for image, quantity for sky)."""
    if frame == 'image':
        if allow32 and isinstance(v, float) and rng.random() < 0.05:
            v32 = float(np.float32(v))
            if v32 >= v:                      # keep the lower bound; exactly representable in float32
                return {'np': 'float32', 'v': v32}
        return v
    unit = unit or rng.choice(['deg', 'deg', 'deg', 'arcmin', 'arcsec', 'arcsec', 'rad', 'mas', 'hourangle'])
    return S.q(float(v) * _UNIT_PER_DEG[unit], unit, angle=rng.random() < 0.12)


def pair_inner_outer(rng, p, frame, lo_mult):
    lo = lo_mult * 10.0 ** -p
    inner = float(size_v(rng, p, frame, lo_mult))
    gap = max(1.5 * lo, inner * rng.choice([1e-3, 0.01, 0.1, 0.5, 1.0, 3.0]) * rng.uniform(0.5, 1))
    if rng.random() < 0.15:
        gap = 1.5 * lo
    gap = max(gap, 64 * EPS * inner)       # stays a strict inequality in floating point and across unit conversions
    unit = rng.choice(['deg', 'deg', 'arcmin', 'arcsec', 'rad'])
    unit2 = unit if rng.random() < 0.8 else rng.choice(['deg', 'arcmin', 'arcsec'])
    return size_spec(rng, inner, frame, unit, False), size_spec(rng, inner + gap, frame, unit2, False)


def text_v(rng):
    if rng.random() < 0.04:
        return rng.choice(NUMERIC_TEXTS)
    return rng.choice(TEXTS)


def gen_meta(rng, richness=None):
    """(meta, visual) dicts of JSON values (linestyle tuples are lists, rebuilt in build_region)."""
    richness = richness if richness is not None else rng.choice([0, 1, 1, 2, 3])
    meta, vis = {}, {}
    if richness == 0:
        return meta, vis
    inc = rng.choice(['absent', 'absent', True, False, 1, 0, 0, 'np_true', 'np_false'])      # np_*: NumPy booleans (an element of a boolean array)
    if inc != 'absent':
        meta['include'] = inc
    if rng.random() < 0.55:
        meta['text'] = text_v(rng)
    if rng.random() < 0.5:
        meta['tag'] = rng.sample(TAGS, rng.choice([0, 1, 1, 2, 3]))
        if len(meta['tag']) > 1 and rng.random() < 0.2:
            meta['tag_as_tuple'] = True
        if meta['tag'] and rng.random() < 0.15:
            # a tag list is a list: the same tag may be listed more than once
            meta['tag'] = meta['tag'] + [meta['tag'][0]] if rng.random() < 0.5 else [meta['tag'][0]] * 2
    for _ in range(rng.choice([0, 0, 1, 2]) if richness > 1 else 0):
        meta[rng.choice(FLAGS)] = rng.choice([0, 1])
    if richness > 1 and rng.random() < 0.3:
        k, v = rng.choice(DROPPED_META)
        meta[k] = v
    nvis = {1: rng.choice([0, 1]), 2: rng.randint(1, 3), 3: rng.randint(2, 6)}[richness]
    for _ in range(nvis):
        k = rng.choice(['color', 'edgeface', 'linewidth', 'linestyle', 'dash', 'fill', 'font', 'marker', 'rotation', 'point',
                        'textangle', 'mew'])
        if k == 'color':
            vis['color'] = rng.choice(COLORS)
        elif k == 'edgeface':
            c = rng.choice(COLORS)
            vis['edgecolor'] = c
            vis['facecolor'] = c if rng.random() < 0.8 else rng.choice(COLORS)
        elif k == 'linewidth':
            vis['linewidth'] = rng.choice([1, 2, 3, 4, 1.5, 0.5, 2.0000125, 1.23456789])
        elif k == 'linestyle':
            vis['linestyle'] = rng.choice(['dashed', '--', 'solid', [0, [8, 3]], [0, [2, 4]], [0, [3, 1, 1, 1]]])
        elif k == 'dash':
            vis['dash'] = rng.choice([0, 1])
            if rng.random() < 0.5:
                vis['dashlist'] = rng.choice(['8 3', '2 4'])
        elif k == 'fill':
            vis['fill'] = rng.choice([True, False, 0, 1])
        elif k == 'font':
            vis['fontname'] = rng.choice(['helvetica', 'times', 'courier'])
            if rng.random() < 0.7:
                vis['fontsize'] = rng.choice([8, 10, 12, 24])
            if rng.random() < 0.5:
                vis['fontweight'] = rng.choice(['normal', 'bold'])
            if rng.random() < 0.5:
                vis['fontstyle'] = rng.choice(['normal', 'italic', 'roman'])
        elif k == 'marker':
            vis['marker'] = rng.choice(MARKERS)
            if rng.random() < 0.6:
                vis['markersize'] = rng.choice([5, 11, 20, 7.5, 14.0, 11.0])
        elif k == 'mew':
            vis['markeredgewidth'] = rng.choice([1, 2, 3, 1.23456789])
        elif k == 'rotation':
            vis['rotation'] = rng.choice([0, 30, 45.5, -90, 359.75, 1e-05, 123.456789012, 1234567.25])
        elif k == 'point':
            vis['point'] = rng.choice(['diamond 12', 'x', 'boxcircle 7', 'cross 3'])
        elif k == 'textangle':
            vis['textangle'] = rng.choice([30, 12.5])
            if rng.random() < 0.3:
                vis['textrotate'] = rng.choice([0, 1])
    return meta, vis


def shape_spec(rng, p, frame, shape, meta, vis):
    """spec of one DS9-expressible region.  p = effective precision."""
    img = frame == 'image'
    cls = CLSNAME[shape] + ('PixelRegion' if img else 'SkyRegion')
    meta = dict(meta) if meta else None
    vis = dict(vis) if vis else None
    if meta is None and rng.random() < 0.5:
        meta = {} if rng.random() < 0.5 else None
    kw = {}
    def ang():
        if rng.random() < 0.04:
            # just below 1e-4 deg: printed in exponent notation, may round up to 1.0e-04 (where the notation switches)
            v = rng.choice([-1, 1]) * 1e-4 * (1 - 10.0 ** rng.uniform(-6, -1.3))
            unit = rng.choice(['deg', 'hourangle', 'arcmin'])
            return S.q(v * {'deg': 1.0, 'hourangle': 1 / 15.0, 'arcmin': 60.0}[unit], unit)
        return gen.angle_spec(rng)
    if shape == 'circle':
        kw = dict(center=coord_spec(rng, p, frame), radius=size_spec(rng, size_v(rng, p, frame), frame))
    elif shape == 'ellipse':
        kw = dict(center=coord_spec(rng, p, frame), width=size_spec(rng, 2 * size_v(rng, p, frame), frame),
                  height=size_spec(rng, 2 * size_v(rng, p, frame), frame))
        if rng.random() < 0.9:
            kw['angle'] = ang()
    elif shape == 'rectangle':
        kw = dict(center=coord_spec(rng, p, frame), width=size_spec(rng, size_v(rng, p, frame), frame),
                  height=size_spec(rng, size_v(rng, p, frame), frame))
        if rng.random() < 0.9:
            kw['angle'] = ang()
    elif shape == 'polygon':
        n = rng.choice([3, 3, 4, 5, 6, 8, 13, 40])
        kw = dict(vertices=coords_spec(rng, p, frame, n))
        if img and rng.random() < 0.15:
            kw['origin'] = S.pix(rng.choice([10, -3.5, 0.25]), rng.choice([7, 100.0, -0.125]))
    elif shape == 'regularpolygon':
        kw = dict(center=coord_spec(rng, p, 'image'), nvertices=rng.choice([3, 4, 5, 6, 8, 12]),
                  radius=size_v(rng, p, 'image'))
        if rng.random() < 0.8:
            kw['angle'] = ang()
    elif shape == 'line':
        kw = dict(start=coord_spec(rng, p, frame), end=coord_spec(rng, p, frame))
    elif shape == 'point':
        kw = dict(center=coord_spec(rng, p, frame))
    elif shape == 'text':
        kw = dict(center=coord_spec(rng, p, frame), text=text_v(rng))
        if meta:
            meta.pop('text', None)     # two competing texts: outcome not fixed by the statement
    elif shape == 'circleannulus':
        i, o = pair_inner_outer(rng, p, frame, 2.0)
        kw = dict(center=coord_spec(rng, p, frame), inner_radius=i, outer_radius=o)
    elif shape == 'ellipseannulus':
        iw, ow = pair_inner_outer(rng, p, frame, 4.0)      # full widths: semi-axes >= 2*10^-p, gap >= 3*10^-p
        ih, oh = pair_inner_outer(rng, p, frame, 4.0)
        kw = dict(center=coord_spec(rng, p, frame), inner_width=iw, outer_width=ow, inner_height=ih, outer_height=oh)
        if rng.random() < 0.9:
            kw['angle'] = ang()
    elif shape == 'rectangleannulus':
        iw, ow = pair_inner_outer(rng, p, frame, 2.0)
        ih, oh = pair_inner_outer(rng, p, frame, 2.0)
        kw = dict(center=coord_spec(rng, p, frame), inner_width=iw, outer_width=ow, inner_height=ih, outer_height=oh)
        if rng.random() < 0.9:
            kw['angle'] = ang()
    else:
        raise ValueError(shape)
    d = S.reg(cls, meta=meta, visual=vis, **kw)
    d['shape'] = shape
    d['frame'] = frame
    return d


def pick_shape(rng, frame):
    while True:
        s = rng.choice(SHAPES)
        if s != 'regularpolygon' or frame == 'image':
            return s


def gen_list(rng, p, n, frame_mode=None, meta_mode=None):
    frame_mode = frame_mode or rng.choice(['same', 'same', 'two', 'mixed'])
    meta_mode = meta_mode or rng.choice(['none', 'shared', 'shared', 'partly', 'partly', 'disjoint', 'disjoint'])
    f0, f1 = rng.choice(FRAMES), rng.choice(FRAMES)
    base_m, base_v = gen_meta(rng, rng.choice([1, 2, 3]))
    out = []
    for i in range(n):
        frame = {'same': f0, 'two': rng.choice([f0, f1]), 'mixed': rng.choice(FRAMES)}[frame_mode]
        shape = pick_shape(rng, frame)
        if meta_mode == 'none':
            m, v = None, None
        elif meta_mode == 'shared':
            m, v = dict(base_m), dict(base_v)
            if 'tag' in m and rng.random() < 0.5:
                m['tag'] = rng.sample(TAGS, rng.choice([1, 2]))
        elif meta_mode == 'partly':
            m, v = dict(base_m), dict(base_v)
            om, ov = gen_meta(rng)
            for k, val in om.items():
                if rng.random() < 0.6:
                    m[k] = val
            for k, val in ov.items():
                if rng.random() < 0.6:
                    v[k] = val
            for k in list(m):
                if rng.random() < 0.15:
                    del m[k]
        else:
            m, v = gen_meta(rng)
        out.append(shape_spec(rng, p, frame, shape, m, v))
    return out, frame_mode, meta_mode


def inexpressible_spec(rng, p):
    kind = rng.choice(['compound-pixel', 'compound-sky', 'frame', 'frame'])
    if kind == 'frame':
        frame = rng.choice(UNMAPPED_FRAMES)
        shape = pick_shape(rng, frame)
        m, v = gen_meta(rng, rng.choice([0, 1]))
        d = shape_spec(rng, p, frame, shape, m, v)
        d['inexpressible'] = 'unmapped-frame'
        return d
    if kind == 'compound-pixel':
        r1 = shape_spec(rng, p, 'image', rng.choice(['circle', 'ellipse', 'rectangle', 'polygon', 'circleannulus']), None, None)
        r2 = shape_spec(rng, p, 'image', rng.choice(['circle', 'ellipse', 'rectangle', 'polygon']), None, None)
        d = S.reg('CompoundPixelRegion', region1=r1, region2=r2, operator=rng.choice(['and', 'or', 'xor']))
    else:
        f = rng.choice(SKY_FRAMES)
        r1 = shape_spec(rng, p, f, rng.choice(['circle', 'ellipse', 'rectangle', 'polygon']), None, None)
        r2 = shape_spec(rng, p, f, rng.choice(['circle', 'ellipse', 'circleannulus']), None, None)
        d = S.reg('CompoundSkyRegion', region1=r1, region2=r2, operator=rng.choice(['and', 'or', 'xor']))
    d['inexpressible'] = 'compound'
    return d


def gen_p(rng):
    return None if rng.random() < 0.05 else rng.randint(1, 12)


def generate(rng, tier, shard, nshards):
    total = 8000 if tier == 'quick' else 320000
    n = max(50, total // max(1, nshards))
    for i in range(n):
        p = gen_p(rng)
        pe = 8 if p is None else p
        r = rng.random()
        if i % 10 == 9:
            # regions that were born from hand-written DS9 text (the grammar of the DS9-reading check): properties in all
            # spellings, global lines, composites ... - serialise and parse them again
            yield {'lane': 'text-born', 'p': 12, 'doc': {'lane': rng.choice(['doc', 'doc', 'meta', 'composite', 'matrix']), 'rs': rng.randrange(2 ** 40),
                                                          'idx': rng.randrange(10 ** 6)}}
            continue
        if r < 0.2:
            frame = rng.choice(FRAMES)
            shape = pick_shape(rng, frame)
            m, v = gen_meta(rng)
            yield {'lane': 'single', 'p': p, 'api': rng.choice(['region', 'regions']),
                   'regions': [shape_spec(rng, pe, frame, shape, m, v)], 'rebuild': rng.random() < 0.3}
        elif r < 0.8:
            regs, fm, mm = gen_list(rng, pe, rng.randint(1, 8))
            yield {'lane': 'list', 'p': p, 'api': 'regions', 'regions': regs, 'frame_mode': fm, 'meta_mode': mm,
                   'rebuild': rng.random() < 0.3}
        else:
            regs, fm, mm = gen_list(rng, pe, rng.randint(1, 5))
            for s in regs:          # keep NaN-valued parses out of the == differential
                for holder in (s.get('meta') or {}, s['p']):
                    if holder.get('text') in NUMERIC_TEXTS:
                        holder['text'] = 'plain'
            for _ in range(rng.choice([1, 1, 2])):
                regs.insert(rng.randint(0, len(regs)), inexpressible_spec(rng, pe))
            yield {'lane': 'skip', 'p': p, 'api': 'regions', 'regions': regs, 'frame_mode': fm, 'meta_mode': mm}


# ---------------------------------------------------------------------------
# building
def build_region(spec):
    spec = dict(spec)
    if spec['cls'].startswith('Compound'):
        import operator
        import regions
        ops = {'and': operator.and_, 'or': operator.or_, 'xor': operator.xor}
        return getattr(regions, spec['cls'])(build_region(spec['p']['region1']), build_region(spec['p']['region2']),
                                             ops[spec['p']['operator']])
    clean = {'t': 'reg', 'cls': spec['cls'], 'p': spec['p']}
    for k in ('meta', 'visual'):
        if spec.get(k) is not None:
            clean[k] = spec[k]
    tag_tuple = False
    if (clean.get('meta') or {}).get('tag_as_tuple'):
        clean['meta'] = dict(clean['meta'])
        tag_tuple = bool(clean['meta'].pop('tag_as_tuple'))
    npinc = None
    if isinstance((clean.get('meta') or {}).get('include'), str):
        clean['meta'] = dict(clean['meta'])
        npinc = np.bool_(clean['meta'].pop('include') == 'np_true')
        clean['meta']['include'] = True          # placeholder keeping the entry's position
    r = S.build(clean)
    if npinc is not None:
        r.meta['include'] = npinc
    if tag_tuple and 'tag' in r.meta:
        r.meta['tag'] = tuple(r.meta['tag'])          # several tags held in a tuple instead of a list
    ls = dict.get(r.visual, 'linestyle')
    if isinstance(ls, list):
        dict.__setitem__(r.visual, 'linestyle', (ls[0], tuple(ls[1])))
    return r


# ---------------------------------------------------------------------------
# reading regions back (the oracle's view)
def shape_of(region):
    n = type(region).__name__.lower()
    return n.replace('skyregion', '').replace('pixelregion', '')


def anchor_coord(region):
    for name in ('center', 'vertices', 'start'):
        if name in region._params:
            return getattr(region, name)
    return None


def printed_values(region):
    """[(label, kind, value)] in the unit DS9 prints: 0-based pixels, degrees, semi-axes for ellipses.

    kinds: pix, lon, lat, size, semi, angle.  RegularPolygon -> its polygon vertices.
    """
    import astropy.units as u
    from regions import PixelRegion
    shape = shape_of(region)
    if shape == 'regularpolygon':
        shape = 'polygon'
    is_pix = isinstance(region, PixelRegion)
    out = []
    for name, kind in SHAPE_PARAMS[shape]:
        v = getattr(region, name)
        if kind == 'coord':
            if is_pix:
                xs = np.atleast_1d(np.asarray(v.x, dtype=float))
                ys = np.atleast_1d(np.asarray(v.y, dtype=float))
                for i in range(xs.size):
                    out.append((f'{name}[{i}].x', 'pix', float(xs[i])))
                    out.append((f'{name}[{i}].y', 'pix', float(ys[i])))
            else:
                sph = v.represent_as('unitspherical')
                lons = np.atleast_1d(sph.lon.to_value(u.deg))
                lats = np.atleast_1d(sph.lat.to_value(u.deg))
                for i in range(lons.size):
                    out.append((f'{name}[{i}].lon', 'lon', float(lons[i])))
                    out.append((f'{name}[{i}].lat', 'lat', float(lats[i])))
        elif kind in ('size', 'semi'):
            if is_pix:
                if isinstance(v, u.Quantity):
                    raise TypeError(f'{name} of a pixel region is a Quantity')
                val = float(v)
            else:
                val = float(v.to_value(u.deg))
            out.append((name, kind, val / 2 if kind == 'semi' else val))
        else:
            out.append((name, 'angle', float(v.to_value(u.deg))))
    return out


def tol_for(kind, a, b, p):
    mag = max(abs(a), abs(b))
    if kind == 'pix':
        mag += 1.0           # printed 1-based
    return 0.5 * 10.0 ** -p + 4 * EPS * mag


def diff_for(kind, a, b):
    d = a - b
    if kind in ('lon', 'angle'):
        d -= 360.0 * round(d / 360.0)        # exact for |d| < 180 (no precision lost on the small difference)
    return abs(d)


def numeric_key(kind, a, b, tol, shape, is_pix):
    d = b - a
    where = ('pixel' if is_pix else 'sky') + ':' + shape
    if kind == 'pix' and abs(abs(d) - 1.0) <= max(tol, 1e-9):
        return 'pixel-origin-shift:' + where
    if kind in ('size', 'semi') and a != 0:
        ratio = b / a
        if abs(ratio - 2) <= 1e-6 + 2 * tol / abs(a) or abs(ratio - 0.5) <= 1e-6 + tol / abs(a):
            return 'axis-factor-two:' + where
    name = {'pix': 'coord', 'lon': 'coord', 'lat': 'coord', 'size': 'size', 'semi': 'size', 'angle': 'angle'}[kind]
    return f'{name}-beyond-half-unit:' + where


def floatlike(s):
    try:
        float(s)
        return True
    except (TypeError, ValueError):
        return False


def norm_text(t):
    return '' if t is None else t


_STAGE = ['?']


def classify_exception(case, exc):
    return _STAGE[0] + '-raises'


def _from_library(exc):
    import os
    libdir = os.path.join(os.path.realpath(os.environ.get('VERIF_REPO', '/repo')), 'regions') + os.sep
    tb = exc.__traceback__
    while tb is not None:
        if os.path.realpath(tb.tb_frame.f_code.co_filename).startswith(libdir):
            return True
        tb = tb.tb_next
    return False


_WRITE_EVERY = [0]


def _ser(obj_or_list, api, p):
    """serialize through the public API, recording warnings.  Every third call goes through write() and reads the file's text
    back: the writer is the serialiser plus a file, with the same options."""
    from regions import Regions
    kw = {} if p is None else {'precision': p}
    _WRITE_EVERY[0] += 1
    via_file = _WRITE_EVERY[0] % 3 == 0
    target = obj_or_list[0] if api == 'region' else Regions(list(obj_or_list))
    with warnings.catch_warnings(record=True) as w:
        warnings.simplefilter('always')
        if via_file:
            import tempfile
            d = tempfile.mkdtemp(prefix='vmon-c09-')
            try:
                path = os.path.join(d, 'out.reg')
                target.write(path, format='ds9', overwrite=True, **kw)
                with open(path, encoding='utf-8', newline='') as fh:
                    s = fh.read()
            finally:
                import shutil
                shutil.rmtree(d, ignore_errors=True)
        else:
            s = target.serialize(format='ds9', **kw)
    return s, w


def _parse(s):
    from regions import Regions
    with warnings.catch_warnings():
        warnings.simplefilter('ignore')
        return Regions.parse(s, format='ds9')


# ---------------------------------------------------------------------------
def compare_region(obs, orig, got, p, all_excluded):
    """first-trip comparison of one region with what the parser returned."""
    import regions
    from regions import PixelRegion
    shape = shape_of(orig)
    is_pix = isinstance(orig, PixelRegion)
    obs.count('shape:' + shape)
    exp_cls = type(orig)
    if shape == 'regularpolygon':
        exp_cls = regions.PolygonPixelRegion
    if not obs.check(type(got) is exp_cls, 'class-changed:' + shape,
                     f'{type(orig).__name__} came back as {type(got).__name__}', 'class'):
        return False
    # frame
    oc, gc = anchor_coord(orig), anchor_coord(got)
    if is_pix:
        obs.count('frame:image')
        obs.ok(1, 'frame')      # class check above already fixed Pixel vs Sky
    else:
        fname = oc.frame.name
        obs.count('frame:' + fname)
        same = gc.frame.name == fname and bool(oc.frame.is_equivalent_frame(gc.frame))
        if not obs.check(same, 'frame-changed:' + fname, f'written in {oc.frame!r}, read back in {gc.frame!r}', 'frame'):
            return False
    # numbers
    try:
        ev = printed_values(orig)
        gv = printed_values(got)
    except Exception as exc:           # a parameter of the parsed region has the wrong kind
        obs.violation('param-type-changed:' + shape, f'cannot read parameters back: {type(exc).__name__}: {exc}')
        return False
    if len(ev) != len(gv):
        obs.violation('vertex-count-changed:' + shape, f'{len(ev) // 2} coordinates written, {len(gv) // 2} read back')
        return False
    for (lab, kind, a), (_, _, b) in zip(ev, gv):
        tol = tol_for(kind, a, b, p)
        d = diff_for(kind, a, b)
        what = {'pix': 'coord-pixel', 'lon': 'coord-sky', 'lat': 'coord-sky', 'angle': 'angle'}.get(
            kind, 'size-pixel' if is_pix else 'size-sky')
        if d <= tol:
            obs.ok(1, what)
            obs.note_max('max:err_over_half_unit:' + what, d / (0.5 * 10.0 ** -p))
        else:
            obs.violation(numeric_key(kind, a, b, tol, shape, is_pix),
                          f'{type(orig).__name__}.{lab}: wrote {a!r}, read {b!r} (printed unit), |diff|={d:.3g} > tol={tol:.3g} at precision {p}',
                          label=lab, kind=kind, written=a, read=b, precision=p)
    # text
    if shape == 'text':
        ot, gt = orig.text, got.text
    else:
        ot, gt = orig.meta.get('text'), got.meta.get('text')
    if ot is not None or gt is not None:
        same = isinstance(norm_text(gt), str) and norm_text(ot) == norm_text(gt)
        if same:
            obs.ok(1, 'text')
        else:
            # the reader turned a text that looks like a number into an int/float (e.g. '007' -> 7, 'nan' -> nan)
            key = 'text-numeric-coerced' if (isinstance(ot, str) and floatlike(ot) and isinstance(gt, (int, float))) else 'text-changed'
            obs.violation(key, f'text {ot!r} came back as {gt!r} ({type(gt).__name__})', written=ot, read=repr(gt))
    # tags
    otag = [str(t) for t in (orig.meta.get('tag') or [])]
    gtag = got.meta.get('tag') or []
    obs.check(isinstance(gtag, (list, tuple)) and list(gtag) == otag, 'tags-changed', f'tags {otag!r} came back as {gtag!r}', 'tags')
    # the DS9 property flags: what the region did not carry cannot come back from the text (e.g. out of a word in its label), and
    # what it carried comes back with the same truth value
    for k in FLAGS:
        if k in got.meta and k not in orig.meta:
            obs.violation('flag-from-nowhere', f'the region read back carries {k}={got.meta[k]!r}; the region written has no {k!r} entry '
                          f'(text {ot!r}, tags {otag!r})')
        elif k in got.meta:
            obs.check(bool(got.meta[k]) == bool(orig.meta[k]), 'flag-changed', f'{k}={orig.meta[k]!r} came back as {got.meta[k]!r}', 'flags')
    if 'label' in orig.meta:
        if 'label' in got.meta:
            obs.check(got.meta['label'] == orig.meta['label'], 'label-changed',
                      f"label {orig.meta['label']!r} came back as {got.meta['label']!r}", 'label')
        else:
            obs.count('label-not-carried')
    # include sense
    oinc = orig.meta.get('include', True)
    ginc = got.meta.get('include', True)
    if bool(oinc) == bool(ginc):
        obs.ok(1, 'include-sense')
        if not bool(oinc):
            obs.ok(1, 'include-excluded')
    else:
        if isinstance(oinc, (bool, np.bool_)):
            key = 'include-bool-printed-literally'
        elif not bool(oinc) and all_excluded:
            key = 'exclude-hoisted-to-global-overridden-by-line-default'
        else:
            key = 'include-sense-changed'
        back = f"include={got.meta['include']!r}" if 'include' in got.meta else 'no include entry (= included)'
        obs.violation(key, f'include={oinc!r} came back as {back}', written=repr(oinc), read=back,
                      all_regions_excluded=all_excluded)
    return True


def stable_regime(region, p):
    try:
        vals = printed_values(region)
    except Exception:
        return True
    for _, kind, v in vals:
        mag = abs(v) + (1.0 if kind == 'pix' else 0.0)
        if mag * 10.0 ** p > 1e14:
            return False
    return True


def _isnan(v):
    return isinstance(v, float) and v != v


def fixed_point_keys(r1, r2, orig=None):
    """name every part of the region that moved on the second trip (sorted list of mechanism keys)."""
    if type(r1) is not type(r2):
        return ['fixed-point-class-drift']
    keys = set()
    for name in r1._params:
        a, b = getattr(r1, name), getattr(r2, name)
        try:
            ne = bool(np.any(a != b))
        except Exception:
            ne = True
        if ne:
            # a text region whose text was turned into a number by the first parse (nan != nan)
            keys.add('text-numeric-coerced' if (name == 'text' and not isinstance(a, str)) else 'fixed-point-param-drift')
    m1, m2 = dict(r1.meta), dict(r2.meta)
    for k in sorted(set(m1) | set(m2)):
        if k in m1 and k in m2 and m1[k] == m2[k]:
            continue
        if k == 'text' and k in m1 and k in m2 and _isnan(m1[k]) and _isnan(m2[k]):
            keys.add('text-numeric-coerced')
        elif (k == 'include' and k not in m1 and orig is not None
              and isinstance(orig.meta.get('include'), (bool, np.bool_))):
            # 'include=True/False' was printed literally; the reader discarded it together with the line default, so
            # the first parse carries no include at all and the second one gets the default back
            keys.add('include-bool-printed-literally')
        else:
            keys.add('fixed-point-meta-drift')
    if dict(r1.visual) != dict(r2.visual):
        keys.add('fixed-point-visual-drift')
    return sorted(keys) or ['fixed-point-not-equal']


def round_trip(obs, case, regs, specs):
    """the standard pipeline on a list of expressible regions.  Returns (text, first parse, n warnings)."""
    p = case['p']
    pe = 8 if p is None else p
    api = case.get('api', 'regions')
    _STAGE[0] = 'serialize'
    s1, w1 = _ser(regs, api, p)
    s1b, _ = _ser(regs, api, p)
    obs.check(isinstance(s1, str) and s1 == s1b, 'nondeterministic-serialize', 'two serialize() calls on the same regions differ',
              'determinism')
    if case.get('rebuild'):
        _STAGE[0] = 'serialize'
        s1c, _ = _ser([build_region(s) for s in specs], api, p)
        obs.check(s1 == s1c, 'nondeterministic-serialize', 'serialize() of an identically rebuilt list differs', 'determinism')
    _STAGE[0] = 'parse'
    r1 = _parse(s1)
    _STAGE[0] = 'compare'
    if not obs.check(len(r1) == len(regs), 'region-count-changed', f'{len(regs)} regions written, {len(r1)} read back', 'count',
                     text=s1[:1500]):
        return s1, r1, len(w1)
    incs = [bool(r.meta.get('include', True)) for r in regs]
    all_excluded = not any(incs)
    if len(regs) > 1:
        metas = [set((k, repr(v)) for k, v in s.get('meta', {}).items() if k != 'tag') if s.get('meta') else set() for s in specs]
        if set.intersection(*metas):
            obs.count('list:hoisted-candidates')
        if len({s['frame'] for s in specs}) > 1:
            obs.count('list:mixed-frames')
    for o, g in zip(regs, r1):
        compare_region(obs, o, g, pe, all_excluded)
    # fixed point
    _STAGE[0] = 'reserialize'
    s2, _ = _ser(list(r1), 'regions', p)
    _STAGE[0] = 'reparse'
    r2 = _parse(s2)
    _STAGE[0] = 'compare'
    if not obs.check(len(r2) == len(r1), 'fixed-point-region-count', f'second trip: {len(r1)} regions written, {len(r2)} read back',
                     'fixed-point'):
        return s1, r1, len(w1)
    for o, a, b in zip(regs, r1, r2):
        if not stable_regime(a, pe):
            obs.skip(1, 'fixed-point')
            continue
        if a == b:
            obs.ok(1, 'fixed-point')
        else:
            for key in fixed_point_keys(a, b, o):
                obs.violation(key, f'parse(ser(parse(ser(R)))) != parse(ser(R)) for {type(a).__name__} at precision {pe}',
                              first=repr(a)[:600], second=repr(b)[:600], meta1=repr(dict(a.meta)), meta2=repr(dict(b.meta)),
                              visual1=repr(dict(a.visual)), visual2=repr(dict(b.visual)))
    # history: the regions of one parse are independent objects, and a later parse of the same text does not depend on what
    # was done to the results of an earlier one (edit the first parse's regions in place, then parse again)
    _STAGE[0] = 'parse-history'
    fps = [S.fingerprint(r) for r in r1]
    ids = {}
    shared = []
    for i, r in enumerate(r1):
        for oid, path in S.mutable_ids(r).items():
            if oid in ids and ids[oid][0] != i:
                shared.append((ids[oid], (i, path)))
            ids.setdefault(oid, (i, path))
    obs.check(not shared, 'parsed-regions-share-mutable-state', f'regions of one parse share mutable objects: {shared[:3]}', 'parse-history')
    for r in r1:
        for k, v in list(dict.items(r.meta)):
            if isinstance(v, list):
                v.append('edited-in-place')
        r.meta['select'] = 0
        r.visual['color'] = 'edited'
    r1b = _parse(s1)
    ok = len(r1b) == len(fps) and all(S.fingerprint(r) == f for r, f in zip(r1b, fps))
    obs.check(ok, 'parse-depends-on-edits-to-earlier-results', 'parsing the same text again after editing the first parse\'s regions in place gives different regions',
              'parse-history')
    # a parsed region is an ordinary region: after edits to its meta / text, serialising writes the edited state
    # (nothing that the reader kept on the side may come back)
    _STAGE[0] = 'parse'
    r1c = _parse(s1)
    expect = []
    for k, r in enumerate(r1c):
        e = {'tag': None, 'text': None, 'include': None}
        if 'tag' in r.meta and k % 2 == 0:
            del r.meta['tag']
            e['tag'] = '<absent>'
        elif k % 3 == 0:
            r.meta['tag'] = ['edited tag']
            e['tag'] = ['edited tag']
        if hasattr(r, 'text') and 'text' in r._params:
            r.text = 'edited text'
            e['text'] = 'edited text'
        elif 'text' in r.meta and k % 2 == 1:
            r.meta.pop('text')
            e['text'] = '<absent>'
        if k % 4 == 1:
            inc = not bool(r.meta.get('include', True))
            r.meta['include'] = inc
            e['include'] = inc
        expect.append(e)
    _STAGE[0] = 'serialize'
    s3, _w3 = _ser(r1c, 'regions', pe)
    _STAGE[0] = 'parse'
    r3 = _parse(s3)
    _STAGE[0] = 'compare'
    if obs.check(len(r3) == len(r1c), 'edited-parse-region-count', f'{len(r1c)} edited regions written, {len(r3)} read back', 'edited-parse'):
        for e, a, b in zip(expect, r1c, r3):
            if e['tag'] is not None:
                got = b.meta.get('tag', '<absent>')
                obs.check(got == e['tag'], 'edited-parsed-region-writes-stale-meta:tag',
                          f'{type(a).__name__}: tags edited to {e["tag"]!r} after parsing, serialise -> parse gives {got!r}', 'edited-parse')
            if e['text'] is not None:
                got = b.text if (hasattr(b, 'text') and 'text' in b._params) else b.meta.get('text', '<absent>')
                obs.check(got == e['text'], 'edited-parsed-region-writes-stale-meta:text',
                          f'{type(a).__name__}: text edited to {e["text"]!r} after parsing, serialise -> parse gives {got!r}', 'edited-parse')
            if e['include'] is not None:
                got = bool(b.meta.get('include', True))
                obs.check(got == e['include'], 'edited-parsed-region-writes-stale-meta:include',
                          f'{type(a).__name__}: include edited to {e["include"]!r} after parsing, serialise -> parse gives {got!r}', 'edited-parse')
    return s1, r1b, len(w1)          # the unedited parse


def run_text_born(case, obs):
    """parse(T) -> serialise -> parse: class, include sense, text/tags and every other meta / visual entry of the first parse
    are kept (coordinates are not compared here: T is not written on the precision grid)."""
    from regions import Regions
    from vmon.checks import c10
    _STAGE[0] = 'build'
    text = c10.render(c10.build(case['doc']))
    _STAGE[0] = 'parse'
    with warnings.catch_warnings():
        warnings.simplefilter('ignore')
        try:
            r1 = list(Regions.parse(text, format='ds9'))
        except Exception:
            obs.skip(1, 'text-born')           # whether T itself is read correctly is another property's business
            return
    if not r1:
        return
    _STAGE[0] = 'serialize'
    s1, _w = _ser(r1, 'regions', case['p'])
    _STAGE[0] = 'parse'
    r2 = _parse(s1)
    _STAGE[0] = 'compare'
    obs.count('text-born-regions', len(r1))
    if not obs.check(len(r1) == len(r2), 'text-born-region-count', f'{len(r1)} regions parsed from the text, {len(r2)} after serialise -> parse', 'text-born'):
        return
    for a, b in zip(r1, r2):
        cls = type(a).__name__
        if not obs.check(type(a) is type(b), 'text-born-class-changed', f'{cls} came back as {type(b).__name__}', 'text-born'):
            continue
        for attr in ('meta', 'visual'):
            da, db = dict(getattr(a, attr)), dict(getattr(b, attr))
            for k in sorted(set(da) | set(db)):
                va, vb = da.get(k, '<absent>'), db.get(k, '<absent>')
                same = va == vb or (isinstance(va, float) and isinstance(vb, float) and va != va and vb != vb)
                obs.check(same, f'text-born-{attr}-not-kept:{k}', f'{cls} parsed from text has {attr}[{k!r}] = {va!r}; after serialise -> parse it is {vb!r}',
                          'text-born', text=text[:600])
        if hasattr(a, 'text'):
            obs.check(a.text == b.text, 'text-born-meta-not-kept:text', f'{cls}.text {a.text!r} came back as {b.text!r}', 'text-born')


def run_case(case, obs):
    if case['lane'] == 'text-born':
        return run_text_born(case, obs)
    specs = case['regions']
    _STAGE[0] = 'build'
    regs = [build_region(s) for s in specs]
    lane = case['lane']
    if lane != 'skip':
        round_trip(obs, case, regs, specs)
        return
    # ---- skip lane ----
    keep = [i for i, s in enumerate(specs) if not s.get('inexpressible')]
    expr = [regs[i] for i in keep]
    s_without, r_without, nwarn_without = round_trip(obs, case, expr, [specs[i] for i in keep])
    first_bad = next(s['inexpressible'] for s in specs if s.get('inexpressible'))
    _STAGE[0] = 'serialize'
    try:
        s_with, warns = _ser(regs, 'regions', case['p'])
    except Exception as exc:
        import traceback
        if not _from_library(exc):
            raise
        tb = ''.join(traceback.format_exception(type(exc), exc, exc.__traceback__))
        obs.count('skip:decided')
        obs.violation(first_bad + '-member-raises',
                      f'serialize() of a list with a {first_bad} member raised {type(exc).__name__}: {exc} '
                      f'(the {len(expr)} other regions serialise fine on their own)', traceback=tb[-1500:])
        return
    obs.count('skip:decided')
    obs.ok(1, 'skip-no-raise')
    # the expressible members emit the same warnings in both calls (filter 'always'), so a skip warning shows as a surplus
    obs.check(len(warns) >= nwarn_without + 1, first_bad + '-member-no-warning',
              f'inexpressible member skipped without a warning ({len(warns)} warnings with it, {nwarn_without} without)', 'skip-warning')
    _STAGE[0] = 'parse'
    r_with = _parse(s_with)
    _STAGE[0] = 'compare'
    same = len(r_with) == len(r_without) and all(a == b for a, b in zip(r_with, r_without))
    obs.check(same, first_bad + '-member-alters-output',
              f'list with a skipped {first_bad} member parses to {len(r_with)} regions, without it to {len(r_without)} '
              '(or some differ)', 'skip-others-unchanged', with_text=s_with[:1200], without_text=s_without[:1200])


# ---------------------------------------------------------------------------
MUTANTS = [
    ('exponent-boundary-reformat-removed', 'regions/io/ds9/write.py', "            if reread != value:\n                value = reread\n", ""),
    ('polygon-vertices-no-plus-one', 'regions/io/ds9/write.py',
     "value_str += (f'{val.x + 1:0.{precision}f},'", "value_str += (f'{val.x:0.{precision}f},'"),
    ('ellipse-annulus-axes-not-halved', 'regions/io/ds9/write.py',
     "ellipse_axes = ('width', 'height', 'inner_width', 'inner_height',\n                    'outer_width', 'outer_height')",
     "ellipse_axes = ('width', 'height')"),
    ('tag-allowed-into-global', 'regions/io/ds9/write.py',
     "region_meta.pop('tag', None)  # \"tag\" cannot be in global metadata",
     "region_meta['tag'] = tuple(region_meta.pop('tag', ()))"),
    ('precision-capped-for-quantities', 'regions/io/ds9/write.py',
     "value = value.to_string(unit='deg', precision=precision)[:-4]",
     "value = value.to_string(unit='deg', precision=min(precision, 6))[:-4]"),
    ('reader-pixel-origin-not-shifted', 'regions/io/ds9/read.py',
     'return float(param_str) - 1', 'return float(param_str)'),
    ('reader-ellipse-not-doubled', 'regions/io/ds9/read.py', 'param *= 2.0  # ds9 uses semi-axis lengths', 'param *= 1.0'),
    ('only-first-tag-written', 'regions/io/ds9/write.py',
     "for val in meta[key]]))", "for val in meta[key][:1]]))"),
    ('one-frame-line-for-mixed-frames', 'regions/io/ds9/write.py', 'if len(frames) == 1:', 'if len(frames) >= 1:'),
    ('semicolon-in-text-not-protected', 'regions/io/ds9/read.py', 'if i0 <= i <= i1:', 'if i0 <= i <= i0:'),
    ('sky-lat-printed-with-fixed-precision', 'regions/io/ds9/write.py',
     'val = value.to_string(precision=precision)', 'val = value.to_string(precision=min(precision, 5))'),
    ('angle-class-printed-in-radians', 'regions/io/ds9/write.py',
     "value = value.to_string(unit='deg', decimal=True,", "value = value.to_string(unit='rad', decimal=True,"),
    ('ecliptic-maps-to-geocentric', 'regions/io/ds9/core.py',
     "'ecliptic': 'barycentricmeanecliptic'}", "'ecliptic': 'geocentricmeanecliptic'}"),
    ('global-line-read-lowercased', 'regions/io/ds9/read.py',
     'global_meta.update(_parse_metadata(original_line[7:]))', 'global_meta.update(_parse_metadata(line[7:]))'),
]
