"""C16 - regions are values: copies are equal and independent, equality sees every field.

Observed: Region.copy(**changes), copy.deepcopy, ==/!=, Regions slicing/copy and
list mutators.  Oracle: deep structural fingerprints, the id-graph of mutable
nodes, and a catalogue of single-field perturbations / mutations of copies.
"""
import copy as _copy
import math
import random

import numpy as np

from vmon import gen, spec as S

ID = 'C16'
LEVEL = 'exploration'
TECHNIQUE = 'runtime oracle: deep fingerprints + id-graph aliasing check around copy()/deepcopy/==/Regions list operations, with single-field perturbation and copy-mutation catalogues'
RULE = ('cases = region specs of every class (pixel, sky, compound pixel/sky, regular polygon) with rich meta/visual; for each: copy/deepcopy equality '
        'and independence under a mutation catalogue, copy(field=value) for every field, reflexive/symmetric ==, unit re-expression, and one '
        'perturbation per field (1 ulp sizes/angles/sky coordinates, 1e-3 relative pixel positions, each meta/visual key, class change); '
        'Regions lists x slices x mutator sequences; non-trivial = >=1 judged assertion; distinct = distinct case specs')
ASSUMPTIONS = ['pixel positions are compared by the library with rtol 1e-5 (documented); perturbations of positions are 1e-3 relative, well above it']

K_POLY_EQ = 'eq-raises-for-different-vertex-counts'


def budget(tier):
    return 50 if tier == 'quick' else 420


def shards(tier):
    return 16


def required_counters(tier):
    return {'judged:copy-equal': 200, 'judged:copy-independent': 200, 'judged:copy-changes': 200, 'judged:eq-reflexive-symmetric': 200,
            'judged:eq-units': 50, 'judged:perturbed-unequal': 500, 'judged:regions-list': 100, 'judged:eq-returns-bool': 200}


def region_spec(rng):
    r = rng.random()
    if r < 0.4:
        s = gen.pixel_region_spec(rng, include='absent', size_range=(1e-2, 1e4))
    elif r < 0.8:
        s = gen.sky_region_spec(rng, include='absent')
    elif r < 0.9:
        leaf = lambda: gen.pixel_region_spec(rng, classes=gen.MASKABLE, size=gen.logu(rng, 1, 50), include='absent',
                                             center=(rng.uniform(1, 30), rng.uniform(1, 30)))
        s = S.reg('CompoundPixelRegion', region1=leaf(), region2=leaf(), operator=rng.choice(['and', 'or', 'xor']))
        if rng.random() < 0.5:           # nested: (a . b) . c, also with twice the same operator
            s = S.reg('CompoundPixelRegion', region1=s, region2=leaf(), operator=rng.choice(['and', 'or', 'xor', s['p']['operator']]))
    else:
        leaf = lambda: gen.sky_region_spec(rng, classes=gen.SKY_SIMPLE + gen.SKY_ANNULI, include='absent')
        s = S.reg('CompoundSkyRegion', region1=leaf(), region2=leaf(), operator=rng.choice(['and', 'or', 'xor']))
        if rng.random() < 0.5:
            s = S.reg('CompoundSkyRegion', region1=s, region2=leaf(), operator=rng.choice(['and', 'or', 'xor', s['p']['operator']]))
    if not s['cls'].startswith('Compound'):
        s['meta'] = gen.rich_meta(rng)
        s['visual'] = gen.rich_visual(rng)
    return s


def generate(rng, tier, shard, nshards):
    n = 600 if tier == 'quick' else 20000
    for i in range(n):
        if rng.random() < 0.85:
            s = region_spec(rng)
            yield {'lane': 'region:' + s['cls'], 'region': s, 'rs': rng.randrange(2 ** 31)}
        else:
            yield {'lane': 'regions-list', 'items': [region_spec(rng) for _ in range(rng.randint(0, 6))], 'rs': rng.randrange(2 ** 31)}


def eq_bool(obs, a, b, expect, key, msg, what):
    """a == b must return a plain bool, never raise; and equal `expect`."""
    try:
        r = (a == b)
        r2 = (a != b)
    except Exception as exc:
        k = key
        if 'Polygon' in type(a).__name__ and isinstance(exc, ValueError):
            k = K_POLY_EQ
        obs.violation(k if k == K_POLY_EQ else 'eq-raises', f'{type(a).__name__} == {type(b).__name__} raised {type(exc).__name__}: {exc} ({msg})')
        return
    obs.check(isinstance(r, (bool, np.bool_)) and isinstance(r2, (bool, np.bool_)) and bool(r) != bool(r2), 'eq-not-bool',
              f'== returned {r!r}, != returned {r2!r}', 'eq-returns-bool')
    obs.check(bool(r) == expect, key, msg + f' (== gave {r!r})', what)


def perturbations(region, prng):
    """yield (field description, perturbed copy built through the constructor)."""
    import astropy.units as u
    from astropy.coordinates import SkyCoord
    from regions import PixCoord
    cls = type(region)

    def rebuild(**changes):
        kw = {n: getattr(region, n) for n in region._params}
        kw['meta'] = _copy.deepcopy(region.meta)
        kw['visual'] = _copy.deepcopy(region.visual)
        kw.update(changes)
        return cls(**kw)

    if cls.__name__ in ('LinePixelRegion', 'LineSkyRegion'):
        # a line is an ordered pair of end points: exchanged, it is another region (two fields differ)
        try:
            differ = bool(np.any(region.start != region.end)) if cls.__name__ == 'LinePixelRegion' else bool(region.start.separation(region.end).deg > 0)
        except Exception:
            differ = False
        if differ:
            yield 'start<->end exchanged', rebuild(start=region.end, end=region.start)
    # list-valued entries compare element by element, exactly: 7 is not '7', 2**53 + 1 is not 2**53
    base_tag = list(dict.get(region.meta, 'tag', None) or ['grp'])
    yield "meta['tag'] int-vs-str element", (rebuild(meta=type(region.meta)(dict(region.meta, tag=base_tag + [7]))),
                                               rebuild(meta=type(region.meta)(dict(region.meta, tag=base_tag + ['7']))))
    yield "meta['tag'] big-int element", (rebuild(meta=type(region.meta)(dict(region.meta, tag=base_tag + [2 ** 53 + 1, 0.5]))),
                                            rebuild(meta=type(region.meta)(dict(region.meta, tag=base_tag + [2 ** 53, 0.5]))))
    for name in region._params:
        v = getattr(region, name)
        if name == 'operator':
            import operator as op
            other = op.and_ if v is not op.and_ else op.or_
            yield name, rebuild(operator=other)
        elif name == 'text':
            yield name, rebuild(text=v + 'x')
        elif name == 'nvertices':
            yield name, rebuild(nvertices=v + 1)
        elif hasattr(v, '_params'):
            for sub, pv in perturbations(v, prng):
                if pv is None:
                    continue
                if isinstance(pv, tuple):          # a pair of variants of the operand: a pair of variants of the compound
                    yield f'{name}.{sub}', (rebuild(**{name: pv[0]}), rebuild(**{name: pv[1]}))
                    continue
                yield f'{name}.{sub}', rebuild(**{name: pv})
                break
        elif isinstance(v, PixCoord):
            x, y = np.array(v.x, dtype=float), np.array(v.y, dtype=float)
            d = np.maximum(np.abs(x) * 1e-3, 1e-3)
            if x.ndim:
                x2 = x.copy()
                i = prng.randrange(len(x2))
                x2[i] += d[i]
                yield name + '.x[i]', rebuild(**{name: PixCoord(x2, y)})
                yield name + ' (one vertex fewer)', (rebuild(**{name: PixCoord(x[:-1], y[:-1])}) if len(x) > 3 else None)
            else:
                yield name + '.x', rebuild(**{name: PixCoord(float(x + d), float(y))})
                yield name + '.y', rebuild(**{name: PixCoord(float(x), float(y + max(abs(float(y)) * 1e-3, 1e-3)))})
        elif isinstance(v, SkyCoord):
            lon, lat = np.array(v.spherical.lon.deg, dtype=float), np.array(v.spherical.lat.deg, dtype=float)
            # the 1-ulp neighbours are made in the units the coordinate object holds (degrees unless built otherwise)
            held = v.data if hasattr(v.data, 'lon') else v.spherical
            ulon, ulat = held.lon.unit, held.lat.unit
            hlon, hlat = np.array(held.lon.value, dtype=float), np.array(held.lat.value, dtype=float)
            if lon.ndim:
                l2 = hlon.copy()
                i = prng.randrange(len(l2))
                l2[i] = np.nextafter(l2[i], 1000.0)
                yield name + '.lon[i] 1ulp', rebuild(**{name: SkyCoord(l2 * ulon, hlat * ulat, frame=v.frame.name)})
                yield name + ' (one vertex fewer)', (rebuild(**{name: SkyCoord(lon[:-1], lat[:-1], unit='deg', frame=v.frame.name)}) if len(lon) > 3 else None)
            else:
                yield name + '.lat 1ulp', rebuild(**{name: SkyCoord(float(hlon) * ulon, float(np.nextafter(hlat, 1000.0)) * ulat, frame=v.frame.name)})
                other = 'galactic' if v.frame.name != 'galactic' else 'icrs'
                yield name + ' frame', rebuild(**{name: SkyCoord(float(lon), float(lat), unit='deg', frame=other)})
                if v.frame.name in ('fk5', 'fk4'):
                    # same frame class and numbers, another equinox: a different position on the sky
                    yield name + ' equinox', rebuild(**{name: SkyCoord(float(lon), float(lat), unit='deg', frame=v.frame.name,
                                                                       equinox='J1975' if v.frame.name == 'fk5' else 'B1975')})
        elif isinstance(v, u.Quantity):
            val = v.value
            nv = np.nextafter(val, np.inf) if val != 0 else 1e-300
            yield name + ' 1ulp', rebuild(**{name: type(v)(nv, v.unit)})
            if val != 0:
                # the same quantity in another unit AND changed by 1e-7 relative (far above conversion rounding, far below 1e-5)
                other = {u.deg: u.arcmin, u.arcmin: u.arcsec, u.arcsec: u.deg, u.rad: u.deg}.get(v.unit, u.deg)
                yield name + ' other-unit+1e-7', rebuild(**{name: u.Quantity(v.to_value(other) * (1 + 1e-7), other)})
        elif isinstance(v, np.floating):
            yield name + ' 1ulp', rebuild(**{name: type(v)(np.nextafter(v, type(v)(np.inf)))})       # 1 ulp of its own type
        elif isinstance(v, (int, np.integer)):
            yield name + ' +1', rebuild(**{name: v + 1})
        else:
            yield name + ' 1ulp', rebuild(**{name: float(np.nextafter(float(v), np.inf))})
    # meta / visual: every key changed, one key removed, one key added
    for attr, vocab in (('meta', gen.META_VOCAB), ('visual', gen.VISUAL_VOCAB)):
        d = getattr(region, attr)
        for k in list(dict.keys(d)):
            m2 = _copy.deepcopy(d)
            old = dict.__getitem__(m2, k)
            new = (not old) if isinstance(old, bool) else (old + 1 if isinstance(old, (int, float)) else
                                                           (old + ['zz'] if isinstance(old, list) else str(old) + 'z'))
            dict.__setitem__(m2, k, new)
            yield f'{attr}[{k!r}] changed', rebuild(**{attr: m2})
            m3 = _copy.deepcopy(d)
            dict.__delitem__(m3, k)
            yield f'{attr}[{k!r}] removed', rebuild(**{attr: m3})
        free = [k for k in sorted(vocab) if k not in d]
        if free:
            k = prng.choice(free)
            m4 = _copy.deepcopy(d)
            m4[k] = vocab[k][0]
            yield f'{attr}[{k!r}] added', rebuild(**{attr: m4})
            # an entry is an entry whatever its value: None / 0 / '' / False / [] stored under a key that the other lacks
            for empty in (None, 0, '', False, []):
                m5 = _copy.deepcopy(d)
                m5[k] = empty
                yield f'{attr}[{k!r}] added as {empty!r}', rebuild(**{attr: m5})
        for k in list(dict.keys(d))[:2]:
            if dict.__getitem__(d, k) is not None:
                m6 = _copy.deepcopy(d)
                dict.__setitem__(m6, k, None)
                yield f'{attr}[{k!r}] set to None', rebuild(**{attr: m6})
    # keys that both dictionaries accept: meta and visual are two separate sets of entries
    import regions
    both = sorted(set(regions.RegionMeta.valid_keys) & set(regions.RegionVisual.valid_keys))
    if both:
        k = prng.choice(both)
        # the entry only in meta vs only in visual
        m7, v7 = _copy.deepcopy(region.meta), _copy.deepcopy(region.visual)
        m8, v8 = _copy.deepcopy(region.meta), _copy.deepcopy(region.visual)
        dict.pop(m7, k, None), dict.pop(v7, k, None), dict.pop(m8, k, None), dict.pop(v8, k, None)
        m7[k] = 1
        v8[k] = 1
        yield f'meta[{k!r}] moved to visual', (rebuild(meta=m7, visual=v7), rebuild(meta=m8, visual=v8))
        # the entry in both, only the meta one differs
        m9, v9 = _copy.deepcopy(m7), _copy.deepcopy(v8)
        m10 = _copy.deepcopy(m9)
        m10[k] = 0
        yield f'meta[{k!r}] changed while visual[{k!r}] is the same', (rebuild(meta=m9, visual=v9), rebuild(meta=m10, visual=v9))
    # compounds: the same leaves and operators in the same left-to-right order, grouped the other way
    if type(region).__name__.startswith('Compound') and type(region.region1) is type(region):
        inner = region.region1
        cls = type(region)
        regrouped = cls(inner.region1, cls(inner.region2, region.region2, region.operator, meta=_copy.deepcopy(inner.meta), visual=_copy.deepcopy(inner.visual)),
                        inner.operator, meta=_copy.deepcopy(region.meta), visual=_copy.deepcopy(region.visual))
        yield 'region1/region2 regrouped ((a.b).c -> a.(b.c))', regrouped


def unit_reexpressed(region):
    """same region with every angular quantity expressed in another unit that
    converts exactly enough for astropy's == (deg <-> arcmin by 60)."""
    import astropy.units as u
    changes = {}
    for name in region._params:
        v = getattr(region, name)
        if isinstance(v, u.Quantity) and not hasattr(v, 'frame'):
            if v.unit == u.deg:
                changes[name] = u.Quantity(v.value * 60.0, u.arcmin)
            elif v.unit == u.arcmin:
                changes[name] = u.Quantity(v.value * 60.0, u.arcsec)
    if not changes:
        return None
    kw = {n: getattr(region, n) for n in region._params}
    kw['meta'] = _copy.deepcopy(region.meta)
    kw['visual'] = _copy.deepcopy(region.visual)
    kw.update(changes)
    # only sound when the conversion back is exact
    for name, nv in changes.items():
        if not (nv == getattr(region, name)) or not (getattr(region, name) == nv):
            return None      # the unit conversion itself rounds: not "differing only by unit" in floating point
    return type(region)(**kw)


def mutate_copy(c, prng):
    """apply a catalogue of mutations to the copy; yield a label after each."""
    import astropy.units as u
    from astropy.coordinates import SkyCoord
    from regions import PixCoord
    c.meta['label'] = 'mutated'
    yield "meta['label'] set"
    c.visual['color'] = 'mutated'
    yield "visual['color'] set"
    if isinstance(dict.get(c.meta, 'tag'), list):
        c.meta['tag'].append('mutated')
        yield "meta['tag'] appended"
    if isinstance(dict.get(c.visual, 'dashlist'), list):
        c.visual['dashlist'].append(99)
        yield "visual['dashlist'] appended"
    for name in c._params:
        v = getattr(c, name)
        if isinstance(v, PixCoord):
            if not v.isscalar and getattr(v.x, 'flags', None) is not None and v.x.flags.writeable:
                v.x[0] += 1000.0
                yield f'{name}.x[0] written in place'
            else:
                setattr(c, name, PixCoord(-9.0, -9.0) if v.isscalar else v)
                yield f'{name} replaced'
        elif isinstance(v, SkyCoord):
            if v.isscalar:
                setattr(c, name, SkyCoord(1.0, 2.0, unit='deg', frame=v.frame.name))
                yield f'{name} replaced'
            else:
                try:
                    v[0] = v[1]
                    yield f'{name}[0] written in place'
                except Exception:
                    pass
        elif isinstance(v, u.Quantity):
            try:
                v *= 2          # in place on the object the copy holds
                yield f'{name} scaled in place'
            except Exception:
                pass
        elif hasattr(v, '_params'):
            v.meta['label'] = 'mutated-sub'
            yield f'{name}.meta set'


def run_case(case, obs):
    from regions import Regions
    prng = random.Random(case['rs'])
    if case['lane'] == 'regions-list':
        return run_list(case, obs, prng)
    region = S.build(case['region'])
    cname = type(region).__name__
    fp0 = S.fingerprint(region)
    # --- copies are equal
    for how, c in (('copy()', region.copy()), ('deepcopy', _copy.deepcopy(region))):
        eq_bool(obs, c, region, True, 'copy-not-equal', f'{cname}.{how} != original', 'copy-equal')
        obs.check(type(c) is type(region) and S.fingerprint(c) == fp0, 'copy-differs-structurally',
                  f'{cname}.{how} has a different structural fingerprint: {S.diff_parts(S.fp_parts(region), S.fp_parts(c))}', 'copy-equal')
        shared = set(S.mutable_ids(region)) & set(S.mutable_ids(c))
        paths = [S.mutable_ids(region)[i] for i in shared]
        obs.check(not shared, 'copy-shares-mutable-state', f'{cname}.{how} shares mutable objects with the original at {paths[:4]}', 'copy-independent')
        for label in mutate_copy(c, prng):
            if S.fingerprint(region) != fp0:
                obs.violation('copy-mutation-shows-in-original', f'{cname}.{how}: after "{label}" on the copy the original changed')
                region = S.build(case['region'])
                break
            obs.ok(1, 'copy-independent')
    # --- Meta.copy() is deep
    for attr in ('meta', 'visual'):
        d = getattr(region, attr)
        dc = d.copy()
        obs.check(type(dc) is type(d) and dict(dc) == dict(d) and list(dict.keys(dc)) == list(dict.keys(d)), 'meta-copy-differs',
                  f'{cname}.{attr}.copy() differs from the original', 'copy-equal')
        for k, v in dict.items(dc):
            if isinstance(v, list):
                v.append('mutated')
        dc['label' if attr == 'meta' else 'color'] = 'mutated'
        obs.check(S.fingerprint(region) == fp0, 'meta-copy-shares-state', f'editing {cname}.{attr}.copy() changed the region', 'copy-independent')
    # --- copy with changes differs in exactly the named field(s) - for every field in turn
    parts0 = S.fp_parts(region)
    done = set()
    for label, pert in perturbations(region, prng):
        if pert is None or isinstance(pert, tuple) or '.' in label.split(' ')[0] and label.split('.')[0] not in region._params:
            continue
        field = label.split(' ')[0].split('.')[0].split('[')[0]
        if field not in list(region._params) + ['meta', 'visual'] or field in done:
            continue
        done.add(field)
        newval = getattr(pert, field)
        if hasattr(newval, '_params') and hasattr(newval, 'meta'):
            # an operand replaced by a region that carries its own, different meta and visual
            import regions as _regions
            newval = newval.copy(meta=_regions.RegionMeta({'label': 'replacement', 'include': False}), visual=_regions.RegionVisual({'color': 'magenta'}))
        nv_fp = S.fingerprint(newval)
        c = region.copy(**{field: newval})
        obs.count('copy-with-changes:' + ('operand' if hasattr(newval, '_params') else 'field'))
        diff = S.diff_parts(parts0, S.fp_parts(c))
        bad = [d for d in diff if not (d == field or d.startswith(field + '.') or d.startswith(field + '['))]
        obs.check(not bad and S.fingerprint(getattr(c, field)) == nv_fp, 'copy-with-changes-wrong-fields',
                  f'{cname}.copy({field}=...) differs from the original in {diff}', 'copy-changes')
        obs.check(S.fingerprint(region) == fp0, 'copy-with-changes-mutates-original', f'{cname}.copy({field}=...) changed the original', 'copy-changes')
        obs.check(S.fingerprint(newval) == nv_fp, 'copy-with-changes-mutates-argument', f'{cname}.copy({field}=...) changed the value it was given', 'copy-changes')
        # the fields NOT named are copies too: nothing mutable in common with the original
        ids_r, ids_c = S.mutable_ids(region), S.mutable_ids(c)
        shared_cw = set(ids_r) & set(ids_c)
        obs.check(not shared_cw, 'copy-shares-mutable-state',
                  f'{cname}.copy({field}=...) shares mutable objects with the original at {[ids_r[i] for i in list(shared_cw)[:4]]}', 'copy-independent')
        if hasattr(newval, '_params'):
            sh = set(S.mutable_ids(c.meta)) & set(S.mutable_ids(newval.meta)) | set(S.mutable_ids(c.visual)) & set(S.mutable_ids(newval.visual))
            obs.check(not sh, 'copy-shares-mutable-state', f'{cname}.copy({field}=X): the copy\'s own meta/visual are objects of X', 'copy-independent')
    # --- a region is a value: asking it questions does not change it (it still equals the copy taken before, bit for bit)
    before_q = region.copy()
    import regions as _rq
    try:
        if isinstance(region, _rq.PixelRegion):
            pcq = _rq.PixCoord(np.array([0.5, 3.0, -2.0]), np.array([1.0, 2.5, 7.0]))
            region.contains(pcq)
            pcq[0] in region
            region.bounding_box
            if cname not in ('PointPixelRegion', 'LinePixelRegion', 'TextPixelRegion'):
                region.area
                if region.bounding_box.shape[0] * region.bounding_box.shape[1] < 250000:
                    region.to_mask()
        repr(region), str(region)
        region == before_q
    except (NotImplementedError, ValueError):
        pass
    obs.count('queried-between-copy-and-compare')
    obs.check(S.fingerprint(region) == fp0, 'query-changes-the-region', f'{cname}: contains / bounding_box / area / to_mask / repr / == changed the region: '
              f'{S.diff_parts(S.fp_parts(before_q), S.fp_parts(region))}', 'copy-equal')
    eq_bool(obs, region, before_q, True, 'copy-not-equal', f'{cname}: after being queried the region no longer equals the copy taken before', 'copy-equal')
    # --- equality
    eq_bool(obs, region, region, True, 'eq-not-reflexive', f'{cname} != itself', 'eq-reflexive-symmetric')
    twin = S.build(case['region'])
    eq_bool(obs, region, twin, True, 'eq-identical-build-unequal', f'two builds of the same {cname} spec are unequal', 'eq-reflexive-symmetric')
    eq_bool(obs, twin, region, True, 'eq-not-symmetric', f'{cname}: a == b but not b == a', 'eq-reflexive-symmetric')
    # the entries of meta / visual are a mapping: the order in which they were put in is not part of the value
    if len(region.meta) > 1 or len(region.visual) > 1:
        import regions as _regions
        rm = _regions.RegionMeta()
        for k in reversed(list(dict.keys(region.meta))):
            rm[k] = _copy.deepcopy(dict.__getitem__(region.meta, k))
        rv = _regions.RegionVisual()
        for k in reversed(list(dict.keys(region.visual))):
            rv[k] = _copy.deepcopy(dict.__getitem__(region.visual, k))
        reordered = region.copy(meta=rm, visual=rv)
        obs.count('reordered-meta-twins')
        eq_bool(obs, region, reordered, True, 'eq-depends-on-entry-order', f'{cname}: the same meta/visual entries inserted in another order compare unequal', 'eq-reflexive-symmetric')
        eq_bool(obs, reordered, region, True, 'eq-depends-on-entry-order', f'{cname}: (reversed) the same meta/visual entries inserted in another order compare unequal',
                'eq-reflexive-symmetric')
    # copy(meta=None) / copy(visual=None): None is a value like any other - the constructor's "no metadata given"
    if not cname.startswith('Compound'):
        for attr in ('meta', 'visual'):
            cn = region.copy(**{attr: None})
            other_attr = 'visual' if attr == 'meta' else 'meta'
            obs.check(dict(getattr(cn, attr)) == {} and dict(getattr(cn, other_attr)) == dict(getattr(region, other_attr)), 'copy-with-changes-wrong-fields',
                      f'{cname}.copy({attr}=None): {attr} is {dict(getattr(cn, attr))} (the constructor gives an empty one for None)', 'copy-changes')
    for other in (None, 3, 'x', [region]):
        eq_bool(obs, region, other, False, 'eq-other-type-equal', f'{cname} == {other!r}', 'eq-returns-bool')
    ur = unit_reexpressed(region)
    if ur is not None:
        eq_bool(obs, region, ur, True, 'eq-unit-reexpression-unequal', f'{cname} differs from itself with angles re-expressed in another unit', 'eq-units')
        eq_bool(obs, ur, region, True, 'eq-unit-reexpression-unequal', f'{cname} (re-expressed) == original fails', 'eq-units')
    # --- every single-field perturbation is seen
    for label, pert in perturbations(region, prng):
        if pert is None:
            continue
        obs.count('perturbations')
        if isinstance(pert, tuple):          # a pair of variants of the region that differ from each other in the named way
            eq_bool(obs, pert[0], pert[1], False, 'eq-misses-field:' + label.split('[')[0], f'{cname}: regions differing in {label} compare equal', 'perturbed-unequal')
            eq_bool(obs, pert[1], pert[0], False, 'eq-misses-field-reversed', f'{cname}: (reversed) regions differing in {label} compare equal', 'perturbed-unequal')
            continue
        eq_bool(obs, region, pert, False, 'eq-misses-field:' + label.split(' ')[0].split('[')[0].split('.')[-1 if label.startswith('region') else 0],
                f'{cname}: regions differing in {label} compare equal', 'perturbed-unequal')
        eq_bool(obs, pert, region, False, 'eq-misses-field-reversed', f'{cname}: (reversed) regions differing in {label} compare equal', 'perturbed-unequal')
    # class change: same parameters, sibling class
    sib = {'EllipsePixelRegion': 'RectanglePixelRegion', 'RectanglePixelRegion': 'EllipsePixelRegion',
           'EllipseSkyRegion': 'RectangleSkyRegion', 'RectangleSkyRegion': 'EllipseSkyRegion',
           'EllipseAnnulusPixelRegion': 'RectangleAnnulusPixelRegion', 'RectangleAnnulusPixelRegion': 'EllipseAnnulusPixelRegion',
           'EllipseAnnulusSkyRegion': 'RectangleAnnulusSkyRegion', 'RectangleAnnulusSkyRegion': 'EllipseAnnulusSkyRegion',
           'PointPixelRegion': 'CirclePixelRegion'}.get(cname)
    # a class and the class derived from it (point / text, polygon / regular polygon) with the same shared fields are different regions
    import regions as _r2
    rel = None
    if cname in ('PointPixelRegion', 'PointSkyRegion'):
        rel = getattr(_r2, cname.replace('Point', 'Text'))(region.center, 'label', meta=_copy.deepcopy(region.meta), visual=_copy.deepcopy(region.visual))
    elif cname in ('TextPixelRegion', 'TextSkyRegion'):
        rel = getattr(_r2, cname.replace('Text', 'Point'))(region.center, meta=_copy.deepcopy(region.meta), visual=_copy.deepcopy(region.visual))
    elif cname == 'RegularPolygonPixelRegion':
        rel = region.to_polygon()
    if rel is not None:
        obs.count('parent-vs-derived-class-pairs')
        eq_bool(obs, region, rel, False, 'eq-ignores-class', f'{cname} == {type(rel).__name__} built from the same fields', 'perturbed-unequal')
        eq_bool(obs, rel, region, False, 'eq-ignores-class', f'{type(rel).__name__} == {cname} built from the same fields', 'perturbed-unequal')
    if sib and sib != 'CirclePixelRegion':
        s2 = dict(case['region'], cls=sib)
        other = S.build(s2)
        eq_bool(obs, region, other, False, 'eq-ignores-class', f'{cname} == {sib} with the same parameters', 'perturbed-unequal')
        eq_bool(obs, other, region, False, 'eq-ignores-class', f'{sib} == {cname} with the same parameters', 'perturbed-unequal')
    # a compound is an ordered pair of operands: exchanging two different operands gives a different region
    if cname.startswith('Compound'):
        same_ops = eq_raw(region.region1, region.region2)
        if same_ops is False:
            sw = region.copy(region1=region.region2, region2=region.region1)
            obs.count('compounds-with-operands-exchanged')
            eq_bool(obs, region, sw, False, 'eq-misses-field:operand-order', f'{cname}: the compound with its two (different) operands exchanged compares equal', 'perturbed-unequal')
            eq_bool(obs, sw, region, False, 'eq-misses-field-reversed', f'{cname}: (reversed) the compound with its operands exchanged compares equal', 'perturbed-unequal')
    # a region whose visual / meta were EDITED through the mapping interface (update / |= / setdefault, also by the documented alias
    # keys 'width' -> 'linewidth', 'point' -> 'symbol') is a value like any other: its copies equal it, key lookups work
    if not cname.startswith('Compound'):
        import regions as _r3
        ed = region.copy()
        how = prng.choice(['update-kw', 'update-dict', 'ior', 'setitem'])
        if how == 'update-kw':
            ed.visual.update(width=3, point='x')
            ed.meta.update(label='edited')
        elif how == 'update-dict':
            ed.visual.update({'width': 3, 'point': 'x'})
            ed.meta.update([('label', 'edited')])
        elif how == 'ior':
            ed.visual |= {'width': 3, 'point': 'x'}
            ed.meta |= {'label': 'edited'}
        else:
            ed.visual['width'] = 3
            ed.visual['point'] = 'x'
            ed.meta['label'] = 'edited'
        obs.count('regions-edited-through-alias-keys')
        ok_keys = (dict.get(ed.visual, 'linewidth') == 3 and dict.get(ed.visual, 'symbol') == 'x' and 'width' not in dict.keys(ed.visual)
                   and 'point' not in dict.keys(ed.visual))
        try:
            ok_keys = ok_keys and ed.visual['width'] == 3 and ed.visual['point'] == 'x' and ed.meta['label'] == 'edited'
        except KeyError:
            ok_keys = False
        obs.check(ok_keys, 'alias-key-not-mapped', f'{cname}: after visual {how} with width=3, point="x" the visual holds {dict(ed.visual)}', 'copy-equal')
        for hw, c in (('copy()', ed.copy()), ('deepcopy', _copy.deepcopy(ed))):
            eq_bool(obs, c, ed, True, 'copy-not-equal', f'{cname}.{hw} != original after its visual was edited via {how}', 'copy-equal')
            obs.check(S.fingerprint(c) == S.fingerprint(ed), 'copy-differs-structurally',
                      f'{cname}.{hw} after a visual edit via {how}: {S.diff_parts(S.fp_parts(ed), S.fp_parts(c))}', 'copy-equal')
    obs.check(S.fingerprint(region) == fp0, 'eq-mutates-operand', f'{cname}: comparisons changed the region', 'eq-reflexive-symmetric')


def eq_raw(a, b):
    try:
        r = (a == b)
        return r if isinstance(r, bool) else None
    except Exception:
        return None


def run_list(case, obs, prng):
    from regions import Regions
    items = [S.build(s) for s in case['items']]
    src = Regions(list(items))
    ids0 = [id(r) for r in src.regions]
    fps0 = [S.fingerprint(r) for r in src.regions]

    def unchanged(what):
        ok = [id(r) for r in src.regions] == ids0 and [S.fingerprint(r) for r in src.regions] == fps0
        obs.check(ok, 'regions-list-source-changed', f'{what} altered the source list (len {len(ids0)} -> {len(src.regions)})', 'regions-list')

    extra = S.build(gen.pixel_region_spec(prng, cls='CirclePixelRegion'))
    derived = [('copy()', src.copy()), ('[:]', src[:])]
    n = len(items)
    if n:
        a, b = sorted((prng.randint(-n, n), prng.randint(-n, n)))
        derived.append((f'[{a}:{b}]', src[a:b]))
        derived.append(('[::-1]', src[::-1]))
        derived.append(('[::2]', src[::2]))
    # empty derived lists (an empty slice, a copy that was emptied) are lists of their own as well
    derived.append((f'[{n}:]', src[n:]))
    derived.append(('[0:0]', src[0:0]))
    emptied = src.copy()
    while len(emptied):
        emptied.pop()
    unchanged('emptying a copy with pop()')
    derived.append(('copy() emptied with pop()', emptied))
    for label, d in derived:
        obs.check(isinstance(d, Regions), 'regions-slice-type', f'Regions{label} is {type(d).__name__}', 'regions-list')
        if label in ('copy()', '[:]'):
            obs.check(len(d) == n and all(x is y for x, y in zip(d.regions, src.regions)), 'regions-copy-differs',
                      f'Regions.{label} does not hold the same members', 'regions-list')
        obs.check(d.regions is not src.regions, 'regions-derived-shares-list', f'Regions{label} holds the very list object of its source', 'regions-list')
        model = list(d.regions)               # a plain Python list doing the same operations
        for step in range(5):
            op = prng.choice(['append', 'extend', 'extend-regions', 'extend-source', 'extend-source-list', 'extend-tuple', 'insert', 'pop',
                              'pop0', 'reverse'])
            try:
                if op == 'append':
                    d.append(extra)
                    model.append(extra)
                elif op == 'extend':
                    d.extend([extra, extra])
                    model.extend([extra, extra])
                elif op == 'extend-regions':
                    d.extend(Regions([extra]))
                    model.extend([extra])
                elif op == 'extend-source':          # the source itself as the argument
                    d.extend(src)
                    model.extend(items)
                elif op == 'extend-source-list':
                    d.extend(src.regions)
                    model.extend(items)
                elif op == 'extend-tuple':
                    d.extend((extra,))
                    model.extend((extra,))
                elif op == 'insert':
                    k = prng.randint(-2, len(model) + 1)
                    d.insert(k, extra)
                    model.insert(k, extra)
                elif op == 'pop' and len(model):
                    got = d.pop()
                    obs.check(got is model.pop(), 'regions-list-differs-from-list-model', f'pop() on Regions{label} returned another member than a list would', 'regions-list')
                elif op == 'pop0' and len(model):
                    got = d.pop(0)
                    obs.check(got is model.pop(0), 'regions-list-differs-from-list-model', f'pop(0) on Regions{label} returned another member than a list would', 'regions-list')
                elif op == 'reverse':
                    d.reverse()
                    model.reverse()
            except Exception as exc:
                obs.violation('regions-mutator-raised', f'{op} on Regions{label} raised {type(exc).__name__}: {exc}')
                break
            unchanged(f'{op} on Regions{label}')
            same = len(d) == len(model) and all(x is y for x, y in zip(d.regions, model)) and [r for r in d] == model
            obs.check(same, 'regions-list-differs-from-list-model', f'after {op} (step {step}) Regions{label} holds other members than a list doing the same operations '
                      f'({len(d)} vs {len(model)})', 'regions-list')
            if not same:
                break
        obs.check(d.regions is not src.regions, 'regions-derived-shares-list', f'after its own edits Regions{label} holds the very list object of its source', 'regions-list')
    if n:
        i = prng.randrange(n)
        obs.check(src[i] is items[i] and src[-1] is items[-1], 'regions-index-wrong', 'Regions[i] is not the i-th member', 'regions-list')
        obs.check(len(src) == n, 'regions-len-wrong', 'len(Regions) wrong', 'regions-list')


MUTANTS = [
    ('copy-deepcopy-to-shallow', 'regions/core/core.py', 'changes[field] = copy.deepcopy(getattr(self, field))', 'changes[field] = copy.copy(getattr(self, field))'),
    ('copy-shares-fields', 'regions/core/core.py', 'changes[field] = copy.deepcopy(getattr(self, field))', 'changes[field] = getattr(self, field)'),
    ('eq-skips-last-param', 'regions/core/core.py', '            for param in self_params:\n', '            for param in self_params[:-1]:\n'),
    ('eq-skips-first-param', 'regions/core/core.py', '            for param in self_params:\n', '            for param in self_params[1:]:\n'),
    ('eq-ignores-meta', 'regions/core/core.py', "        meta_params = ['meta', 'visual']\n", "        meta_params = ['visual']\n"),
    ('meta-copy-shallow', 'regions/core/metadata.py', '        return deepcopy(self)', '        return self.__class__(self)'),
    ('regions-copy-aliases-list', 'regions/core/regions.py', 'newcls.regions = self.regions.copy()', 'newcls.regions = self.regions'),
    ('eq-isinstance-relaxed', 'regions/core/core.py', '        if not isinstance(other, self.__class__):\n            return False', '        if not isinstance(other, Region):\n            return False'),
    ('pixcoord-eq-loose', 'regions/core/pixcoord.py', 'return np.allclose([self.x, self.y], [other.x, other.y])', 'return np.allclose([self.x, self.y], [other.x, other.y], rtol=1e-2)'),
]
