"""C05 - applying a mask to an image is exact placement at the bounding box.

Oracle: loop-level placement model over (mask data, ixmin, iymin, image,
fill, copy, data-mask).  Every RegionMask.to_image / cutout / multiply /
get_values / get_overlap_slices return is compared with it; the image is
fingerprinted before and after each call.
"""
import numpy as np

from vmon import spec as S

ID = 'C05'
LEVEL = 'exploration'
EXHAUSTIVE = False
TECHNIQUE = 'runtime oracle: loop-level placement model compared with every RegionMask method return; input image fingerprinted before/after'
RULE = ('exhaustive lane: every box with corners in [-3, 6] and sides <= 4 (incl. empty) x image shapes 0..5 x 0..5 x 3 weight '
        'patterns (one case per box); random lane: boxes to +-1e4, images to 64x64, dtypes int16/int64/float32/float64/Quantity, '
        'fills {0, 7, -1.5, nan, +-inf}, copy flag, optional data mask, masks built directly and from real regions. '
        'non-trivial = >=1 judged comparison; distinct = distinct case specs')
ASSUMPTIONS = ['at zero-weight pixels multiply may give 0 or the fill value (statement and code comment differ); both accepted',
               'finite fills are generated representable in the image dtype (truncation of -1.5 on int images is not judged)',
               'result dtype is not judged, only values']

K_QFILL = 'multiply-quantity-finite-fill-raises'
K_INTNAN = 'multiply-int-weights-nonfinite-fill-raises'


def budget(tier):
    return 60 if tier == 'quick' else 500


def shards(tier):
    return 16


def required_counters(tier):
    return {'judged:to_image': 500, 'judged:cutout': 500, 'judged:multiply': 500, 'judged:get_values': 500,
            'judged:image-unchanged': 500, 'judged:none-on-no-overlap': 50, 'repeat-calls': 100, 'judged:mask-unchanged': 100, 'images-as-nested-sequences': 30}


def small_boxes():
    out = []
    for x0 in range(-3, 7):
        for w in range(0, 5):
            if x0 + w > 6:
                continue
            for y0 in range(-3, 7):
                for h in range(0, 5):
                    if y0 + h <= 6:
                        out.append((x0, x0 + w, y0, y0 + h))
    return out


def generate(rng, tier, shard, nshards):
    bs = small_boxes()
    step = 1
    for i in range(shard * step, len(bs), nshards * step):
        yield {'lane': 'exhaustive-small', 'box': bs[i], 'rs': i, 'exhaustive': True}
    n = 3000 if tier == 'quick' else 40000
    for i in range(n):
        yield {'lane': rng.choice(['random', 'random', 'from-region']), 'rs': rng.randrange(2 ** 31)}


# ---------------------------------------------------------------------------
def model_overlap(box, shape):
    x0, x1, y0, y1 = box
    ny, nx = shape
    lx, hx = max(x0, 0), min(x1, nx)
    ly, hy = max(y0, 0), min(y1, ny)
    if lx >= hx or ly >= hy:
        return None
    return lx, hx, ly, hy


def same(a, b):
    a, b = np.asarray(a), np.asarray(b)
    if a.shape != b.shape:
        return False
    try:
        return bool(np.array_equal(a, b, equal_nan=True))
    except TypeError:
        return bool(np.array_equal(a, b))


def fp(a):
    return S.fingerprint(a)


def unit_of(a):
    import astropy.units as u
    return a.unit if isinstance(a, u.Quantity) else None


def val(a):
    import astropy.units as u
    return a.value if isinstance(a, u.Quantity) else np.asarray(a)


def _eqv(g, e):
    """equal values, NaN equal to NaN - separately for real and imaginary parts of complex numbers."""
    if isinstance(g, (complex, np.complexfloating)) or isinstance(e, (complex, np.complexfloating)):
        g, e = complex(g), complex(e)
        return _eqv(g.real, e.real) and _eqv(g.imag, e.imag)
    return bool(g == e or (g != g and e != e))


def judge_mask_ops(obs, mask, box, image, fill, copy, dmask, tag, imform=None):
    """Run every method on (mask, image) and compare with the model."""
    import astropy.units as u
    from regions import RegionMask
    x0, x1, y0, y1 = box
    data = np.asarray(mask.data)
    shape = image.shape
    arg = image                   # what the methods are given: the array, or the same rows as nested lists / tuples (array_like)
    if imform and image.size:
        arg = image.tolist() if imform == 'list' else tuple(tuple(r) for r in image.tolist())
        obs.count('images-as-nested-sequences')
    ov = model_overlap(box, shape)
    before = fp(image)
    imv = val(image)
    unit = unit_of(image)
    h, w = y1 - y0, x1 - x0

    def unchanged(what):
        obs.check(fp(image) == before, 'image-modified', f'{what} modified the input image ({tag})', 'image-unchanged')
    made = []                     # results that belong to the caller (edited in place at the end)
    mask_fp0 = S.fingerprint(mask)

    # -- overlap slices through the mask
    sl, ss = mask.get_overlap_slices(shape)
    if ov is None:
        obs.check(sl is None and ss is None, 'overlap-slices-not-None',
                  f'box {box} image {shape}: no common pixel but slices {sl!r},{ss!r}', 'none-on-no-overlap')
    else:
        lx, hx, ly, hy = ov
        okl = sl is not None and (sl[0].start, sl[0].stop, sl[1].start, sl[1].stop) == (ly, hy, lx, hx)
        oks = ss is not None and (ss[0].start, ss[0].stop, ss[1].start, ss[1].stop) == (ly - y0, hy - y0, lx - x0, hx - x0)
        obs.check(okl and oks, 'overlap-slices-wrong', f'box {box} image {shape}: slices {sl!r},{ss!r}', 'slices')

    # -- to_image
    dts = [float, np.float32]
    if np.asarray(mask.data).dtype.kind in 'iub' or not np.isnan(np.asarray(mask.data, dtype=float)).any():
        dts += [int, bool, np.int16, np.uint8][:2 + (len(tag) % 3)]          # the docstring suggests integer / bool images for centre masks
    for dt in dts:
        res = mask.to_image(shape, dtype=dt) if dt is not float else mask.to_image(shape)
        if ov is None:
            obs.check(res is None, 'to_image-not-None', f'to_image: no overlap (box {box}, image {shape}) but got {type(res).__name__}', 'none-on-no-overlap')
        else:
            exp = np.zeros(shape, dtype=dt)
            for y in range(max(y0, 0), min(y1, shape[0])):
                for x in range(max(x0, 0), min(x1, shape[1])):
                    exp[y, x] = data[y - y0, x - x0]
            made.append(('to_image', res))
            obs.check(res is not None and same(res, exp), 'to_image-wrong-placement',
                      f'to_image: box {box} image {shape} ({tag}) differs from placing the mask at (ixmin, iymin)', 'to_image')

    # -- cutout
    try:
        if isinstance(fill, float) and fill == 0.0 and copy:
            res = mask.cutout(arg, copy=copy)            # the documented default fill
            obs.count('default-fill-calls')
        else:
            res = mask.cutout(arg, fill_value=fill, copy=copy)
    except Exception as exc:
        obs.violation('cutout-raised', f'cutout raised {type(exc).__name__}: {exc} ({tag}, fill={fill})')
        res = 'raised'
    unchanged('cutout')
    if copy and not isinstance(res, str):
        made.append(('cutout(copy=True)', res))
    if not isinstance(res, str):
        if ov is None:
            obs.check(res is None, 'cutout-not-None', f'cutout: no overlap (box {box}, image {shape}) but got {type(res).__name__}', 'none-on-no-overlap')
        else:
            ok = res is not None and np.shape(res) == (h, w)
            if ok:
                rv = val(res)
                for j in range(h):
                    for i in range(w):
                        y, x = y0 + j, x0 + i
                        inside = 0 <= y < shape[0] and 0 <= x < shape[1]
                        e = imv[y, x] if inside else fill
                        g = rv[j, i]
                        if not _eqv(g, e):
                            ok = False
                        elif inside and imv.dtype.kind in 'iu' and np.isfinite(fill) and int(g) != int(e):
                            ok = False          # integers compared as integers (a float detour loses bits above 2**53)
            obs.check(ok, 'cutout-wrong', f'cutout: box {box} image {shape} fill {fill} ({tag}): values differ from placement model', 'cutout')
            if res is not None and unit is not None:
                obs.check(unit_of(res) == unit, 'cutout-unit-lost', f'cutout lost the unit {unit}', 'unit')
            if res is not None and copy:
                obs.check(not np.shares_memory(val(res), imv), 'cutout-copy-shares-memory',
                          f'cutout(copy=True) shares memory with the image (box {box}, image {shape})', 'copy')

    # -- multiply
    try:
        res = mask.multiply(arg, fill_value=fill)
    except Exception as exc:
        key = 'multiply-raised'
        if unit is not None and np.isfinite(fill) and fill != 0:
            key = K_QFILL
        elif data.dtype.kind in 'iub' and imv.dtype.kind in 'iub' and not np.isfinite(fill):
            key = K_INTNAN
        obs.violation(key, f'multiply raised {type(exc).__name__}: {exc} ({tag}, fill={fill}, image dtype {imv.dtype}, weights dtype {data.dtype})')
        res = 'raised'
    unchanged('multiply')
    if not isinstance(res, str):
        made.append(('multiply', res))
    if not isinstance(res, str):
        if ov is None:
            obs.check(res is None, 'multiply-not-None', f'multiply: no overlap but got {type(res).__name__}', 'none-on-no-overlap')
        else:
            ok = res is not None and np.shape(res) == (h, w)
            why = ''
            if ok:
                rv = val(res)
                with np.errstate(all='ignore'):
                    for j in range(h):
                        for i in range(w):
                            y, x = y0 + j, x0 + i
                            inside = 0 <= y < shape[0] and 0 <= x < shape[1]
                            wgt = data[j, i]
                            if data.dtype.kind in 'bu':
                                wgt = int(wgt)          # plain numbers: the model's arithmetic must not wrap in a narrow unsigned type
                            g = rv[j, i]
                            if wgt > 0:
                                basev = imv[y, x] if inside else fill
                                if imv.dtype.kind == 'c':
                                    basev = np.complex128(basev)       # the cutout has the data's type: NumPy's complex product of (inf+0j)
                                if not np.isfinite(fill) and imv.dtype.kind in 'iub':
                                    basev = np.float64(basev)          # a non-finite fill makes the cutout a float array (documented)
                                e = basev * wgt
                                alt = e
                                if inside and not np.isfinite(fill) and imv.dtype.kind in 'iub' and data.dtype.kind in 'iub':
                                    # integer image x integer weights, made float for the fill: the product may be formed exactly and
                                    # rounded once, or from the rounded pixel value - both are "pixel x weight"
                                    alt = np.float64(int(imv[y, x]) * int(wgt))
                                if not (_eqv(g, e) or g == alt):
                                    ok, why = False, f'weight>0 pixel ({j},{i}): got {g!r}, expected {e!r}'
                                elif inside and isinstance(e, (int, np.integer)) and np.isfinite(fill) and np.isfinite(g) and int(g) != int(e):
                                    ok, why = False, f'weight>0 pixel ({j},{i}): got {g!r}, expected the integer {int(e)}'
                            elif wgt == 0:
                                if not (g == 0 or g == fill or (g != g and fill != fill)):
                                    ok, why = False, f'zero-weight pixel ({j},{i}): got {g!r}, expected 0 or fill {fill!r}'
            obs.check(ok, 'multiply-wrong', f'multiply: box {box} image {shape} fill {fill} ({tag}): {why}', 'multiply')
            if res is not None and unit is not None:
                obs.check(unit_of(res) == unit, 'multiply-unit-lost', f'multiply lost the unit {unit}', 'unit')

    # -- get_values
    try:
        res = mask.get_values(arg, mask=dmask if (dmask is None or arg is image) else dmask.tolist())
    except Exception as exc:
        obs.violation('get_values-raised', f'get_values raised {type(exc).__name__}: {exc} ({tag})')
        res = 'raised'
    unchanged('get_values')
    if not isinstance(res, str):
        exp = []
        if ov is not None:
            with np.errstate(all='ignore'):
                for y in range(max(y0, 0), min(y1, shape[0])):
                    for x in range(max(x0, 0), min(x1, shape[1])):
                        wgt = data[y - y0, x - x0]
                        if data.dtype.kind in 'bu':
                            wgt = int(wgt)
                        if wgt > 0 and not (dmask is not None and dmask[y, x]):
                            exp.append(imv[y, x] * wgt)
        rv = val(res)
        ok = np.ndim(rv) == 1 and len(rv) == len(exp) and all(_eqv(g, e) for g, e in zip(rv, exp))
        obs.check(ok, 'get_values-wrong', f'get_values: box {box} image {shape} ({tag}): got {np.asarray(rv).tolist()[:8]} expected {exp[:8]}', 'get_values')
        if unit is not None and len(exp):
            obs.check(unit_of(res) == unit, 'get_values-unit-lost', f'get_values lost the unit {unit}', 'unit')
        made.append(('get_values', res))
    # what a method returned is the caller's: writing into it must reach neither the mask nor the image
    for name, r_ in made:
        a = val(r_) if r_ is not None else None
        if isinstance(a, np.ndarray) and a.size and a.flags.writeable:
            a[...] = True if a.dtype.kind == 'b' else 3
            obs.count('results-edited-in-place')
            ok_m, ok_i = S.fingerprint(mask) == mask_fp0, fp(image) == before
            obs.check(ok_m, 'result-aliases-mask', f'writing into the result of {name} changed the RegionMask (box {box}, image {shape}, {tag})', 'result-independent')
            obs.check(ok_i, 'result-aliases-image', f'writing into the result of {name} changed the image (box {box}, image {shape}, {tag})', 'result-independent')
            if not (ok_m and ok_i):
                break


def weights(nrng, h, w, pattern):
    if pattern == 'ones':
        return np.ones((h, w))
    if pattern == 'frac':
        d = np.round(nrng.uniform(0.01, 1, (h, w)), 3)
        d[nrng.random((h, w)) < 0.3] = 0.0
        return d
    if pattern == 'bool':
        return nrng.random((h, w)) < 0.6
    if pattern == 'uint8':
        return (nrng.random((h, w)) < 0.6).astype(np.uint8)
    if pattern == 'signed':                   # user-built masks (e.g. difference masks) may hold negative or NaN weights
        d = np.round(nrng.uniform(-1, 1, (h, w)), 3)
        d[nrng.random((h, w)) < 0.2] = 0.0
        if d.size:
            d[nrng.random((h, w)) < 0.1] = np.nan
        return d
    if pattern == 'counts':                   # integer weights are weights, not flags: coverage counts 0..3 (e.g. a sum of centre masks)
        return nrng.integers(0, 4, (h, w)).astype(int)
    if pattern == 'int':                      # compound masks are integer arrays
        return (nrng.random((h, w)) < 0.6).astype(int)
    d = np.zeros((h, w))
    d[::2, ::2] = 1.0
    return d


def make_image(nrng, shape, kind):
    import astropy.units as u
    ny, nx = shape
    if kind == 'int16':
        return nrng.integers(-100, 100, shape).astype(np.int16)
    if kind == 'int64':
        return nrng.integers(-10 ** 6, 10 ** 6, shape).astype(np.int64)
    if kind == 'int64-big':
        # 64-bit identifiers / flags / timestamps: not representable in float64
        return (nrng.integers(2 ** 53, 2 ** 56, shape) * 2 + 1).astype(np.int64) * nrng.choice([-1, 1], shape)
    if kind == 'uint16':
        return nrng.integers(0, 500, shape).astype(np.uint16)
    if kind == 'bool':
        return nrng.random(shape) < 0.5
    if kind == 'view':
        # an image that does not own its memory: a section of a larger, transposed mosaic
        big = nrng.normal(0, 10, (nx + 7, ny + 5))
        return big.T[2:2 + ny, 3:3 + nx]
    if kind == 'float32':
        return nrng.normal(0, 10, shape).astype(np.float32)
    if kind == 'float64-nonfinite':
        a = nrng.normal(0, 10, shape)
        if a.size:
            m = nrng.random(shape)
            a[m < 0.1] = np.nan
            a[(m > 0.1) & (m < 0.2)] = np.inf
            a[(m > 0.2) & (m < 0.25)] = -np.inf
        return a
    if kind == 'complex':
        return nrng.normal(0, 10, shape) + 1j * nrng.normal(0, 10, shape)          # e.g. visibilities / Fourier planes
    if kind == 'quantity':
        return nrng.normal(0, 10, shape) * u.Jy
    if kind == 'quantity-scaled-dimensionless':
        # percent, per-mille, "kilo" counts: dimensionless but scaled units (a bare number is NOT in these units)
        return nrng.normal(0, 10, shape) * [u.percent, u.Unit(0.001), u.Unit(1000.0), u.dimensionless_unscaled][int(nrng.integers(4))]
    return nrng.normal(0, 10, shape)


def run_case(case, obs):
    from regions import RegionBoundingBox, RegionMask
    nrng = np.random.default_rng(case['rs'])
    lane = case['lane']
    if lane == 'exhaustive-small':
        box = tuple(case['box'])
        h, w = box[3] - box[2], box[1] - box[0]
        bb = RegionBoundingBox(*box)
        for pat in ('ones', 'frac', 'checker'):
            mask = RegionMask(weights(nrng, h, w, pat), bb)
            for ny in range(0, 6):
                for nx in range(0, 6):
                    image = nrng.integers(1, 50, (ny, nx)).astype(float)
                    dm = (nrng.random((ny, nx)) < 0.3) if (ny + nx) % 2 else None
                    judge_mask_ops(obs, mask, box, image, [0.0, 7.0, np.nan][(ny + nx) % 3], bool(nx % 2), dm, pat)
        return
    if lane == 'from-region':
        from vmon import gen
        import random
        prng = random.Random(case['rs'])
        leaf = lambda: gen.pixel_region_spec(prng, classes=gen.MASKABLE, size=gen.logu(prng, 1, 20),
                                             center=(prng.uniform(-5, 40), prng.uniform(-5, 40)))
        rs = leaf() if prng.random() < 0.7 else gen.compound_spec(prng, 1, leaf)
        region = S.build(rs)
        mode = 'center' if (rs['cls'].startswith('Compound') or 'Annulus' in rs['cls']) else prng.choice(['center', 'subpixels'])
        mask = region.to_mask(mode=mode, subpixels=3) if mode != 'center' else region.to_mask(mode='center')
        bb = mask.bbox
        box = (bb.ixmin, bb.ixmax, bb.iymin, bb.iymax)
        tag = f'from {rs["cls"]} {mode}'
    else:
        mag = int(10 ** nrng.uniform(0, 4))
        h, w = int(nrng.integers(0, 12)), int(nrng.integers(0, 12))
        x0, y0 = int(nrng.integers(-mag, mag + 1)), int(nrng.integers(-mag, mag + 1))
        if nrng.random() < 0.6:
            x0, y0 = int(nrng.integers(-12, 40)), int(nrng.integers(-12, 40))
        if nrng.random() < 0.15:
            x0, y0 = 0, 0                      # the box at the image origin
        box = (x0, x0 + w, y0, y0 + h)
        pat = ['ones', 'frac', 'int', 'checker', 'signed', 'bool', 'uint8', 'counts'][nrng.integers(8)]
        wts = weights(nrng, h, w, pat)
        form = int(nrng.integers(6))
        if form == 0 and h and w:
            wts = wts.tolist()                  # array_like: a nested list ...
            pat += ' as-list'
        elif form == 1 and h and w:
            wts = tuple(tuple(r) for r in wts.tolist())          # ... or nested tuples
            pat += ' as-tuples'
        mask = RegionMask(wts, RegionBoundingBox(*box))
        tag = pat
    clone = int(nrng.integers(8))
    if clone < 3:
        # a mask that went through copy / deepcopy / pickle (e.g. to a worker process) is the same mask
        import copy
        import pickle
        mask = [copy.copy, copy.deepcopy, lambda m: pickle.loads(pickle.dumps(m))][clone](mask)
        tag += ' ' + ['copied', 'deep-copied', 'unpickled'][clone]
        obs.count('masks-cloned-before-use')
    shape = (int(nrng.integers(0, 48)), int(nrng.integers(0, 64)))
    if nrng.random() < 0.1:
        shape = (int(nrng.integers(0, 3)), int(nrng.integers(0, 3)))
    elif nrng.random() < 0.12:
        shape = (box[3] - box[2], box[1] - box[0])            # an image of exactly the mask's shape (the box may or may not sit at the origin)
    kind = ['int16', 'int64', 'float32', 'float64', 'float64-nonfinite', 'quantity', 'uint16', 'bool', 'view', 'view', 'int64-big', 'quantity-scaled-dimensionless', 'complex'][nrng.integers(13)]
    image = make_image(nrng, shape, kind)
    fills = [0.0, 7.0, -1.5, np.nan, np.inf, -np.inf]
    if kind.startswith('int'):
        fills = [0, 7, -3, np.nan, np.inf, -np.inf, 0.0, 7.0]
    if kind in ('uint16', 'bool'):
        fills = [0, 1, np.nan, np.inf, -np.inf] if kind == 'uint16' else [0, 1, np.nan, np.inf]
    fill = fills[nrng.integers(len(fills))]
    dm = (nrng.random(shape) < 0.3) if nrng.random() < 0.5 else None
    mfp = S.fingerprint(mask)
    imform = None
    if kind in ('int64', 'float64', 'float64-nonfinite', 'bool', 'complex', 'int64-big') and case['rs'] % 5 == 0:
        imform = 'list' if case['rs'] % 2 else 'tuples'
    judge_mask_ops(obs, mask, box, image, fill, bool(nrng.integers(2)), dm, f'{tag} {kind}' + (f' image-as-{imform}' if imform else ''), imform)
    # the same mask object applied again (same image shape, other data / data-mask / fill): every call must stand alone
    for rep in range(int(nrng.integers(1, 4))):
        image2 = make_image(nrng, shape, kind)
        dm2 = [None, (nrng.random(shape) < 0.5), dm][int(nrng.integers(3))]
        fill2 = fills[nrng.integers(len(fills))]
        judge_mask_ops(obs, mask, box, image2, fill2, bool(nrng.integers(2)), dm2, f'{tag} {kind} repeat{rep}')
        obs.count('repeat-calls')
    obs.check(S.fingerprint(mask) == mfp, 'mask-object-modified', f'applying the mask changed the RegionMask object itself ({tag})', 'mask-unchanged')


MUTANTS = [
    ('small-slice-no-clip', 'regions/core/bounding_box.py', 'slices_small = (slice(max(-ymin, 0),', 'slices_small = (slice(-ymin,'),
    ('small-slices-xy-swapped', 'regions/core/bounding_box.py',
     "        slices_small = (slice(max(-ymin, 0),\n                              min(ymax - ymin, shape[0] - ymin)),\n                        slice(max(-xmin, 0),\n                              min(xmax - xmin, shape[1] - xmin)))",
     "        slices_small = (slice(max(-xmin, 0),\n                              min(xmax - xmin, shape[1] - xmin)),\n                        slice(max(-ymin, 0),\n                              min(ymax - ymin, shape[0] - ymin)))"),
    ('multiply-keeps-inf-times-zero', 'regions/core/mask.py', '            weighted_cutout[self._mask] = fill_value\n', '            pass\n'),
    ('get_values-ge-zero', 'regions/core/mask.py', 'pixel_mask = (aper_weights > 0)', 'pixel_mask = (aper_weights >= 0)'),
    ('cutout-view-under-copy', 'regions/core/mask.py', '            if copy:\n                cutout = np.copy(cutout)\n', '            pass\n'),
    ('cutout-fill-after-data', 'regions/core/mask.py', '        cutout[:] = fill_value\n        cutout[slices_small] = data[slices_large]\n',
     '        cutout[slices_small] = data[slices_large]\n        cutout[:] = fill_value\n'),
    ('get_values-mask-not-negated', 'regions/core/mask.py', 'pixel_mask &= ~mask[slc_large]', 'pixel_mask &= mask[slc_large]'),
    ('to_image-inplace-on-input', 'regions/core/mask.py', 'image[slices_large] = self.data[slices_small]', 'image[slices_large] = self.data[slices_small][::-1]'),
    ('multiply-writes-into-view', 'regions/core/mask.py', 'weighted_cutout = cutout * self.data', 'cutout *= self.data; weighted_cutout = cutout'),
]
