"""C14 - file writing never clobbers or half-writes, and files read back as written.

Monitor: bytes + lstat kind of the destination (and of a symlink's target)
and the directory listing before/after every Region.write / Regions.write,
plus a sys.addaudithook recorder of open / os.remove / os.rename /
os.truncate / shutil.* events naming the destination (or its target), and
begin/end markers around the format's serialiser as called by the writer.
A refused or failed write must show no write-mode open of the destination at
all; a successful one must show serialisation finished before the first open.

The whole matrix  format x destination state x overwrite x (good list |
failing element at every position | invalid option) x Region.write /
Regions.write x (format given | inferred from the extension)  is enumerated in
both tiers (LEVEL = fault_enumeration); every shard enumerates the same matrix
(seeded by VERIF_SEED only) and runs the cells i with i % nshards == shard;
the driver checks that the number of cells run equals the size of the matrix.
Which injected elements make serialisation raise and which are skipped with a
warning is not assumed: whatever write() does is judged by
  raised  => destination, target and directory exactly as before, no
             write-mode open / remove / rename / truncate of them;
  returned=> the file reads back (format given / from the extension / from the
             content signature of renamed and gzip copies) equal to
             Regions.parse(Regions.serialize(...)).
OS-level faults (ENOSPC, EIO) are outside the fault model.
"""
import gzip
import io
import json
import os
import random
import shutil
import stat
import sys
import tempfile
import traceback
import warnings

import numpy as np

from vmon import gen, spec as S

ID = 'C14'
LEVEL = 'fault_enumeration'
EXHAUSTIVE = True        # both tiers enumerate the complete matrix; cells are never cut by the time budget
TECHNIQUE = ('fault enumeration with a filesystem-state monitor (bytes, lstat kind, symlink target, directory listing) and a '
             'sys.addaudithook recorder (open/remove/rename/truncate/shutil) around every Region.write / Regions.write; '
             'read-back oracle = Regions.parse(Regions.serialize(...))')
RULE = ('cell = (format in {ds9,crtf,fits}, destination in {absent, file, symlink->file, dangling symlink}, overwrite in {F,T}, '
        'api in {Region.write, Regions.write}, format given | inferred from a registered extension, list = good | failing element '
        '(compound, sky/unsupported frame, inexpressible shape, component-less row, FITS-inexpressible angle unit) at each position '
        '0..len-1 | invalid option) + unknown-format cells; quick: 2 list shapes per format, thorough: 20 seeded random lists per '
        'format with random valid options; every cell of the matrix is run (driver verifies the count); distinct = distinct cells')
ASSUMPTIONS = ['OS-level write faults (ENOSPC, EIO, signals) are outside the fault model',
               'overwrite=True on a symlink may either write through the link or replace the link by a regular file; both accepted, the choice is counted',
               'a dangling symlink counts as an existing destination (lexists), as in the DS9 and CRTF writers',
               'an injected element that the writer skips with a warning makes the cell a successful write of the remaining regions',
               'the reference for read-back is Regions.parse(Regions.serialize(...)) of the same list and options; when that reference itself raises (round-trip defects owned by C09/C11/C12) the read-back is not judged']

K_EMPTYDS9 = 'ds9-empty-list-writes-zero-bytes-not-identifiable-by-content'
K_DANGLING = 'fits-dangling-symlink-written-through'
K_PARTIALFILE = 'fits-writeto-failure-leaves-partial-file'

WRITE_EXTS = {'ds9': ['.reg', '.ds9'], 'crtf': ['.crtf'], 'fits': ['.fits', '.fit', '.fts']}
NEUTRAL_EXTS = ['.dat', '']
FORMATS = ['ds9', 'crtf', 'fits']
DESTS = ['absent', 'file', 'symlink', 'dangling']

FAIL_KINDS = {'ds9': ['compound-pix', 'compound-sky', 'frame'],
              'crtf': ['compound', 'frame', 'shape', 'hcrs'],
              'fits': ['sky', 'compound-pix', 'line', 'component', 'angle-unit']}
BAD_OPTS = {'ds9': [{'precision': 'x'}, {'bogus': 1}],
            'crtf': [{'fmt': 'x'}, {'coordsys': 'nonsense'}, {'radunit': 'furlong'}, {'bogus': 1}],
            'fits': [{'header': 42}, {'bogus': 1}]}


def budget(tier):
    return 40 if tier == 'quick' else 420


def shards(tier):
    return 16


def required_counters(tier):
    # the matrix is fixed per tier (and independent of the number of shards), so these are fractions of what it contains
    k = 1 if tier == 'quick' else 8
    d = {'judged:refusal-is-oserror': 40 * k, 'judged:refused-unchanged': 400 * k, 'judged:failed-unchanged': 500 * k,
         'judged:no-open-on-refusal-or-failure': 900 * k, 'judged:serialised-before-open': 200 * k,
         'judged:readback-format-given': 200 * k, 'judged:readback-extension-inferred': 700 * k,
         'judged:readback-content-inferred': 500 * k, 'judged:readback-gzip-copy': 1000 * k,
         'judged:write-extension-identified': 100 * k, 'judged:unknown-format': 80, 'judged:no-stray-files': 200 * k,
         'judged:overwritten-completely': 80 * k, 'skipped-element-success': 100 * k, 'overwrite-through-symlink': 20 * k, 'destination-spelled-home-relative': 20 * k, 'destination-already-holds-the-same-content': 50 * k, 'destination-named-through-symlinked-dir-and-dotdot': 50 * k}
    for f in FORMATS:
        d[f'success:{f}'] = 25 * k
        d[f'raised-on-injection:{f}'] = (100 if f != 'ds9' else 40) * k      # ds9 now skips (with a warning) what it cannot express; only bad options raise
        d[f'serialiser-seen:{f}'] = 25 * k
    for dst in DESTS:
        d[f'success-on:{dst}'] = 40 * k
    return d


# ---------------------------------------------------------------------------
# the matrix
def _pix(prng, classes):
    return gen.pixel_region_spec(prng, classes=classes, size=prng.uniform(0.5, 300), include='absent', angle=S.q(prng.uniform(0, 360), 'deg'),
                                 max_aspect=20.0, center=(prng.uniform(-500, 500), prng.uniform(-500, 500)))


def _sky(prng, classes, frames=('icrs', 'fk5', 'fk4', 'galactic')):
    return gen.sky_region_spec(prng, classes=classes, frame=prng.choice(list(frames)), include='absent', size_deg=prng.uniform(0.01, 2.0),
                               angle=S.q(prng.uniform(0, 360), 'deg'), lat=prng.uniform(-70, 70))


DS9_PIX = ['CirclePixelRegion', 'EllipsePixelRegion', 'RectanglePixelRegion', 'PolygonPixelRegion', 'PointPixelRegion', 'LinePixelRegion',
           'CircleAnnulusPixelRegion', 'EllipseAnnulusPixelRegion', 'RectangleAnnulusPixelRegion', 'RegularPolygonPixelRegion']
DS9_SKY = ['CircleSkyRegion', 'EllipseSkyRegion', 'RectangleSkyRegion', 'PolygonSkyRegion', 'PointSkyRegion', 'LineSkyRegion',
           'CircleAnnulusSkyRegion']
CRTF_SKY = ['CircleSkyRegion', 'EllipseSkyRegion', 'RectangleSkyRegion', 'PolygonSkyRegion', 'LineSkyRegion', 'CircleAnnulusSkyRegion']
CRTF_PIX = ['CirclePixelRegion', 'EllipsePixelRegion', 'RectanglePixelRegion', 'CircleAnnulusPixelRegion']
FITS_PIX = ['PointPixelRegion', 'CirclePixelRegion', 'EllipsePixelRegion', 'CircleAnnulusPixelRegion', 'EllipseAnnulusPixelRegion',
            'RectanglePixelRegion', 'PolygonPixelRegion', 'RegularPolygonPixelRegion']


def good_list(prng, fmt, n, simple):
    """-> (list of region specs, valid options, domain tag)"""
    kw = {}
    if fmt == 'ds9':
        regs = [(_pix(prng, DS9_PIX) if prng.random() < 0.5 else _sky(prng, DS9_SKY)) for _ in range(n)]
        if not simple and prng.random() < 0.5:
            kw['precision'] = prng.choice([1, 3, 8, 12])
        return regs, kw, 'mixed'
    if fmt == 'crtf':
        if prng.random() < 0.7:
            regs = [_sky(prng, CRTF_SKY) for _ in range(n)]
            if not simple:
                if prng.random() < 0.5:
                    kw['coordsys'] = prng.choice(['fk5', 'icrs', 'galactic', 'fk4'])
                if prng.random() < 0.5:
                    kw['fmt'] = prng.choice(['.3f', '.6f', '.10f'])
            return regs, kw, 'sky'
        regs = [_pix(prng, CRTF_PIX) for _ in range(n)]
        kw['coordsys'] = 'image'
        return regs, kw, 'image'
    regs = [_pix(prng, FITS_PIX) for _ in range(n)]
    if prng.random() < 0.4:
        for i, r in enumerate(regs):
            r['meta'] = dict(r.get('meta') or {}, component=i + 1)
    if not simple and prng.random() < 0.3:
        kw['header'] = {'EXTNAME': 'REGION', 'ORIGIN': 'c14'}
    return regs, kw, 'pix'


def failing_element(prng, fmt, kind, domain):
    if kind == 'compound-pix' or (kind == 'compound' and domain == 'image'):
        return S.reg('CompoundPixelRegion', region1=_pix(prng, ['CirclePixelRegion']), region2=_pix(prng, ['EllipsePixelRegion']),
                     operator=prng.choice(['and', 'or', 'xor']))
    if kind in ('compound-sky', 'compound'):
        return S.reg('CompoundSkyRegion', region1=_sky(prng, ['CircleSkyRegion'], ['icrs']), region2=_sky(prng, ['CircleSkyRegion'], ['icrs']),
                     operator=prng.choice(['and', 'or', 'xor']))
    if kind == 'frame':
        if fmt == 'ds9':
            return _sky(prng, ['CircleSkyRegion', 'EllipseSkyRegion'], [prng.choice(['supergalactic', 'barycentrictrueecliptic'])])
        # crtf: a region in the other coordinate family than the one the list is written in
        return _sky(prng, ['CircleSkyRegion']) if domain == 'image' else _pix(prng, ['CirclePixelRegion', 'RectanglePixelRegion'])
    if kind == 'shape':
        return _pix(prng, ['EllipseAnnulusPixelRegion']) if domain == 'image' else _sky(prng, ['EllipseAnnulusSkyRegion'])
    if kind == 'hcrs':
        return S.reg('CircleSkyRegion', center=S.sky(prng.uniform(0, 360), prng.uniform(-60, 60), 'hcrs'), radius=S.q(1.0, 'deg'))
    if kind == 'sky':
        return _sky(prng, ['CircleSkyRegion', 'PolygonSkyRegion'])
    if kind == 'line':
        return _pix(prng, ['LinePixelRegion', 'RectangleAnnulusPixelRegion'])
    if kind == 'component':
        r = _pix(prng, ['CirclePixelRegion', 'PointPixelRegion'])
        r['meta'] = {'component': 7}
        return r
    if kind == 'angle-unit':
        r = _pix(prng, ['RectanglePixelRegion', 'EllipsePixelRegion'])
        r['p']['angle'] = S.q(prng.uniform(0, 24), 'hourangle')
        return r
    raise ValueError(kind)


def inject(prng, fmt, regs, kind, pos, domain):
    out = [json.loads(json.dumps(r)) for r in regs]
    if kind == 'component':
        # a row with a component among rows without: the others must not carry one
        for r in out:
            if r.get('meta'):
                r['meta'].pop('component', None)
    out.insert(pos, failing_element(prng, fmt, kind, domain))
    return out


def enumerate_cells(tier, seed):
    """The complete matrix, identical in every shard and in the driver."""
    prng = random.Random(f'C14-matrix/{seed}/{tier}')
    cells = []

    def emit(fmt, api, regs, kw, label):
        for dest in DESTS:
            for ow in (False, True):
                # format given: one destination name drawn from the registered and two neutral extensions;
                # format inferred: every extension registered for writing
                # (a text destination may also carry a compressed file's name: the text writers never compress, and readers go by content;
                # astropy's FITS writer does compress by name, which would only double-compress the harness's own gzip copies)
                for how, ext in [('given', prng.choice(WRITE_EXTS[fmt] + NEUTRAL_EXTS + ([WRITE_EXTS[fmt][0] + '.gz'] if fmt != 'fits' else [])))] + [('inferred', e) for e in WRITE_EXTS[fmt]]:
                    cells.append({'lane': f'{fmt}:{api}:{dest}:{"overwrite" if ow else "no-overwrite"}', 'exhaustive': True, 'cell': len(cells),
                                  'fmt': fmt, 'api': api, 'dest': dest, 'ow': ow, 'how': how, 'ext': ext,
                                  'list': regs, 'kw': kw, 'inject': label})

    for fmt in FORMATS:
        simple = tier == 'quick'
        lengths = [2, 4] if simple else [prng.choice([1, 2, 2, 3, 3, 4, 5, 6]) for _ in range(20)]
        for n in lengths:                              # Regions.write
            regs, kw, dom = good_list(prng, fmt, n, simple)
            emit(fmt, 'Regions', regs, kw, 'good')
            for kind in FAIL_KINDS[fmt]:
                for pos in range(n):               # n - 1 good regions + the failing element at position pos
                    emit(fmt, 'Regions', inject(prng, fmt, regs[:n - 1], kind, pos, dom), kw, f'fail:{kind}@{pos}')
            for bad in BAD_OPTS[fmt]:
                emit(fmt, 'Regions', regs, dict(kw, **bad), 'opt:' + next(iter(bad)))
            if fmt in ('ds9', 'crtf') and n == lengths[0]:
                # a perfectly valid list whose text/label holds non-ASCII characters: anything that fails only at
                # file-encoding time would fail *after* the destination was opened
                uni = [json.loads(json.dumps(r)) for r in regs]
                if fmt == 'ds9':
                    uni.append(S.reg('TextPixelRegion', center=S.pix(3.0, 4.0), text='\u03b1 Cen \u2713'))
                    uni[0]['meta'] = dict(uni[0].get('meta') or {}, text='caf\u00e9')
                else:
                    t = S.reg('TextSkyRegion' if dom == 'sky' else 'TextPixelRegion',
                              center=(S.sky(10.0, 20.0, 'icrs') if dom == 'sky' else S.pix(3.0, 4.0)), text='\u03b1 Cen')
                    uni.append(t)
                emit(fmt, 'Regions', uni, kw, 'good-unicode')
                # ... and characters that are line boundaries for str.splitlines() / universal-newline readers of other
                # languages but ordinary characters inside a quoted DS9/CRTF string (form feed, VT, FS/GS/RS, NEL, LS, PS)
                lc = [json.loads(json.dumps(r)) for r in regs]
                for k, txt in enumerate(['page\x0cbreak', 'v\x0bt fs\x1cgs\x1drs\x1eend', 'nel\x85x ls\u2028y ps\u2029z']):
                    if fmt == 'ds9':
                        lc.append(S.reg('TextPixelRegion', center=S.pix(3.0 + k, 4.0), text=txt))
                    else:
                        lc.append(S.reg('TextSkyRegion' if dom == 'sky' else 'TextPixelRegion',
                                        center=(S.sky(10.0 + k, 20.0, 'icrs') if dom == 'sky' else S.pix(3.0 + k, 4.0)), text=txt))
                emit(fmt, 'Regions', lc, kw, 'good-linechars')
                # ... and the formats' own comment / separator characters inside quoted values ('#' in a label, a hex colour)
                cc = [json.loads(json.dumps(r)) for r in regs]
                for k, txt in enumerate(['src #1', 'No. #3; next', '# leading']):
                    if fmt == 'ds9':
                        cc.append(S.reg('TextPixelRegion', center=S.pix(3.0 + k, 4.0), text=txt, visual={'color': '#ff0000'}))
                    else:
                        cc.append(S.reg('TextSkyRegion' if dom == 'sky' else 'TextPixelRegion', visual={'color': '#ff0000'}, meta={'label': txt},
                                        center=(S.sky(10.0 + k, 20.0, 'icrs') if dom == 'sky' else S.pix(3.0 + k, 4.0)), text=txt))
                emit(fmt, 'Regions', cc, kw, 'good-commentchars')
                # an empty list is a valid list: it writes (a possibly empty file) and reads back as an empty list
                emit(fmt, 'Regions', [], kw, 'good-empty')
        for _ in range(1 if simple else 8):            # Region.write
            regs, kw, dom = good_list(prng, fmt, 1, simple)
            emit(fmt, 'Region', regs, kw, 'good')
            for kind in FAIL_KINDS[fmt]:
                if kind == 'component':
                    continue                           # needs a second row
                emit(fmt, 'Region', [failing_element(prng, fmt, kind, dom)], kw, f'fail:{kind}@0')
            for bad in BAD_OPTS[fmt]:
                emit(fmt, 'Region', regs, dict(kw, **bad), 'opt:' + next(iter(bad)))
    # unknown format / extension not registered for writing
    regs, _, _ = good_list(prng, 'ds9', 2, True)
    for api in ('Regions', 'Region'):
        for dest in DESTS:
            for ow in (False, True):
                for variant, fmtarg, ext in [('format-unknown', 'nonsense', '.reg'), ('ext-unknown', None, '.txt'), ('ext-none', None, ''),
                                             ('ext-read-only', None, '.reg.gz'), ('ext-read-only', None, '.fits.gz')]:
                    cells.append({'lane': f'unknown-format:{api}:{dest}', 'exhaustive': True, 'cell': len(cells), 'fmt': fmtarg, 'api': api,
                                  'dest': dest, 'ow': ow, 'how': variant, 'ext': ext, 'list': regs[:1] if api == 'Region' else regs,
                                  'kw': {}, 'inject': 'unknown'})
    return cells


def _seed():
    return int(os.environ.get('VERIF_SEED', '0'))


def generate(rng, tier, shard, nshards):
    for c in enumerate_cells(tier, _seed()):
        if c['cell'] % nshards == shard:
            yield c


def driver_extra(tier, seed, rundir):
    """The matrix must have been run completely: cells run == size of the matrix."""
    total = len(enumerate_cells(tier, seed))
    ran = 0
    for fn in os.listdir(rundir):
        if fn.startswith('shard') and fn.endswith('.json'):
            try:
                ran += json.load(open(os.path.join(rundir, fn))).get('counters', {}).get('cells-run', 0)
            except Exception:      # noqa
                pass
    out = {'report': {'matrix_cells': total, 'cells_run': ran}}
    if ran != total:
        out['inconclusive'] = [f'matrix not enumerated completely: {ran} of {total} cells run']
    return out


# ---------------------------------------------------------------------------
# audit recorder and serialiser markers
REC = {'armed': False, 'events': []}
WATCH = {'open', 'os.remove', 'os.rename', 'os.truncate', 'os.link', 'os.symlink', 'os.rmdir', 'os.mkdir', 'os.chmod',
         'shutil.copyfile', 'shutil.move', 'shutil.rmtree', 'shutil.copytree', 'shutil.copymode', 'shutil.copystat',
         'tempfile.mkstemp', 'tempfile.mkdtemp'}
_state = {'hook': False, 'markers': False, 'dir': None}


def _audit(event, args):
    if REC['armed'] and event in WATCH:
        try:
            REC['events'].append((event, args))
        except Exception:      # noqa
            pass


def setup(obs=None):
    if not _state['hook']:
        sys.addaudithook(_audit)
        _state['hook'] = True
    if not _state['markers']:
        import importlib
        for fmt in FORMATS:
            mod = importlib.import_module(f'regions.io.{fmt}.write')
            name = f'_serialize_{fmt}'
            orig = getattr(mod, name, None)
            if orig is None or getattr(orig, '_c14_marker', False):
                continue

            def make(orig, fmt):
                def marked(*a, **k):
                    if REC['armed']:
                        REC['events'].append(('ser-begin', (fmt,)))
                    try:
                        res = orig(*a, **k)
                    except BaseException:
                        if REC['armed']:
                            REC['events'].append(('ser-raise', (fmt,)))
                        raise
                    if REC['armed']:
                        REC['events'].append(('ser-end', (fmt,)))
                    return res
                marked._c14_marker = True
                marked.__wrapped__ = orig
                return marked
            setattr(mod, name, make(orig, fmt))      # the writer looks the serialiser up in its module globals
        _state['markers'] = True


def workdir():
    if _state['dir'] is None or not os.path.isdir(_state['dir']):
        _state['dir'] = tempfile.mkdtemp(prefix=f'c14-{os.getpid()}-', dir='/tmp')
        import atexit
        atexit.register(shutil.rmtree, _state['dir'], True)
    return _state['dir']


def finish(obs=None):
    if _state['dir']:
        shutil.rmtree(_state['dir'], ignore_errors=True)
        _state['dir'] = None


def _norm(p):
    if isinstance(p, bytes):
        try:
            p = p.decode()
        except Exception:      # noqa
            return None
    if isinstance(p, os.PathLike):
        p = os.fspath(p)
    if not isinstance(p, str):
        return None
    return os.path.abspath(p)


def _is_write_open(args):
    mode, flags = (list(args) + [None, None])[1:3]
    if isinstance(mode, str) and any(c in mode for c in 'wax+'):
        return True
    if isinstance(flags, int) and flags & (os.O_WRONLY | os.O_RDWR | os.O_CREAT | os.O_TRUNC | os.O_APPEND):
        return True
    return False


def touching(events, names, casedir):
    """-> [(index, description)] of write-type events naming one of `names` (destination, symlink target)."""
    out = []
    for i, (ev, args) in enumerate(events):
        if ev.startswith('ser-'):
            continue
        if ev == 'open':
            if not _is_write_open(args):
                continue
            paths = [_norm(args[0])]
        else:
            paths = [_norm(a) for a in args[:2]]
        for p in paths:
            if p and p in names:
                out.append((i, f'{ev}({p}, {args[1] if ev == "open" and len(args) > 1 else ""})'))
                break
    return out


# ---------------------------------------------------------------------------
def snap(path):
    try:
        st = os.lstat(path)
    except FileNotFoundError:
        return {'kind': 'absent'}
    if stat.S_ISLNK(st.st_mode):
        link = os.readlink(path)
        return {'kind': 'symlink', 'link': link, 'target': snap(os.path.join(os.path.dirname(path), link))}
    if stat.S_ISREG(st.st_mode):
        with open(path, 'rb') as fh:
            return {'kind': 'file', 'bytes': fh.read(), 'mode': stat.S_IMODE(st.st_mode)}
    return {'kind': 'other'}


def brief(s):
    if s['kind'] == 'file':
        return f"file[{len(s['bytes'])} bytes, starts {s['bytes'][:16]!r}]"
    if s['kind'] == 'symlink':
        return f"symlink->{brief(s['target'])}"
    return s['kind']


_old = {}


def old_content(fmt):
    """Valid older content of the same format, longer than anything the cells write."""
    if fmt in _old:
        return _old[fmt]
    if fmt == 'crtf':
        b = ('#CRTFv0\nglobal coord=J2000\n' + ''.join(f'circle[[{i}deg, {i % 60}deg], 1deg]\n' for i in range(1, 61)) + '# c14-precious\n').encode()
    elif fmt == 'fits':
        from astropy.io import fits
        from astropy.table import Table
        t = Table()
        t['SHAPE'] = ['circle'] * 60
        t['X'] = np.arange(60.0)
        t['Y'] = np.arange(60.0)
        t['R'] = np.full(60, 2.0)
        bio = io.BytesIO()
        hdu = fits.BinTableHDU(t, name='REGION')
        hdu.header['OLDMARK'] = 'c14-precious'
        fits.HDUList([fits.PrimaryHDU(), hdu]).writeto(bio)
        b = bio.getvalue()
    else:
        b = ('# Region file format: DS9 astropy/regions\nimage\n' + ''.join(f'circle({i},{i % 60},5)\n' for i in range(1, 61)) + '# c14-precious\n').encode()
    _old[fmt] = b
    return b


def same_regions(a, b):
    a, b = list(a), list(b)
    if len(a) != len(b):
        return f'{len(a)} vs {len(b)} regions'
    for i, (x, y) in enumerate(zip(a, b)):
        try:
            eq = bool(x == y)
        except Exception as exc:      # noqa
            eq = False
        if not eq:
            return f'region {i}: {x!r} vs {y!r}'[:400]
    return None


def lib_frames(exc):
    """source lines of the frames inside regions/io/<fmt>/write.py on the way to the exception"""
    out = []
    for fr in traceback.extract_tb(exc.__traceback__):
        fn = fr.filename.replace(os.sep, '/')
        if '/regions/io/' in fn and fn.endswith('/write.py'):
            out.append((fr.name, fr.line or ''))
    return out


def do_write(api, regs, path, fmtarg, ow, kw):
    from regions import Regions
    target = regs[0] if api == 'Region' else Regions(list(regs))
    args = dict(kw)
    if 'header' in args and isinstance(args['header'], dict):
        args['header'] = dict(args['header'])
    if fmtarg is not None:
        args['format'] = fmtarg
    REC['events'] = []
    exc = None
    with warnings.catch_warnings(record=True) as w:
        warnings.simplefilter('always')
        REC['armed'] = True
        try:
            target.write(path, overwrite=ow, **args)
        except Exception as e:      # noqa
            exc = e
        finally:
            REC['armed'] = False
    return exc, list(REC['events']), len(w)


def reference(api, regs, fmt, kw):
    """Regions.parse(serialize(...)) of the same list and options -> (regions | None, serialisation exception | None)"""
    from regions import Regions
    skw = {k: v for k, v in kw.items() if k != 'header'}
    with warnings.catch_warnings():
        warnings.simplefilter('ignore')
        try:
            data = regs[0].serialize(format=fmt, **skw) if api == 'Region' else Regions(list(regs)).serialize(format=fmt, **skw)
        except Exception as exc:      # noqa
            return None, exc
        try:
            return list(Regions.parse(data, format=fmt)), None
        except Exception:      # noqa
            return None, None


def read(path, fmt=None):
    from regions import Regions
    with warnings.catch_warnings():
        warnings.simplefilter('ignore')
        return list(Regions.read(path, format=fmt) if fmt else Regions.read(path))


def run_case(case, obs):
    setup()
    casedir = tempfile.mkdtemp(prefix='cell-', dir=workdir())
    try:
        run_cell(case, obs, casedir)
        obs.count('cells-run')
    finally:
        REC['armed'] = False
        shutil.rmtree(casedir, ignore_errors=True)
        if obs.tier == 'replay':
            finish()


def run_cell(case, obs, casedir):
    fmt, api, dest, ow = case['fmt'], case['api'], case['dest'], case['ow']
    unknown = case['inject'] == 'unknown'
    regs = S.build(case['list'])
    kw = case['kw']
    path = os.path.join(casedir, 'out' + case['ext'])
    target = os.path.join(casedir, 'real-target.bin')
    contentfmt = fmt if fmt in FORMATS else 'ds9'
    dotdot = None
    if fmt in FORMATS and not unknown and case['cell'] % 5 == 3 and dest in ('file', 'absent'):
        # the destination is named through a symlinked directory and '..': <cell>/lnk/../out.ext with lnk -> store/sub is the file
        # <cell>/store/out.ext (the kernel follows the link before going up), not <cell>/out.ext
        os.makedirs(os.path.join(casedir, 'store', 'sub'))
        os.symlink(os.path.join('store', 'sub'), os.path.join(casedir, 'lnk'))
        path = os.path.join(casedir, 'store', 'out' + case['ext'])
        dotdot = os.path.join(casedir, 'lnk', '..', 'out' + case['ext'])
        obs.count('destination-named-through-symlinked-dir-and-dotdot')
    old = old_content(contentfmt)
    if dest in ('file', 'symlink') and case['cell'] % 4 == 2 and fmt in FORMATS and not unknown:
        # the destination already holds exactly what this very call would write (the same regions written there a moment ago):
        # it exists all the same - refused without overwrite=True, like any other existing file
        from regions import Regions
        tmp = os.path.join(workdir(), f'same-content-{os.getpid()}' + WRITE_EXTS[fmt][0])
        try:
            with warnings.catch_warnings():
                warnings.simplefilter('ignore')
                (regs[0] if api == 'Region' else Regions(list(regs))).write(tmp, format=fmt, overwrite=True, **{k: (dict(v) if isinstance(v, dict) else v) for k, v in kw.items()})
            with open(tmp, 'rb') as fh:
                old = fh.read()
            obs.count('destination-already-holds-the-same-content')
        except Exception:
            pass
        finally:
            if os.path.lexists(tmp):
                os.remove(tmp)
    if dest == 'file':
        with open(path, 'wb') as fh:
            fh.write(old)
    elif dest in ('symlink', 'dangling'):
        if dest == 'symlink':
            with open(target, 'wb') as fh:
                fh.write(old)
        os.symlink('real-target.bin', path)
    before = snap(path)
    before_t = snap(target)
    listing = sorted(os.listdir(casedir))
    names = {os.path.abspath(path), os.path.abspath(target)}
    what = f'{api}.write({os.path.basename(path)!r}, format={fmt if case["how"] == "given" or unknown else None!r}, overwrite={ow}, {kw}) ' \
           f'on {dest}, list={case["inject"]}'

    fmtarg = fmt if (case['how'] == 'given' or (unknown and fmt)) else None
    wpath = path
    if fmtarg is not None and not unknown and case['cell'] % 3 == 0:
        import pathlib
        wpath = pathlib.Path(path)          # the same destination named by a path object
        obs.count('destination-given-as-pathlib-Path')
    home0 = os.environ.get('HOME')
    if dotdot is not None:
        wpath = dotdot
    elif fmt == 'fits' and fmtarg is not None and not unknown and case['cell'] % 3 == 1 and dest in ('file', 'absent'):
        # the same destination spelled home-relative (astropy's FITS writer expands a leading '~'; HOME is this cell's directory)
        os.environ['HOME'] = casedir
        wpath = '~/' + os.path.basename(path)
        obs.count('destination-spelled-home-relative')
    try:
        exc, events, nwarn = do_write(api, regs, wpath, fmtarg, ow, kw)
    finally:
        if home0 is None:
            os.environ.pop('HOME', None)
        else:
            os.environ['HOME'] = home0
    after = snap(path)
    after_t = snap(target)
    listing2 = sorted(os.listdir(casedir))
    touched = touching(events, names, casedir)
    unchanged = (after == before and after_t == before_t)
    exists = dest != 'absent'
    injected = case['inject'] != 'good'

    def partial_file_mechanism():
        """the failure happened inside astropy's writeto, after the FITS writer had handed the path over"""
        fr = lib_frames(exc) if exc is not None else []
        return fmt == 'fits' and bool(fr) and 'writeto' in fr[-1][1] and fr[-1][0] == '_write_fits' and not isinstance(exc, OSError)

    # ---- unknown format ---------------------------------------------------
    if unknown:
        ok = exc is not None and unchanged and not touched and listing2 == listing
        if exc is None:
            obs.violation('unknown-format-accepted', f'{what}: no error; destination now {brief(after)}')
        elif not ok:
            obs.violation('unknown-format-touched-destination', f'{what}: raised {type(exc).__name__} but destination {brief(before)} -> {brief(after)}, events {touched[:3]}')
        else:
            obs.ok(1, 'unknown-format')
            obs.count('unknown-format-error:' + type(exc).__name__)
        return

    # ---- refused: destination exists and overwrite is False -----------------
    if exists and not ow:
        if exc is None:
            key = K_DANGLING if (fmt == 'fits' and dest == 'dangling' and after_t['kind'] == 'file') else 'exists-without-overwrite-not-refused'
            obs.violation(key, f'{what}: no error; destination {brief(before)} -> {brief(after)}')
            return
        if not injected:
            obs.check(isinstance(exc, OSError), 'refusal-is-not-oserror', f'{what}: raised {type(exc).__name__}: {exc}', 'refusal-is-oserror')
        if unchanged and listing2 == listing:
            obs.ok(1, 'refused-unchanged')
        else:
            key = K_PARTIALFILE if partial_file_mechanism() else 'refused-write-changed-destination'
            obs.violation(key, f'{what}: raised {type(exc).__name__} but destination {brief(before)} -> {brief(after)}, target {brief(before_t)} -> {brief(after_t)}, '
                               f'directory {listing} -> {listing2}')
        if touched:
            key = K_PARTIALFILE if partial_file_mechanism() else 'destination-opened-on-refused-or-failed-write'
            obs.violation(key, f'{what}: refused with {type(exc).__name__}, yet the audit log shows {[t[1] for t in touched[:4]]}')
        else:
            obs.ok(1, 'no-open-on-refusal-or-failure')
        return

    # ---- destination absent, or overwrite=True -------------------------------
    if exc is not None:
        if not injected:
            obs.violation('good-write-raised', f'{what}: raised {type(exc).__name__}: {str(exc)[:300]}',
                          traceback=''.join(traceback.format_exception(type(exc), exc, exc.__traceback__))[-1500:])
        else:
            obs.count(f'raised-on-injection:{fmt}')
            obs.count(f'raised:{fmt}:{case["inject"].split("@")[0]}')
        if unchanged and listing2 == listing:
            obs.ok(1, 'failed-unchanged')
        else:
            key = K_PARTIALFILE if partial_file_mechanism() else 'failed-write-changed-destination'
            obs.violation(key, f'{what}: raised {type(exc).__name__}: {str(exc)[:120]} but destination {brief(before)} -> {brief(after)}, '
                               f'target {brief(before_t)} -> {brief(after_t)}, directory {listing} -> {listing2}')
        if touched:
            key = K_PARTIALFILE if partial_file_mechanism() else 'destination-opened-on-refused-or-failed-write'
            obs.violation(key, f'{what}: failed with {type(exc).__name__}, yet the audit log shows {[t[1] for t in touched[:4]]}')
        else:
            obs.ok(1, 'no-open-on-refusal-or-failure')
        return

    # ---- write returned --------------------------------------------------------
    obs.count(f'success:{fmt}')
    obs.count(f'success-on:{dest}')
    if case['how'] == 'inferred':
        obs.ok(1, 'write-extension-identified')
    ref, ser_exc = reference(api, regs, fmt, kw)
    if ser_exc is not None:
        obs.violation('write-succeeded-though-serialisation-raises', f'{what}: returned, but serialising the same list raises {type(ser_exc).__name__}: {ser_exc}')
        return
    if injected and case['inject'].startswith('fail:'):
        obs.count('skipped-element-success')
        obs.count(f'skipped:{fmt}:{case["inject"].split("@")[0]}')
    # where did the data go
    if after['kind'] == 'symlink':
        obs.count('overwrite-through-symlink')
        final = after['target']
        if not (after['link'] == before.get('link')):
            obs.violation('symlink-retargeted', f'{what}: link now points to {after["link"]!r}')
    else:
        final = after
        if before['kind'] == 'symlink':
            obs.count('overwrite-replaced-symlink')
            obs.check(after_t == before_t, 'replaced-symlink-but-touched-target', f'{what}: link replaced by a file and target {brief(before_t)} -> {brief(after_t)}', 'target-untouched')
    if final['kind'] != 'file':
        obs.violation('successful-write-left-no-file', f'{what}: returned, destination is {brief(after)}')
        return
    extra = [n for n in listing2 if n not in listing and n not in (os.path.basename(path), 'real-target.bin')]
    obs.check(not extra, 'stray-files-left', f'{what}: left {extra} next to the destination', 'no-stray-files')
    # serialisation before the first open
    ser_end = [i for i, (ev, a) in enumerate(events) if ev == 'ser-end']
    ser_begin = [i for i, (ev, a) in enumerate(events) if ev == 'ser-begin']
    if ser_begin:
        obs.count(f'serialiser-seen:{fmt}')
        first_touch = touched[0][0] if touched else None
        if first_touch is None:
            obs.skip(1, 'no-open-event-seen')
        else:
            obs.check(bool(ser_end) and ser_end[0] < first_touch, 'destination-opened-before-serialisation-finished',
                      f'{what}: {touched[0][1]} precedes the end of serialisation', 'serialised-before-open')
    else:
        obs.skip(1, 'serialiser-marker-not-on-call-path')

    if ref is None:
        obs.skip(1, 'reference-round-trip-unavailable')
        return
    if before['kind'] != 'absent' and not (before['kind'] == 'symlink' and before['target']['kind'] == 'absent'):
        obs.check(b'c14-precious' not in final['bytes'], 'overwrite-left-old-content', f'{what}: old content still present after overwrite', 'overwritten-completely')

    empty_ds9 = fmt == 'ds9' and len(final['bytes']) == 0 and len(regs) == 0

    def rb(key, label, p, f=None):
        try:
            got = read(p, f)
        except Exception as e:      # noqa
            if empty_ds9 and f is None and 'IORegistryError' in type(e).__name__ and key in ('readback-content-inferred', 'readback-gzip-copy'):
                key = K_EMPTYDS9      # a zero-byte file carries no content signature
            obs.violation(key, f'{what}: reading back {label} raised {type(e).__name__}: {str(e)[:300]}')
            return
        diff = same_regions(ref, got)
        obs.check(diff is None, key, f'{what}: reading back {label} differs from parse(serialize(...)): {diff}', key)

    rb('readback-format-given', 'with the format given', path, fmt)
    if case['ext'] in WRITE_EXTS[fmt]:
        rb('readback-extension-inferred', f'by extension {case["ext"]}', path)
    else:
        rb('readback-content-inferred', f'by content (destination named {os.path.basename(path)!r})', path)
    data = final['bytes']
    for ext in WRITE_EXTS[fmt]:
        p = os.path.join(casedir, ('copy' if ext != WRITE_EXTS[fmt][0] else 'Copy of M31') + ext)
        with open(p, 'wb') as fh:
            fh.write(data)
        rb('readback-extension-inferred', f'a copy named {os.path.basename(p)}', p)
        with gzip.open(p + '.gz', 'wb') as fh:
            fh.write(data)
        rb('readback-gzip-copy', f'a gzip copy named {os.path.basename(p)}.gz', p + '.gz')
    # stacked extensions: the LAST extension names the format ('field.reg.fits' is a FITS file, 'field.fits.reg' a DS9 one)
    for ofmt in FORMATS:
        if ofmt == fmt:
            continue
        name = 'stacked' + WRITE_EXTS[ofmt][0] + WRITE_EXTS[fmt][0]
        p = os.path.join(casedir, name)
        with open(p, 'wb') as fh:
            fh.write(data)
        rb('readback-extension-inferred', f'a copy named {name}', p)
    # (file names are arbitrary: capital letters, blanks, dots; also an upper-case spelling of a registered extension)
    for name in ('renamed.dat', 'renamed', 'NGC 1365_Field-B.v2.dat'):
        p = os.path.join(casedir, name)
        with open(p, 'wb') as fh:
            fh.write(data)
        rb('readback-content-inferred', f'a copy renamed to {name!r} (content signature)', p)
        with gzip.open(p + '.gz', 'wb') as fh:
            fh.write(data)
        rb('readback-gzip-copy', f'a gzip copy named {name}.gz (content signature)', p + '.gz')


MUTANTS = [
    ('ds9-exists-instead-of-lexists', 'regions/io/ds9/write.py', 'if os.path.lexists(filename) and not overwrite:', 'if os.path.exists(filename) and not overwrite:'),
    ('crtf-exists-instead-of-lexists', 'regions/io/crtf/write.py', 'if os.path.lexists(filename) and not overwrite:', 'if os.path.exists(filename) and not overwrite:'),
    ('ds9-open-before-serialisation', 'regions/io/ds9/write.py',
     "    output = _serialize_ds9(regions, precision=precision)\n    with open(filename, 'w') as fh:\n        fh.write(output)",
     "    with open(filename, 'w') as fh:\n        fh.write(_serialize_ds9(regions, precision=precision))"),
    ('crtf-open-before-serialisation', 'regions/io/crtf/write.py',
     "    output = _serialize_crtf(regions, coordsys=coordsys, fmt=fmt,\n                             radunit=radunit)\n    with open(filename, 'w') as fh:\n        fh.write(output)",
     "    with open(filename, 'w') as fh:\n        fh.write(_serialize_crtf(regions, coordsys=coordsys, fmt=fmt,\n                                 radunit=radunit))"),
    ('fits-exists-instead-of-lexists', 'regions/io/fits/write.py', "    if os.path.lexists(filename) and not overwrite:\n        raise OSError(f'{filename} already exists')\n\n    output = _serialize_fits(regions)", "    if os.path.exists(filename) and not overwrite:\n        raise OSError(f'{filename} already exists')\n\n    output = _serialize_fits(regions)"),
    ('fits-overwrite-never-forwarded', 'regions/io/fits/write.py', 'bin_table.writeto(filename, overwrite=overwrite)', 'bin_table.writeto(filename, overwrite=False)'),
    ('ds9-write-extension-tuple-misindexed', 'regions/io/ds9/connect.py', "'write': all_exten[0:2]}", "'write': all_exten[0:1]}"),
    ('fits-write-extension-tuple-misindexed', 'regions/io/fits/connect.py', "'write': all_exten[0:3]}", "'write': all_exten[0:2]}"),
    ('crtf-signature-compared-as-str-only', 'regions/io/crtf/connect.py', 'return sig == signature or sig == signature.encode()', 'return sig == signature'),
    ('ds9-signature-compared-as-str-only', 'regions/io/ds9/connect.py', 'return sig == signature or sig == signature.encode()', 'return sig == signature'),
    ('crtf-append-instead-of-truncate', 'regions/io/crtf/write.py', "with open(filename, 'w') as fh:", "with open(filename, 'a') as fh:"),
    ('region-write-drops-overwrite', 'regions/core/core.py',
     "                                     Region, format=format,\n                                     overwrite=overwrite, **kwargs)",
     "                                     Region, format=format,\n                                     **kwargs)"),
    ('ds9-check-after-serialisation-swallows-failure', 'regions/io/ds9/write.py',
     "    output = _serialize_ds9(regions, precision=precision)\n",
     "    try:\n        output = _serialize_ds9(regions, precision=precision)\n    except Exception:\n        output = ''\n"),
    ('fits-gz-read-extension-dropped', 'regions/io/fits/connect.py', "        else:\n            try:\n                with warnings.catch_warnings():", "        elif not str(filepath).endswith('.gz'):\n            try:\n                with warnings.catch_warnings():"),
    ('registry-unknown-format-falls-back-to-ds9', 'regions/core/registry.py',
     "        key = (classobj, 'write', format)\n        try:\n            writer = cls.registry[key]\n        except KeyError:",
     "        key = (classobj, 'write', format)\n        try:\n            writer = cls.registry.get(key) or cls.registry[(classobj, 'write', 'ds9')]\n        except KeyError:"),
]
