"""C04 - bounding boxes enclose the region, are minimal, and confine the mask.

Monitors: every ``bounding_box`` read (all classes, incl. nested reads made by
compounds/annuli/to_mask) is judged against the independently derived true
extent; every ``to_mask`` return is checked for box identity and shape.  The
workload includes an alignment solver that puts each true extreme at
k+1/2+delta for delta in {-1e-3, -1ulp, 0, +1ulp, +1e-3} and at k+-0.49.
"""
import math
import random
from fractions import Fraction

import numpy as np

from vmon import gen, geom, monitors, spec as S

ID = 'C04'
LEVEL = 'exploration'
TECHNIQUE = 'runtime monitor on every bounding_box read and to_mask return; oracle = independently derived true extent + alignment-solver workload'
RULE = ('cases = pixel region specs: random lane (all classes, sizes 1e-3..1e6, any angle/unit/centre) and aligned lane '
        '(dyadic sizes, extreme placed at k+1/2+delta per axis/side, delta in {-1e-3,-1ulp,0,+1ulp,+1e-3,+-0.49}); exact-arithmetic '
        'cases (zero angle, dyadic parameters, verified with Fractions) are judged to the ulp, others within the rounding tolerance; '
        'ring lane: pixel centres in a 2-pixel ring outside the box must be non-members; non-trivial = >=1 judged edge')
ASSUMPTIONS = ['extremes closer to a pixel edge than the rounding tolerance of the extent formula are not judged (unless arithmetic is exact)']


def budget(tier):
    return 50 if tier == 'quick' else 420


def shards(tier):
    return 16


def required_counters(tier):
    d = {f'monitor:bbox:{c}': 20 for c in gen.ALL_PIX + ['CompoundPixelRegion']}
    d.update({'judged:bbox-enclose': 1000, 'judged:bbox-minimal': 1000, 'judged:mask-bbox': 100, 'judged:ring': 100,
              'exact_cases': 50, 'history-steps': 50})
    return d


def setup(obs):
    monitors.install_bbox_monitor(obs)
    monitors.install_to_mask_monitor(obs, [lambda o, region, mode, sub, mask: monitors.judge_mask_bbox(o, region, mask)])


DELTAS = ['-1e-3', '-ulp', '0', '+ulp', '+1e-3', '+0.49', '-0.49', 'rand', '+2e-12', '-2e-12', '+4e-11', '-4e-11', '+1e-9', '-1e-9']


def generate(rng, tier, shard, nshards):
    n = 2500 if tier == 'quick' else 50000
    for i in range(n):
        r = rng.random()
        if i % 8 == 3:
            # points and lines are cheap: many of them with one end exactly on / one ulp off a pixel edge and the other end anywhere
            def coord():
                k = rng.choice([rng.randint(-60, 60), rng.randint(-3000, 3000)]) + 0.5
                return k + _delta(rng.choice(['0', '0', '-ulp', '+ulp', '+2e-12', '-2e-12']), k, rng), rng.choice([-1, 1]) * gen.logu(rng, 1e-3, 3e3)
            (ax, bx), (ay, by) = coord(), coord()
            if rng.random() < 0.5:
                ax, bx = bx, ax
            if rng.random() < 0.5:
                ay, by = by, ay
            if rng.random() < 0.25:
                reg = S.reg(rng.choice(['PointPixelRegion', 'TextPixelRegion']), center=S.pix(ax, ay))
                if reg['cls'] == 'TextPixelRegion':
                    reg['p']['text'] = 't'
            else:
                reg = S.reg('LinePixelRegion', start=S.pix(ax, ay), end=S.pix(bx, by))
            yield {'lane': 'edge-line', 'region': reg, 'rs': rng.randrange(2 ** 31)}
            continue
        if r < 0.35:
            yield {'lane': 'random', 'region': gen.pixel_region_spec(rng), 'rs': rng.randrange(2 ** 31)}
        elif r < 0.45:
            def leaf():
                if rng.random() < 0.3:
                    # operands whose own box is degenerate or pixel-aligned: a point on a pixel edge/corner, a line along an edge
                    hx, hy = rng.randint(-40, 40) + rng.choice([0.5, 0.5, 0.0]), rng.randint(-40, 40) + rng.choice([0.5, 0.5, 0.0])
                    if rng.random() < 0.5:
                        return S.reg('PointPixelRegion', center=S.pix(hx, hy))
                    ex, ey = (hx + rng.randint(-9, 9), hy) if rng.random() < 0.5 else (hx, hy + rng.randint(-9, 9))
                    return S.reg('LinePixelRegion', start=S.pix(hx, hy), end=S.pix(ex, ey))
                return gen.pixel_region_spec(rng, classes=gen.MASKABLE + ['LinePixelRegion', 'PointPixelRegion'],
                                             size=gen.logu(rng, 0.5, 40), center=(rng.uniform(-40, 40), rng.uniform(-40, 40)))
            reg = gen.compound_spec(rng, rng.randint(1, 3), leaf)
            yield {'lane': 'compound', 'region': reg, 'rs': rng.randrange(2 ** 31)}
        else:
            cls = rng.choice(gen.SIMPLE_PIX + gen.ANNULI_PIX + ['LinePixelRegion', 'PointPixelRegion', 'TextPixelRegion'])
            exactish = rng.random() < 0.6
            ang = S.q(0.0, rng.choice(gen.ANGLE_UNITS)) if exactish else gen.angle_spec(rng)
            size = gen.dyadic(rng, 1 / 16, 40, 4) if exactish else gen.logu(rng, 0.05, 60)
            yield {'lane': 'aligned', 'cls': cls, 'size': size, 'angle': ang, 'exactish': exactish,
                   'kx': rng.randint(-60, 60), 'ky': rng.randint(-60, 60), 'sidex': rng.choice(['min', 'max']),
                   'sidey': rng.choice(['min', 'max']), 'dx': rng.choice(DELTAS), 'dy': rng.choice(DELTAS),
                   'rs': rng.randrange(2 ** 31)}


def _delta(name, t, prng):
    if name == '-ulp':
        return np.nextafter(t, -np.inf) - t
    if name == '+ulp':
        return np.nextafter(t, np.inf) - t
    if name == 'rand':
        return prng.uniform(-0.5, 0.5)
    return float(name)


def exact_extent(region):
    """Exact rational extent for classes whose extent needs no transcendental
    function, else None."""
    name = type(region).__name__
    F = Fraction
    try:
        if name in ('CirclePixelRegion', 'CircleAnnulusPixelRegion'):
            r = F(float(region.radius if name[6] == 'P' else region.outer_radius))
            cx, cy = F(float(region.center.x)), F(float(region.center.y))
            return cx - r, cx + r, cy - r, cy + r
        if name in ('EllipsePixelRegion', 'RectanglePixelRegion', 'EllipseAnnulusPixelRegion', 'RectangleAnnulusPixelRegion'):
            if float(region.angle.value) != 0.0:
                return None
            w = region.outer_width if 'Annulus' in name else region.width
            h = region.outer_height if 'Annulus' in name else region.height
            cx, cy = F(float(region.center.x)), F(float(region.center.y))
            return cx - F(float(w)) / 2, cx + F(float(w)) / 2, cy - F(float(h)) / 2, cy + F(float(h)) / 2
        if name == 'PolygonPixelRegion':
            vx, vy = [F(float(v)) for v in region.vertices.x], [F(float(v)) for v in region.vertices.y]
            return min(vx), max(vx), min(vy), max(vy)
        if name == 'LinePixelRegion':
            xs = [F(float(region.start.x)), F(float(region.end.x))]
            ys = [F(float(region.start.y)), F(float(region.end.y))]
            return min(xs), max(xs), min(ys), max(ys)
        if name in ('PointPixelRegion', 'TextPixelRegion'):
            cx, cy = F(float(region.center.x)), F(float(region.center.y))
            return cx, cx, cy, cy
    except Exception:
        return None
    return None


def mark_exact(region, obs):
    ex = exact_extent(region)
    if ex is None:
        return False
    fl = geom.true_extent(region)[:4]
    if all(Fraction(float(a)) == b for a, b in zip(fl, ex)):
        region._vmon_exact = True
        obs.count('exact_cases')
        return True
    return False


def ring_check(region, bbox, obs):
    """Pixel centres in a 2-pixel ring outside the box are non-members."""
    ny, nx = bbox.shape
    if nx > 400 or ny > 400:
        return
    xs = np.arange(bbox.ixmin - 2, bbox.ixmax + 2)
    ys = np.arange(bbox.iymin - 2, bbox.iymax + 2)
    X, Y = np.meshgrid(xs, ys)
    outside = (X < bbox.ixmin) | (X >= bbox.ixmax) | (Y < bbox.iymin) | (Y >= bbox.iymax)
    px, py = X[outside].astype(float), Y[outside].astype(float)
    ins, dec = geom.shape_member(region, px, py)
    bad = ins & dec
    obs.skip(int((~dec).sum()), 'ring')
    if bad.any():
        i = int(np.flatnonzero(bad)[0])
        obs.violation('member-pixel-outside-box', f'{type(region).__name__}: pixel centre ({px[i]}, {py[i]}) is a member but lies outside the box {bbox!r}',
                      region=repr(region)[:300])
    else:
        obs.ok(int(dec.sum()), 'ring')


def driver_extra(tier, seed, rundir):
    """thorough tier: the repository's own test-suite as an additional, organically shaped workload for the same monitor."""
    if tier != 'thorough':
        return None
    from vmon import suite
    return suite.run_suite_lane(ID, 'bbox')


def run_case(case, obs):
    if case['lane'].startswith('suite:'):
        return monitors.replay_suite_case(case, obs)
    lane = case['lane']
    prng = random.Random(case['rs'])
    if lane in ('random', 'compound', 'edge-line'):
        region = S.build(case['region'])
        mark_exact(region, obs)
        bb = region.bounding_box          # judged by the monitor
        ring_check(region, bb, obs)
        if case['rs'] % 3 == 0:
            # mutate-then-reread on the same object
            for _ in range(2):
                gen.mutate_live(region, prng)
                region.__dict__.pop('_vmon_exact', None)
                obs.count('history-steps')
                bb = region.bounding_box
                ring_check(region, bb, obs)
        ny, nx = bb.shape
        cls = type(region).__name__
        if cls in gen.MASKABLE + ['CompoundPixelRegion'] and 0 < nx * ny <= 20000:
            try:
                region.to_mask(mode='center')          # judged by the to_mask monitor
            except NotImplementedError:
                pass
        return
    # aligned lane: build at the origin, measure the true extent, then shift
    cls = case['cls']
    base = gen.pixel_region_spec(prng, cls=cls, size=case['size'], center=(0.0, 0.0), angle=case['angle'], include='absent',
                                 max_aspect=8.0)
    if case['exactish'] and cls in ('EllipsePixelRegion', 'RectanglePixelRegion', 'EllipseAnnulusPixelRegion', 'RectangleAnnulusPixelRegion'):
        p = base['p']
        w = case['size']
        h = gen.dyadic(prng, 1 / 16, 40, 4)
        if 'Annulus' in cls:
            p.update(outer_width=w, outer_height=h, inner_width=w / 2, inner_height=h / 4)
        else:
            p.update(width=w, height=h)
    if case['exactish'] and cls == 'CircleAnnulusPixelRegion':
        base['p'].update(outer_radius=case['size'] / 2, inner_radius=case['size'] / 8)
    if case['exactish'] and cls == 'PolygonPixelRegion':
        n = prng.randint(3, 8)
        base['p']['vertices'] = S.pix(S.arr_spec([gen.dyadic(prng, -20, 20, 4) for _ in range(n)]),
                                      S.arr_spec([gen.dyadic(prng, -20, 20, 4) for _ in range(n)]))
    if case['exactish'] and cls == 'LinePixelRegion':
        base['p']['end'] = S.pix(gen.dyadic(prng, -20, 20, 4), gen.dyadic(prng, -20, 20, 4))
    r0 = S.build(base)
    x0, x1, y0, y1, _tol = geom.true_extent(r0)
    tx = case['kx'] + 0.5
    ty = case['ky'] + 0.5
    tx = tx + _delta(case['dx'], tx, prng)
    ty = ty + _delta(case['dy'], ty, prng)
    sx = tx - (x0 if case['sidex'] == 'min' else x1)
    sy = ty - (y0 if case['sidey'] == 'min' else y1)
    spec = shift_spec(base, sx, sy)
    if cls in ('LinePixelRegion', 'PolygonPixelRegion') and not case['exactish'] and 'origin' not in spec['p']:
        # the aligned coordinate stays where it is; every other coordinate is redrawn independently (a common shift would tie
        # all coordinates to each other by the same rounding, which hides errors of the kind a + (b - a) != b)
        decorrelate(spec, prng, case['sidex'], case['sidey'])
    region = S.build(spec)
    mark_exact(region, obs)
    bb = region.bounding_box              # judged by the monitor
    ring_check(region, bb, obs)
    ny, nx = bb.shape
    if cls in gen.MASKABLE and 0 < nx * ny <= 20000:
        region.to_mask(mode='center')
        # the box confines the mask in every mode the class supports
        if 'Annulus' not in cls:
            region.to_mask(mode='subpixels', subpixels=prng.choice([1, 2, 3]))
            if cls in ('CirclePixelRegion', 'EllipsePixelRegion'):
                region.to_mask(mode='exact')
            obs.count('mask-boxes-in-other-modes')


def decorrelate(spec, prng, sidex, sidey):
    p = spec['p']
    if 'vertices' in p:
        for ax, side in (('x', sidex), ('y', sidey)):
            a = list(p['vertices'][ax]['a'])
            k = a.index(min(a) if side == 'min' else max(a))
            for i in range(len(a)):
                if i != k:
                    d = gen.logu(prng, 1e-3, 80) * prng.choice([1.0, 1.0, 1.7320508])
                    a[i] = a[k] + d if side == 'min' else a[k] - d
            p['vertices'][ax] = S.arr_spec(np.array(a, dtype=float))
        return
    for ax, side in (('x', sidex), ('y', sidey)):
        s_, e_ = p['start'][ax], p['end'][ax]
        ext = min(s_, e_) if side == 'min' else max(s_, e_)
        d = gen.logu(prng, 1e-3, 80) * prng.choice([1.0, 1.0, 1.7320508])
        other = ext + d if side == 'min' else ext - d
        if (s_ == ext) and prng.random() < 0.5 or e_ != ext:
            p['start'][ax], p['end'][ax] = ext, other
        else:
            p['start'][ax], p['end'][ax] = other, ext


def shift_spec(spec, sx, sy):
    import copy
    s = copy.deepcopy(spec)
    if 'origin' in s['p']:
        s['p']['origin']['x'] += sx
        s['p']['origin']['y'] += sy
        return s
    for k, v in s['p'].items():
        if isinstance(v, dict) and v.get('t') == 'pix':
            if isinstance(v['x'], dict):
                v['x'] = S.arr_spec(np.array(v['x']['a'], dtype=float) + sx)
                v['y'] = S.arr_spec(np.array(v['y']['a'], dtype=float) + sy)
            else:
                v['x'] = v['x'] + sx
                v['y'] = v['y'] + sy
    return s


MUTANTS = [
    ('from_float-floor-to-round', 'regions/core/bounding_box.py', 'ixmin = lower(xmin)', 'ixmin = int(round(xmin))'),
    ('from_float-ceil-no-half', 'regions/core/bounding_box.py', 'ixmax = upper(xmax)', 'ixmax = int(np.ceil(xmax))'),
    ('ellipse-width_y-uses-cos', 'regions/shapes/ellipse.py', 'width_y = 0.5 * self.width * sin_theta', 'width_y = 0.5 * self.width * cos_theta'),
    ('rectangle-max-to-min', 'regions/shapes/rectangle.py', 'dx = max(dx1, dx2)', 'dx = min(dx1, dx2)'),
    ('annulus-box-from-inner', 'regions/shapes/annulus.py', 'return self._outer_region.bounding_box', 'return self._inner_region.bounding_box'),
    ('compound-box-intersection', 'regions/core/compound.py', 'return self.region1.bounding_box | self.region2.bounding_box',
     'return (self.region1.bounding_box & self.region2.bounding_box) or self.region1.bounding_box'),
    ('polygon-ymax-uses-x', 'regions/shapes/polygon.py', 'ymax = self.vertices.y.max()', 'ymax = self.vertices.x.max()'),
    ('line-box-start-only', 'regions/shapes/line.py', 'xmax = max(self.start.x, self.end.x)', 'xmax = self.start.x'),
    ('circle-box-diameter', 'regions/shapes/circle.py', 'xmax = self.center.x + self.radius', 'xmax = self.center.x + 2 * self.radius'),
    ('ellipse-mask-own-box', 'regions/shapes/ellipse.py',
     "        bbox = self.bounding_box\n        ny, nx = bbox.shape\n\n        # Find position of pixel edges and recenter so that ellipse is",
     "        bbox = self.bounding_box\n        bbox = bbox.__class__(bbox.ixmin, bbox.ixmax + 1, bbox.iymin, bbox.iymax)\n        ny, nx = bbox.shape\n\n        # Find position of pixel edges and recenter so that ellipse is"),
]
