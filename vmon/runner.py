"""Driver: shards a check over worker subprocesses, merges what the monitors
observed, classifies violations against KNOWN_FINDINGS.txt, writes
evidence/<id>.json and prints the verdict lines.

usage: python -m vmon.runner <Cxx> quick|thorough
       python -m vmon.runner <Cxx> --replay <file>
exit: 0 held on everything observed; 1 violation; 2 inconclusive.
"""
import importlib
import json
import os
import re
import shutil
import subprocess
import sys
import tempfile
import time

VERIF = os.path.dirname(os.path.dirname(os.path.abspath(__file__)))
OUT = os.environ.get('VERIF_OUT', VERIF)      # evidence/ and replays/ live here (self-test redirects it)
PY = os.environ.get('VERIF_PYTHON', '/venv/bin/python')


def load_known(prop):
    known = {}
    path = os.path.join(VERIF, 'KNOWN_FINDINGS.txt')
    if not os.path.exists(path):
        return known
    for line in open(path):
        line = line.strip()
        m = re.match(r'known:\s+property=(\S+)\s+key=(\S+)\s+(.*)', line)
        if m and m.group(1) == prop:
            known[m.group(2)] = m.group(3)
    return known


def worker_env():
    env = dict(os.environ)
    env['PYTHONHASHSEED'] = '0'
    env['PYTHONPATH'] = VERIF + os.pathsep + env.get('PYTHONPATH', '')
    env['MPLBACKEND'] = 'Agg'
    env['OMP_NUM_THREADS'] = '1'
    env['OPENBLAS_NUM_THREADS'] = '1'
    env.setdefault('MPLCONFIGDIR', os.path.join(tempfile.gettempdir(), 'vmon-mpl'))
    env['PYTHONDONTWRITEBYTECODE'] = '1'
    return env


def run_workers(prop, tier, seed, nshards, budget, rundir):
    procs = []
    env = worker_env()
    for sh in range(nshards):
        out = os.path.join(rundir, f'shard{sh}.json')
        log = open(os.path.join(rundir, f'shard{sh}.log'), 'w')
        p = subprocess.Popen([PY, '-m', 'vmon.worker', prop, tier, str(seed), str(sh), str(nshards), out],
                             cwd=VERIF, env=env, stdout=log, stderr=subprocess.STDOUT)
        procs.append((sh, p, out, log))
    deadline = time.time() + budget * 4 + 300      # generous watchdog
    results, problems = [], []
    for sh, p, out, log in procs:
        try:
            p.wait(timeout=max(1, deadline - time.time()))
        except subprocess.TimeoutExpired:
            p.kill()
            p.wait()
            problems.append(f'shard {sh}: watchdog fired')
        log.close()
        if os.path.exists(out):
            try:
                results.append(json.load(open(out)))
                continue
            except Exception as exc:
                problems.append(f'shard {sh}: unreadable result {exc!r}')
        else:
            tail = open(os.path.join(rundir, f'shard{sh}.log')).read()[-1500:]
            problems.append(f'shard {sh}: no result (rc={p.returncode}) {tail}')
    return results, problems


def merge(results):
    from collections import Counter
    m = {'cases': 0, 'judged': 0, 'ambiguous': 0, 'counters': Counter(), 'hashes': set(),
         'samples': [], 'violations': [], 'violation_counts': Counter(), 'notes': {},
         'stopped_by_time': 0, 'import_errors': [], 'anchor_reports': []}
    seen_lanes = set()
    for r in results:
        if 'import_error' in r:
            m['import_errors'].append(r['import_error'])
            continue
        m['cases'] += r['cases']
        m['judged'] += r['judged']
        m['ambiguous'] += r['ambiguous']
        m['counters'].update(r['counters'])
        m['hashes'].update(r['nontrivial_hashes'])
        for s in r['samples']:
            lane = s.get('lane')
            if lane not in seen_lanes and len(m['samples']) < 12:
                seen_lanes.add(lane)
                m['samples'].append(s)
        m['violations'].extend(r['violations'])
        m['violation_counts'].update(r['violation_counts'])
        for k, v in r['notes'].items():
            if k.startswith('max:') and isinstance(v, (int, float)):
                m['notes'][k] = max(m['notes'].get(k, v), v)
            elif isinstance(v, list):
                m['notes'].setdefault(k, [])
                m['notes'][k] = (m['notes'][k] + v)[:8]
            elif isinstance(v, bool):
                m['notes'][k] = m['notes'].get(k, True) and v
            elif isinstance(v, (int, float)) and k.startswith('sum:'):
                m['notes'][k] = m['notes'].get(k, 0) + v
            else:
                m['notes'].setdefault(k, v)
        m['stopped_by_time'] += bool(r.get('stopped_by_time'))
        if 'anchors' in r:
            m['anchor_reports'].append(r['anchors'])
    return m


def main(argv):
    prop = argv[0].upper()
    sys.path.insert(0, VERIF)
    os.environ.setdefault('PYTHONHASHSEED', '0')
    mod = importlib.import_module('vmon.checks.' + prop.lower())
    os.makedirs(os.path.join(OUT, 'evidence'), exist_ok=True)
    if len(argv) >= 3 and argv[1] == '--replay':
        return replay(prop, mod, argv[2])
    tier = argv[1] if len(argv) > 1 else os.environ.get('VERIF_TIER', 'quick')
    seed = int(os.environ.get('VERIF_SEED', '0'))
    nshards = int(os.environ.get('VERIF_SHARDS', mod.shards(tier) if hasattr(mod, 'shards') else min(16, os.cpu_count() or 4)))
    budget = float(os.environ.get('VERIF_SHARD_BUDGET_S', mod.budget(tier)))
    t0 = time.time()
    rundir = tempfile.mkdtemp(prefix=f'vmon-{prop}-')
    try:
        results, problems = run_workers(prop, tier, seed, nshards, budget, rundir)
        extra = None
        if hasattr(mod, 'driver_extra'):
            extra = mod.driver_extra(tier, seed, rundir)    # e.g. sanitizer lane
        return conclude(prop, mod, tier, seed, nshards, results, problems, extra, t0)
    finally:
        shutil.rmtree(rundir, ignore_errors=True)


def conclude(prop, mod, tier, seed, nshards, results, problems, extra, t0):
    from vmon import anchors
    m = merge(results)
    known = load_known(prop)
    inconclusive = list(problems)
    if m['import_errors']:
        inconclusive.append('regions failed to import: ' + m['import_errors'][0][:500])
    if m['counters'].get('harness_errors'):
        inconclusive.append(f"{m['counters']['harness_errors']} harness errors (see evidence notes)")
    if extra and extra.get('inconclusive'):
        inconclusive.extend(extra['inconclusive'])
    # per-check sanity: monitors that must have been reached
    if hasattr(mod, 'required_counters') and not m['import_errors']:
        for name, minimum in mod.required_counters(tier).items():
            if m['counters'].get(name, 0) < minimum:
                inconclusive.append(f'monitor counter {name}={m["counters"].get(name, 0)} < {minimum}: deciding monitor not reached')
    anchor_rep = anchors.merge_reports(m['anchor_reports'])
    if not m['import_errors'] and results:
        for a in anchor_rep:
            if a['python_ranges'] and a['lines_reached'] == 0 and a['mechanism'] not in getattr(mod, 'ANCHORS_NOT_DRIVEN', ()):
                inconclusive.append(f"anchored mechanism never executed: {a['mechanism']}")

    # violations
    new_violation_files = []
    known_hit = {}
    repdir = os.path.join(OUT, 'replays', prop)
    viol_all = list(m['violations'])
    if extra and extra.get('violations'):
        viol_all.extend(extra['violations'])
        for v in extra['violations']:
            m['violation_counts'][v['key']] += 1
    n_new = 0
    for key, n in sorted(m['violation_counts'].items()):
        if key in known:
            known_hit[key] = n
        else:
            n_new += n
    written = set()
    for v in viol_all:
        if v['key'] in known:
            continue
        if v['key'] in written and len(written) > 40:
            continue
        os.makedirs(repdir, exist_ok=True)
        from vmon.obs import jhash
        path = os.path.join(repdir, f"{v['key']}-{jhash(v['case'])}.json")
        if path not in new_violation_files:
            json.dump(v, open(path, 'w'), indent=1, default=repr)
            new_violation_files.append(path)
        written.add(v['key'])
        if len(new_violation_files) >= 25:
            break

    wall = time.time() - t0
    coverage = {
        'evaluations': int(m['cases']),
        'distinct_nontrivial': len(m['hashes']),
        'rule': mod.RULE,
        'samples': m['samples'][:8] or [{'none': True}],
        'judged_assertions': int(m['judged']),
        'ambiguous_skipped': int(m['ambiguous']),
        'monitor_counters': dict(sorted(m['counters'].items())),
        'measured': m['notes'],
        'anchors_reached': anchor_rep,
        'shards': nshards,
        'shards_stopped_by_time_budget': m['stopped_by_time'],
        'known_findings_observed': known_hit,
        'new_violation_keys': {k: n for k, n in m['violation_counts'].items() if k not in known},
        'inconclusive_reasons': inconclusive,
        'exhaustive': bool(getattr(mod, 'EXHAUSTIVE', False)) and not m['stopped_by_time'],
    }
    if extra:
        coverage['extra_lanes'] = extra.get('report', {})
    ev = {
        'property_id': prop, 'tier': tier if tier in ('quick', 'thorough') else 'quick',
        'seed': seed, 'level': mod.LEVEL,
        'coverage': coverage,
        'assumptions': list(getattr(mod, 'ASSUMPTIONS', [])),
        'wall_s': round(wall, 2),
        'violations': int(n_new),
    }
    json.dump(ev, open(os.path.join(OUT, 'evidence', f'{prop}.json'), 'w'), indent=1, default=repr)

    for key, text in known.items():
        n = known_hit.get(key, 0)
        print(f'KNOWN-FINDING: property={prop} key={key} {text} [observed {n}x in this run]')
    print(f'{prop} {tier} seed={seed}: cases={m["cases"]} distinct_nontrivial={len(m["hashes"])} '
          f'judged={m["judged"]} ambiguous_skipped={m["ambiguous"]} wall={wall:.1f}s')
    if n_new:
        for k, n in sorted(coverage['new_violation_keys'].items()):
            ex = next((v for v in viol_all if v['key'] == k), None)
            print(f'  violated: key={k} n={n} e.g. {ex["msg"][:300] if ex else ""}')
        for path in new_violation_files[:10]:
            print(f'VIOLATION property={prop} replay={path}')
        return 1
    if inconclusive:
        for r in inconclusive:
            print(f'INCONCLUSIVE property={prop}: {r[:600]}')
        return 2
    print(f'HELD property={prop} on everything observed')
    return 0


def replay(prop, mod, path):
    rundir = tempfile.mkdtemp(prefix=f'vmon-replay-{prop}-')
    try:
        out = os.path.join(rundir, 'out.json')
        p = subprocess.run([PY, '-m', 'vmon.worker', prop, '--replay', path, out], cwd=VERIF,
                           env=worker_env(), timeout=1800)
        if not os.path.exists(out):
            print(f'INCONCLUSIVE property={prop}: replay worker produced no result (rc={p.returncode})')
            return 2
        r = json.load(open(out))
        if 'import_error' in r:
            print(f'INCONCLUSIVE property={prop}: {r["import_error"][:400]}')
            return 2
        known = load_known(prop)
        bad = [v for v in r['violations'] if v['key'] not in known]
        for v in r['violations']:
            tag = 'KNOWN-FINDING:' if v['key'] in known else '  violated:'
            print(f"{tag} property={prop} key={v['key']} {v['msg'][:400]}")
        if r['counters'].get('harness_errors'):
            print(f'INCONCLUSIVE property={prop}: harness error during replay: '
                  f'{r["notes"].get("harness_error_samples", [{}])[0].get("traceback", "")[-800:]}')
            return 2
        if bad:
            print(f'VIOLATION property={prop} replay={path}')
            return 1
        print(f'replay: no violation reproduced (judged={r["judged"]})')
        return 0
    finally:
        shutil.rmtree(rundir, ignore_errors=True)


if __name__ == '__main__':
    sys.exit(main(sys.argv[1:]))
