"""Observer: collects what the monitors saw in one worker process.

A *case* is a JSON-able dict produced by a generator.  While a case runs,
monitors and oracles call ``obs.ok()`` for every judged assertion,
``obs.skip()`` for observations inside the ambiguity band, and
``obs.violation(key, msg, **detail)`` for a refuted assertion.  ``key`` is a
*mechanism* key decided by classifier code (never a hash or a random value);
it is what KNOWN_FINDINGS.txt entries are matched against.
"""
import hashlib
import json
import time
from collections import Counter


def jhash(obj):
    s = json.dumps(obj, sort_keys=True, default=repr)
    return hashlib.blake2b(s.encode(), digest_size=8).hexdigest()


class Observer:
    MAX_VIOLATIONS = 200      # kept with full detail
    MAX_SAMPLES = 12

    def __init__(self, prop, tier, seed, shard):
        self.prop = prop
        self.tier = tier
        self.seed = seed
        self.shard = shard
        self.counters = Counter()      # named monitor / lane counters
        self.judged = 0
        self.ambiguous = 0
        self.cases = 0
        self.nontrivial_hashes = set()
        self.samples = {}              # lane -> first case
        self.violations = []           # dicts
        self.violation_counts = Counter()   # key -> n
        self.case = None
        self._case_judged = 0
        self.t0 = time.time()
        self.notes = {}                # free-form measured facts
        self.stopped_by_time = False

    # -- case bracket ----------------------------------------------------
    def begin(self, case):
        self.case = case
        self._case_judged = 0
        self.cases += 1
        lane = case.get('lane', '?')
        self.counters['lane:' + lane] += 1
        if lane not in self.samples and len(self.samples) < self.MAX_SAMPLES:
            self.samples[lane] = case

    def end(self):
        if self._case_judged > 0:
            self.nontrivial_hashes.add(jhash(self.case))
        self.case = None

    # -- assertions ------------------------------------------------------
    def ok(self, n=1, what=None):
        n = int(n)
        self.judged += n
        self._case_judged += n
        if what:
            self.counters['judged:' + what] += n

    def skip(self, n=1, what=None):
        self.ambiguous += int(n)
        if what:
            self.counters['ambiguous:' + what] += int(n)

    def count(self, name, n=1):
        self.counters[name] += int(n)

    def note(self, name, value):
        self.notes[name] = value

    def note_max(self, name, value):
        if value is None:
            return
        value = float(value)
        if name not in self.notes or value > self.notes[name]:
            self.notes[name] = value

    def violation(self, key, msg, **detail):
        """Record a refuted assertion.  Also counts as judged."""
        self.judged += 1
        self._case_judged += 1
        self.violation_counts[key] += 1
        if self.violation_counts[key] <= 4 and len(self.violations) < self.MAX_VIOLATIONS:
            self.violations.append({
                'property': self.prop, 'key': key, 'msg': str(msg)[:2000],
                'detail': _jsonable(detail), 'case': self.case})

    def check(self, cond, key, msg, what=None, **detail):
        """Judge one assertion: ok when cond holds, violation otherwise."""
        if cond:
            self.ok(1, what)
            return True
        self.violation(key, msg, **detail)
        return False

    # -- result ----------------------------------------------------------
    def result(self):
        return {
            'property': self.prop, 'tier': self.tier, 'seed': self.seed,
            'shard': self.shard, 'cases': self.cases, 'judged': self.judged,
            'ambiguous': self.ambiguous,
            'counters': dict(self.counters),
            'nontrivial_hashes': sorted(self.nontrivial_hashes),
            'samples': list(self.samples.values()),
            'violations': self.violations,
            'violation_counts': dict(self.violation_counts),
            'notes': self.notes,
            'stopped_by_time': self.stopped_by_time,
            'wall_s': time.time() - self.t0,
        }


def _jsonable(o):
    try:
        json.dumps(o)
        return o
    except Exception:
        pass
    if isinstance(o, dict):
        return {str(k): _jsonable(v) for k, v in o.items()}
    if isinstance(o, (list, tuple)):
        return [_jsonable(v) for v in o]
    try:
        import numpy as np
        if isinstance(o, np.ndarray):
            if o.size <= 64:
                return {'ndarray': o.tolist(), 'dtype': str(o.dtype)}
            return {'ndarray_shape': list(o.shape), 'dtype': str(o.dtype)}
        if isinstance(o, np.generic):
            return o.item()
    except Exception:
        pass
    return repr(o)[:500]
