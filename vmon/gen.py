"""Seeded generators of region / coordinate / WCS specs (see vmon.spec)."""
import math

from vmon import spec as S

ANGLE_UNITS = ['deg', 'rad', 'arcmin', 'arcsec', 'hourangle']
_PER_DEG = {'deg': 1.0, 'rad': math.pi / 180.0, 'arcmin': 60.0, 'arcsec': 3600.0, 'hourangle': 1.0 / 15.0}

SIMPLE_PIX = ['CirclePixelRegion', 'EllipsePixelRegion', 'RectanglePixelRegion', 'PolygonPixelRegion',
              'RegularPolygonPixelRegion']
ANNULI_PIX = ['CircleAnnulusPixelRegion', 'EllipseAnnulusPixelRegion', 'RectangleAnnulusPixelRegion']
EMPTY_PIX = ['PointPixelRegion', 'LinePixelRegion', 'TextPixelRegion']
ALL_PIX = SIMPLE_PIX + ANNULI_PIX + EMPTY_PIX
MASKABLE = SIMPLE_PIX + ANNULI_PIX

INCLUDE_CHOICES = ['absent', True, False, 1, 0]


def logu(rng, lo, hi):
    return math.exp(rng.uniform(math.log(lo), math.log(hi)))


def dyadic(rng, lo, hi, bits=4):
    """random multiple of 2**-bits in [lo, hi]."""
    q = 2 ** bits
    return rng.randint(int(math.ceil(lo * q)), int(math.floor(hi * q))) / q


def angle_spec(rng, kind=None):
    """Angle quantity spec; any magnitude, sign, unit; Quantity or Angle."""
    kind = kind or rng.choice(['uniform', 'uniform', 'uniform', 'mult90', 'mult45', 'huge', 'zero', 'tiny'])
    if kind == 'uniform':
        deg = rng.uniform(-720, 720)
    elif kind == 'mult90':
        deg = 90.0 * rng.randint(-8, 8)
    elif kind == 'mult45':
        deg = 45.0 * rng.randint(-16, 16)
    elif kind == 'huge':
        deg = rng.uniform(-1e5, 1e5)
    elif kind == 'zero':
        deg = 0.0
    else:
        deg = rng.uniform(-1e-3, 1e-3)
    unit = rng.choice(ANGLE_UNITS)
    v = deg * _PER_DEG[unit]
    if unit == 'deg':
        v = deg
    return S.q(v, unit, angle=rng.random() < 0.3)


def center_xy(rng, L, kind=None):
    kind = kind or rng.choice(['zero', 'near', 'near', 'near', 'far', 'neg', 'halfint', 'int', 'veryfar'])
    if kind == 'veryfar':          # shape tiny compared with its distance from the origin (relative tolerances bite here)
        return rng.choice([-1, 1]) * 3e6 * L * rng.uniform(0.5, 2), rng.choice([-1, 1]) * 3e6 * L * rng.uniform(0.5, 2)
    if kind == 'ultrafar':         # 1e12..1e14 sizes away from the origin: positions are still resolved to ~L/100, offsets are exact
        return (rng.choice([-1, 1]) * L * 2.0 ** rng.randint(40, 46) * rng.uniform(0.5, 1),
                rng.choice([-1, 1]) * L * 2.0 ** rng.randint(40, 46) * rng.uniform(0.5, 1))
    if kind == 'zero':
        return 0.0, 0.0
    if kind == 'near':
        return rng.uniform(-3, 3) * L, rng.uniform(-3, 3) * L
    if kind == 'far':
        return rng.choice([-1, 1]) * 1e4 * L * rng.uniform(0.5, 2), rng.choice([-1, 1]) * 1e4 * L * rng.uniform(0.5, 2)
    if kind == 'neg':
        return -abs(rng.uniform(1, 50) * L), -abs(rng.uniform(1, 50) * L)
    if kind == 'halfint':
        return rng.randint(-50, 50) + 0.5, rng.randint(-50, 50) + 0.5
    if rng.random() < 0.5:
        return rng.randint(-50, 50), rng.randint(-50, 50)          # genuine Python ints (integer arithmetic with int queries)
    return float(rng.randint(-50, 50)), float(rng.randint(-50, 50))


def meta_with_include(rng, include=None):
    inc = rng.choice(INCLUDE_CHOICES) if include is None else include
    if inc == 'absent':
        return None if rng.random() < 0.5 else {}
    return {'include': inc}


# ---------------------------------------------------------------------------
def polygon_vertices(rng, L, cx, cy, kind=None):
    kind = kind or rng.choice(['convex', 'star', 'star', 'random', 'bowtie', 'pentagram', 'repeat', 'collinear',
                               'rectilinear', 'triangle', 'keyhole', 'hourglass', 'balanced', 'parallelogram', 'flat', 'diagonal-ends'])
    if kind == 'triangle':
        n = 3
        pts = [(rng.uniform(-1, 1), rng.uniform(-1, 1)) for _ in range(n)]
    elif kind == 'convex':
        n = rng.randint(3, 20)
        angs = sorted(rng.uniform(0, 2 * math.pi) for _ in range(n))
        a, b = rng.uniform(0.2, 1), rng.uniform(0.2, 1)
        pts = [(a * math.cos(t), b * math.sin(t)) for t in angs]
    elif kind == 'starsafe':        # star-shaped w.r.t. the centre (angular gaps < 180 deg): always a simple polygon
        n = rng.randint(5, 24)
        angs = [2 * math.pi * (k + rng.uniform(-0.4, 0.4)) / n for k in range(n)]
        pts = [(r * math.cos(t), r * math.sin(t)) for t in angs for r in [rng.uniform(0.3, 1)]]
    elif kind == 'star':
        n = rng.randint(4, 40)
        angs = sorted(rng.uniform(0, 2 * math.pi) for _ in range(n))
        pts = [(r * math.cos(t), r * math.sin(t)) for t in angs for r in [rng.uniform(0.15, 1)]]
    elif kind == 'random':          # generally self-intersecting
        n = rng.randint(4, 12)
        pts = [(rng.uniform(-1, 1), rng.uniform(-1, 1)) for _ in range(n)]
    elif kind == 'bowtie':
        pts = [(-1, -1), (1, 1), (1, -1), (-1, 1)]
        pts = [(x * rng.uniform(0.5, 1), y * rng.uniform(0.5, 1)) for x, y in pts]
    elif kind == 'pentagram':
        k = rng.choice([5, 7, 9])
        step = rng.choice([2, 3]) if k > 5 else 2
        pts = [(math.cos(2 * math.pi * ((i * step) % k) / k + 0.3), math.sin(2 * math.pi * ((i * step) % k) / k + 0.3))
               for i in range(k)]
    elif kind == 'repeat':
        base = [(rng.uniform(-1, 1), rng.uniform(-1, 1)) for _ in range(rng.randint(3, 6))]
        pts = []
        for p in base:
            pts.append(p)
            if rng.random() < 0.5:
                pts.append(p)
    elif kind == 'keyhole':
        # an outer ring and a hole ring joined by a zero-width bridge: the outline legitimately visits two vertices twice
        n, m = rng.randint(4, 9), rng.randint(3, 7)
        ro, ri, t0 = rng.uniform(0.7, 1), rng.uniform(0.15, 0.45), rng.uniform(0, 2 * math.pi)
        outer = [(ro * math.cos(t0 + 2 * math.pi * k / n), ro * math.sin(t0 + 2 * math.pi * k / n)) for k in range(n)]
        hole = [(ri * math.cos(t0 - 2 * math.pi * k / m), ri * math.sin(t0 - 2 * math.pi * k / m)) for k in range(m)]
        pts = outer + [outer[0]] + hole + [hole[0]]
    elif kind == 'hourglass':
        # two triangles that touch in one shared vertex, which is listed twice (not consecutively)
        a = rng.uniform(0.3, 1)
        tip = (rng.uniform(-0.2, 0.2), rng.uniform(-0.2, 0.2))
        pts = [tip, (-a, -1), (a, -1), tip, (rng.uniform(0.3, 1), 1), (-rng.uniform(0.3, 1), 1)]
    elif kind == 'balanced':
        # self-intersecting outlines whose two lobes have equal area and opposite orientation: the signed (shoelace) area is
        # exactly zero although the even-odd interior is not empty.  Dyadic coordinates keep the cancellation exact.
        a, b = rng.choice([0.25, 0.5, 0.75, 1.0]), rng.choice([0.25, 0.5, 1.0])
        pts = rng.choice([[(-a, -b), (a, b), (a, -b), (-a, b)], [(-a, -b), (a, -b), (-a, b), (a, b)]])
        L = float(2 ** round(math.log2(max(L, 1e-3))))
        cx, cy = (float(round(cx)), float(round(cy))) if abs(cx) < 1e9 and abs(cy) < 1e9 else (cx, cy)
    elif kind == 'parallelogram':
        # a sheared box on dyadic coordinates: opposite edges are bit-identical vectors, the corners are not right angles
        e1 = (rng.choice([0.5, 0.75, 1.0]), rng.choice([-0.25, 0.0, 0.125, 0.25]))
        e2 = (rng.choice([-0.5, -0.25, 0.25, 0.5]), rng.choice([0.5, 0.75, 1.0]))
        p0 = (-0.5 * (e1[0] + e2[0]), -0.5 * (e1[1] + e2[1]))
        pts = [p0, (p0[0] + e1[0], p0[1] + e1[1]), (p0[0] + e1[0] + e2[0], p0[1] + e1[1] + e2[1]), (p0[0] + e2[0], p0[1] + e2[1])]
        L = float(2 ** round(math.log2(max(L, 1e-3))))
        cx, cy = (round(cx * 8) / 8, round(cy * 8) / 8) if abs(cx) < 1e9 and abs(cy) < 1e9 else (cx, cy)
    elif kind == 'flat':
        # all vertices on one vertical or horizontal line (zero area): on a pixel edge, inside a pixel, or on pixel centres
        ts = [rng.uniform(-1, 1) for _ in range(rng.randint(3, 6))]
        vertical = rng.random() < 0.5
        pts = [(0.0, t) if vertical else (t, 0.0) for t in ts]
        if abs(cx) < 1e9 and abs(cy) < 1e9:
            off = rng.choice([0.5, 0.5, -0.5, 0.7, 0.2, 0.0])
            cx, cy = (float(round(cx)) + off, cy) if vertical else (cx, float(round(cy)) + off)
    elif kind == 'diagonal-ends':
        # first and last vertex both exactly on the line y = x (x_first = y_first, x_last = y_last), the last one an extreme of the shape
        n = rng.randint(4, 9)
        angs = sorted(rng.uniform(0.3, 2 * math.pi - 0.3) for _ in range(n - 2))
        p, q = rng.uniform(-0.6, 0.2), 1.0
        pts = [(p, p)] + [(0.8 * math.cos(t + math.pi / 4) * rng.uniform(0.5, 1), 0.8 * math.sin(t + math.pi / 4) * rng.uniform(0.5, 1)) for t in angs] + [(q, q)]
        if abs(cx) < 1e9 and abs(cy) < 1e9:
            cy = cx
        xs = [cx + L * 0.5 * pt[0] for pt in pts]
        return xs[:1] + xs[1:-1] + xs[-1:], [xs[0]] + [cy + L * 0.5 * pt[1] for pt in pts[1:-1]] + [xs[-1]]
    elif kind == 'collinear':
        pts = [(-1, -1), (0, -1), (0.5, -1), (1, -1), (1, 0), (1, 1), (0, 1), (-1, 1), (-1, 0.25)]
        pts = pts[:rng.randint(5, len(pts))]
    else:  # rectilinear L-shape
        pts = [(-1, -1), (1, -1), (1, 0), (0, 0), (0, 1), (-1, 1)]
    # vertex order is part of the input: either orientation, any starting vertex
    if rng.random() < 0.5:
        pts = pts[::-1]
    k = rng.randrange(len(pts))
    pts = list(pts[k:]) + list(pts[:k])
    xs = [cx + L * 0.5 * p[0] for p in pts]
    ys = [cy + L * 0.5 * p[1] for p in pts]
    return xs, ys


def typed_size(rng, v, ints=True):
    """the same size as a Python float, or (25 %) as another scalar type the API accepts."""
    import numpy as np
    if rng.random() >= 0.25:
        return v
    kind = rng.choice(['float32', 'float64', 'int', 'int64', 'int32'] if (ints and v >= 3) else ['float32', 'float64'])
    if kind == 'float32':
        return {'np': 'float32', 'v': float(np.float32(v))}
    if kind == 'float64':
        return {'np': 'float64', 'v': float(v)}
    if kind == 'int':
        return int(v)
    return {'np': kind, 'v': int(v)}


def pixel_region_spec(rng, cls=None, size=None, center=None, include=None, angle=None, classes=None,
                      max_aspect=1000.0, size_range=(1e-3, 1e6), poly_kind=None, meta_extra=None):
    """Spec of one random pixel region (simple shape, annulus, point/line/text)."""
    cls = cls or rng.choice(classes or ALL_PIX)
    L = size if size is not None else logu(rng, *size_range)
    cx, cy = center if center is not None else center_xy(rng, L)
    meta = meta_with_include(rng, include)
    if meta_extra:
        meta = dict(meta or {})
        meta.update(meta_extra)
    ang = angle if angle is not None else angle_spec(rng)
    asp = logu(rng, 1.0, max_aspect) if rng.random() < 0.7 else 1.0
    if rng.random() < 0.5:
        w, h = L, L / asp
    else:
        w, h = L / asp, L
    if rng.random() < 0.08:
        w = h = L                 # exactly equal axes: a square / a circular ellipse (rotation still matters for the square)
    c = S.pix(cx, cy)
    if cls == 'CirclePixelRegion':
        if isinstance(cx, int) and L >= 4 and rng.random() < 0.5:
            return S.reg(cls, meta=meta, center=c, radius=int(L / 2))        # integer radius with integer centre
        return S.reg(cls, meta=meta, center=c, radius=typed_size(rng, L / 2))
    if cls in ('EllipsePixelRegion', 'RectanglePixelRegion'):
        return S.reg(cls, meta=meta, center=c, width=typed_size(rng, w), height=typed_size(rng, h), angle=ang)
    if cls == 'PolygonPixelRegion':
        xs, ys = polygon_vertices(rng, L, cx, cy, poly_kind)
        if L >= 8 and abs(cx) < 1e6 and rng.random() < 0.15:
            # integer-dtype vertices
            vx = {'a': [int(round(x)) for x in xs], 'dt': rng.choice(['int64', 'int64', 'int32']), 'sh': [len(xs)]}
            vy = {'a': [int(round(y)) for y in ys], 'dt': 'int64', 'sh': [len(ys)]}
            mix = rng.random()
            if mix < 0.2:
                vy = S.arr_spec(ys)            # the two coordinate arrays are typed independently: integer x, fractional y ...
            elif mix < 0.4:
                vx = S.arr_spec(xs)            # ... or the other way round
            return S.reg(cls, meta=meta, vertices=S.pix(vx, vy))
        if rng.random() < 0.3:
            # vertices given relative to an origin (constructor option)
            ox, oy = cx + rng.uniform(-1, 1) * L, cy + rng.uniform(-1, 1) * L
            if rng.random() < 0.5:
                ox, oy = float(round(ox)), float(round(oy)) + 0.5
            return S.reg(cls, meta=meta, vertices=S.pix(S.arr_spec([x - ox for x in xs]), S.arr_spec([y - oy for y in ys])),
                         origin=S.pix(ox, oy))
        vx, vy = S.arr_spec(xs), S.arr_spec(ys)
        if rng.random() < 0.2:
            # the vertex arrays as views / read-only arrays (strides and flags are not part of a polygon's value)
            vx['lay'] = rng.choice(['strided', 'neg', 'readonly'])
            vy['lay'] = rng.choice(['strided', 'neg', 'readonly', None]) or vx['lay']
        return S.reg(cls, meta=meta, vertices=S.pix(vx, vy))
    if cls == 'RegularPolygonPixelRegion':
        return S.reg(cls, meta=meta, center=c, nvertices=rng.randint(3, 12), radius=L / 2, angle=ang)
    if cls == 'CircleAnnulusPixelRegion':
        f = rng.uniform(0.05, 0.95)
        return S.reg(cls, meta=meta, center=c, inner_radius=typed_size(rng, f * L / 2, ints=False), outer_radius=typed_size(rng, L / 2, ints=False))
    if cls in ('EllipseAnnulusPixelRegion', 'RectangleAnnulusPixelRegion'):
        f1, f2 = rng.uniform(0.05, 0.95), rng.uniform(0.05, 0.95)
        if rng.random() < 0.15:
            f1 = f2 = rng.choice([0.25, 0.5, 0.75])          # a hole exactly similar to the outline (dyadic factor: the proportion is exact)
        return S.reg(cls, meta=meta, center=c, inner_width=f1 * w, outer_width=w, inner_height=f2 * h,
                     outer_height=h, angle=ang)
    if cls == 'PointPixelRegion':
        return S.reg(cls, meta=meta, center=c)
    if cls == 'TextPixelRegion':
        return S.reg(cls, meta=meta, center=c, text=rng.choice(['hello', 'a b', '', 'x;y#z=1']))
    if cls == 'LinePixelRegion':
        if rng.random() < 0.06:
            return S.reg(cls, meta=meta, start=c, end=S.pix(cx, cy))          # a line of no extent (both end points on one position)
        return S.reg(cls, meta=meta, start=c, end=S.pix(cx + rng.uniform(-1, 1) * L, cy + rng.uniform(-1, 1) * L))
    raise ValueError(cls)


def _num(v):
    return v['v'] if isinstance(v, dict) else v


def _half_size(spec):
    """half of the largest size parameter of a leaf spec (0 if it has none)."""
    p = spec['p']
    vals = [_num(p[k]) * (1.0 if 'radius' in k else 0.5) for k in p if k in ('radius', 'width', 'height') or k.startswith('outer_')]
    return float(max(vals)) if vals else 0.0


def graze(rng, r1, r2):
    """grazing operands: the second is moved by whole pixels until the integer boxes of the two share exactly one column or
    row of pixels (sometimes none, sometimes two), level with each other on the other axis.  Returns the moved r2 (or r2)."""
    if not ('center' in r1['p'] and 'center' in r2['p'] and r1['cls'] != 'CompoundPixelRegion' and r2['cls'] != 'CompoundPixelRegion'
            and not isinstance(r1['p']['center']['x'], dict) and not isinstance(r2['p']['center']['x'], dict)):
        return r2
    import copy
    try:
        b1, b2 = S.build(r1).bounding_box, S.build(r2).bounding_box
    except Exception:
        return r2
    if not (b1.shape[0] and b1.shape[1] and b2.shape[0] and b2.shape[1]):
        return r2
    n = rng.choice([1, 1, 1, 0, 2])
    side = rng.choice([-1, 1])
    c2 = r2['p']['center']
    dx = (b1.ixmax - n - b2.ixmin) if side > 0 else (b1.ixmin + n - b2.ixmax)
    dy = ((b1.iymin + b1.iymax) - (b2.iymin + b2.iymax)) // 2
    if rng.random() < 0.5:
        dy = (b1.iymax - n - b2.iymin) if side > 0 else (b1.iymin + n - b2.iymax)
        dx = ((b1.ixmin + b1.ixmax) - (b2.ixmin + b2.ixmax)) // 2
    r2 = copy.deepcopy(r2)
    r2['p']['center'] = S.pix(c2['x'] + int(dx), c2['y'] + int(dy))
    return r2


def compound_spec(rng, depth, leaf, include=None):
    """Random expression tree over leaf() specs with and/or/xor."""
    if depth <= 0 or rng.random() < 0.25:
        return leaf()
    op = rng.choice(['and', 'or', 'xor'])
    if rng.random() < 0.2:
        # the same set operation given as another callable (NumPy logical/bitwise function, plain Python function)
        op = rng.choice({'and': ['np_and', 'bit_and', 'fn_and'], 'or': ['np_or', 'bit_or', 'fn_or'], 'xor': ['np_xor', 'bit_xor']}[op])
    r1 = compound_spec(rng, depth - 1, leaf)
    r2 = compound_spec(rng, depth - 1, leaf)
    k = rng.random()
    if k < 0.08:
        # an operand combined with (an equal copy of) itself: A ^ A is empty, A | A and A & A are A
        import copy
        r2 = copy.deepcopy(r1)
    elif 0.2 <= k < 0.3 and 'center' in r1['p'] and 'center' in r2['p'] and _half_size(r1) and _half_size(r2):
        # the box of one operand inside (a corner of) the box of the other although the regions are not nested: a small shape
        # in the empty corner of the other's box, or in the hole of an annulus
        import copy
        h1, h2 = _half_size(r1), _half_size(r2)
        r2 = copy.deepcopy(r2)
        f = 0.1 * h1 / h2
        for key, v in list(r2['p'].items()):
            if key in ('radius', 'width', 'height') or key.startswith(('inner_', 'outer_')):
                r2['p'][key] = (dict(v, v=(max(1, int(v['v'] * f)) if 'int' in v['np'] else v['v'] * f)) if isinstance(v, dict) else
                                (max(1, int(v * f)) if isinstance(v, int) else v * f))
        c1 = r1['p']['center']
        if not isinstance(c1['x'], dict):
            place = rng.choice(['corner', 'corner', 'centre'])
            d = 0.82 * h1 if place == 'corner' else 0.0
            r2['p']['center'] = S.pix(float(c1['x']) + rng.choice([-1, 1]) * d, float(c1['y']) + rng.choice([-1, 1]) * d)
        if rng.random() < 0.5:
            r1, r2 = r2, r1
    elif 0.3 <= k < 0.4:
        r2 = graze(rng, r1, r2)
    elif k < 0.2 and 'center' in r1['p'] and 'center' in r2['p']:
        # concentric operands, in either order (hole first or outline first), also crossed shapes
        import copy
        r2 = copy.deepcopy(r2)
        r2['p']['center'] = copy.deepcopy(r1['p']['center'])
    d = S.reg('CompoundPixelRegion', region1=r1, region2=r2, operator=op)
    inc = rng.choice(['inherit', 'inherit', True, False, 0, 1]) if include is None else include
    if inc != 'inherit':
        d['meta'] = {'include': inc}
    return d


# ---------------------------------------------------------------------------
# WCS family
def wcs_spec(rng, proj=None, parity=None, frame=None, scale=None, crval=None, conformal=False, form=None):
    proj = proj or rng.choice(['TAN', 'SIN'] if conformal else ['TAN', 'SIN', 'CAR'])
    frame = frame or rng.choice(['icrs', 'fk5', 'galactic'] if conformal else ['icrs', 'fk5', 'fk4', 'galactic'])
    if scale is None:
        scale = logu(rng, 1e-5, 1e-2) if conformal else logu(rng, 0.01 / 3600, 0.1)
    rot = math.radians(rng.uniform(-180, 180))
    exact_rot = rng.random() < 0.15          # exactly axis-aligned CD matrices (zero off-diagonal terms) are a common special case
    if parity is None:
        parity = -1 if conformal else rng.choice([-1, -1, 1])
    # CD matrix: standard parity has det < 0 (lon increases to the left)
    c, s = math.cos(rot), math.sin(rot)
    if exact_rot:
        c, s = rng.choice([(1.0, 0.0), (1.0, 0.0), (0.0, 1.0), (-1.0, 0.0), (0.0, -1.0)])
        rot = math.atan2(s, c)
    cd = [[parity * scale * c, -scale * s], [parity * scale * s, scale * c]]
    if crval is None:
        latmax = 85 if conformal else 80
        # longitudes at the 0/360 wrap and at 180 deg are ordinary places on the sky
        lon0 = rng.choice([rng.uniform(0, 360), rng.uniform(0, 360), 0.0, 359.99999, 180.0, 1e-4])
        if proj == 'CAR':
            # mostly the ordinary plate carree (reference point on the equator), sometimes an oblique one
            crval = (lon0, 0.0 if rng.random() < 0.6 else rng.uniform(-60, 60))
        else:
            crval = (lon0, rng.choice([rng.uniform(-latmax, latmax), rng.uniform(-latmax, latmax), 0.0, latmax, -latmax]))
    if frame == 'galactic':
        ct = ('GLON-' + proj, 'GLAT-' + proj)
    else:
        ct = ('RA---' + proj, 'DEC--' + proj)
    hdr = {'NAXIS': 2, 'CTYPE1': ct[0], 'CTYPE2': ct[1], 'CRVAL1': crval[0], 'CRVAL2': crval[1],
           'CRPIX1': rng.uniform(0, 500), 'CRPIX2': rng.uniform(0, 500),
           'CD1_1': cd[0][0], 'CD1_2': cd[0][1], 'CD2_1': cd[1][0], 'CD2_2': cd[1][1],
           'CUNIT1': 'deg', 'CUNIT2': 'deg'}
    # the same linear transformation can be written three ways in a header: a CD matrix, PC + signed CDELT (the
    # classic East-left CDELT1 < 0), or PC = CD with unit CDELT (what WCS.to_header() writes for a CD-matrix WCS)
    if rng.random() < 0.3:
        # a header that also gives the image size (WCS.pixel_shape is then set); the reference pixel lies inside the image
        hdr['NAXIS1'] = int(hdr['CRPIX1']) + rng.randint(1, 600)
        hdr['NAXIS2'] = int(hdr['CRPIX2']) + rng.randint(1, 600)
    form = form or rng.choice(['cd', 'cd', 'cd', 'pc-signed-cdelt', 'pc-unit-cdelt'])
    if form != 'cd':
        for k in ('CD1_1', 'CD1_2', 'CD2_1', 'CD2_2'):
            del hdr[k]
        d1, d2 = (-scale, scale) if form == 'pc-signed-cdelt' else (1.0, 1.0)
        hdr.update({'CDELT1': d1, 'CDELT2': d2, 'PC1_1': cd[0][0] / d1, 'PC1_2': cd[0][1] / d1,
                    'PC2_1': cd[1][0] / d2, 'PC2_2': cd[1][1] / d2})
    if frame == 'icrs':
        hdr['RADESYS'] = 'ICRS'
    elif frame == 'fk5':
        hdr['RADESYS'] = 'FK5'
        # FK5 positions carry an equinox: not only the default one
        hdr['EQUINOX'] = rng.choice([2000.0, 2000.0, 1975.0, 2015.5])
    elif frame == 'fk4':
        hdr['RADESYS'] = 'FK4'
        hdr['EQUINOX'] = 1950.0
    return {'t': 'wcs', 'hdr': hdr, 'frame': frame, 'proj': proj, 'scale': scale, 'parity': parity,
            'rot_deg': math.degrees(rot), 'form': form}


# ---------------------------------------------------------------------------
# sky regions
SKY_SIMPLE = ['CircleSkyRegion', 'EllipseSkyRegion', 'RectangleSkyRegion', 'PolygonSkyRegion']
SKY_ANNULI = ['CircleAnnulusSkyRegion', 'EllipseAnnulusSkyRegion', 'RectangleAnnulusSkyRegion']
SKY_EMPTY = ['PointSkyRegion', 'LineSkyRegion', 'TextSkyRegion']
ALL_SKY = SKY_SIMPLE + SKY_ANNULI + SKY_EMPTY
SKY_FRAMES = ['icrs', 'fk5', 'fk4', 'galactic']
SIZE_UNITS = {'arcsec': 3600.0, 'arcmin': 60.0, 'deg': 1.0}


def sky_size(rng, deg):
    unit = rng.choice(list(SIZE_UNITS))
    return S.q(deg * SIZE_UNITS[unit], unit, angle=rng.random() < 0.3)


def sky_region_spec(rng, cls=None, frame=None, lon=None, lat=None, size_deg=None, include=None, classes=None,
                    meta_extra=None, angle=None):
    cls = cls or rng.choice(classes or ALL_SKY)
    frame = frame or rng.choice(SKY_FRAMES)
    # positions exactly on the equator / prime meridian of their frame are ordinary places on the sky
    lon = rng.choice([rng.uniform(0, 360)] * 7 + [0.0, 180.0]) if lon is None else lon
    lat = rng.choice([rng.uniform(-80, 80)] * 7 + [0.0, 0.0]) if lat is None else lat
    L = size_deg if size_deg is not None else logu(rng, 1e-4, 1.0)
    meta = meta_with_include(rng, include)
    if meta_extra:
        meta = dict(meta or {})
        meta.update(meta_extra)
    ang = angle if angle is not None else angle_spec(rng)
    asp = logu(rng, 1.0, 20.0)
    w, h = (L, L / asp) if rng.random() < 0.5 else (L / asp, L)
    c = S.held(S.sky(lon, lat, frame), rng)
    if cls == 'CircleSkyRegion':
        return S.reg(cls, meta=meta, center=c, radius=sky_size(rng, L / 2))
    if cls in ('EllipseSkyRegion', 'RectangleSkyRegion'):
        return S.reg(cls, meta=meta, center=c, width=sky_size(rng, w), height=sky_size(rng, h), angle=ang)
    if cls == 'PolygonSkyRegion':
        n = rng.randint(3, 9)
        angs = sorted(rng.uniform(0, 2 * math.pi) for _ in range(n))
        cl = max(math.cos(math.radians(lat)), 0.05)
        lons = [lon + 0.5 * L * rng.uniform(0.3, 1) * math.cos(t) / cl for t in angs]
        lats = [max(-89.0, min(89.0, lat + 0.5 * L * rng.uniform(0.3, 1) * math.sin(t))) for t in angs]
        return S.reg(cls, meta=meta, vertices=S.held(S.sky(S.arr_spec(lons), S.arr_spec(lats), frame), rng))
    if cls == 'CircleAnnulusSkyRegion':
        f = rng.uniform(0.1, 0.9)
        return S.reg(cls, meta=meta, center=c, inner_radius=sky_size(rng, f * L / 2), outer_radius=sky_size(rng, L / 2))
    if cls in ('EllipseAnnulusSkyRegion', 'RectangleAnnulusSkyRegion'):
        f1, f2 = rng.uniform(0.1, 0.9), rng.uniform(0.1, 0.9)
        return S.reg(cls, meta=meta, center=c, inner_width=sky_size(rng, f1 * w), outer_width=sky_size(rng, w),
                     inner_height=sky_size(rng, f2 * h), outer_height=sky_size(rng, h), angle=ang)
    if cls == 'PointSkyRegion':
        return S.reg(cls, meta=meta, center=c)
    if cls == 'TextSkyRegion':
        return S.reg(cls, meta=meta, center=c, text=rng.choice(['hello', 'a b', 'x;y#z=1', 'Text']))
    if cls == 'LineSkyRegion':
        cl = max(math.cos(math.radians(lat)), 0.05)
        return S.reg(cls, meta=meta, start=c, end=S.sky(lon + rng.uniform(-1, 1) * L / cl,
                                                        max(-89.0, min(89.0, lat + rng.uniform(-1, 1) * L)), frame))
    raise ValueError(cls)


META_VOCAB = {'label': ['src 1', 'A'], 'tag': [['g1'], ['g1', 'g2'], ['zeta', 'alpha', 'mid']], 'comment': ['hi there'], 'name': ['n1'],
              'frame': ['ICRS'], 'range': [[1, 2]], 'corr': [['I', 'Q']], 'type': ['reg'], 'text': ['some text'],
              'source': [1], 'background': [0], 'select': [1], 'component': [3],
              # the DS9 / CRTF bookkeeping entries of the vocabulary: they describe how a GUI may treat the region and never its geometry
              'rotate': [0, 1], 'edit': [0, 1], 'move': [0, 1], 'delete': [0, 1], 'fixed': [0, 1], 'highlite': [0, 1], 'textrotate': [0, 1],
              'veltype': ['RADIO'], 'restfreq': ['1.42GHz']}
VISUAL_VOCAB = {'color': ['red', '#00ff00', 'blue'], 'linewidth': [1, 2.5], 'fontname': ['helvetica'], 'fontsize': [10, 12],
                'fontweight': ['bold'], 'fontstyle': ['normal', 'italic'], 'symbol': ['circle', 'x'], 'symsize': [11],
                'dashlist': [[8, 3]], 'dash': [1], 'fill': [0, 1], 'textangle': [30.0], 'facecolor': ['green'],
                'edgecolor': ['k'], 'linestyle': ['--'], 'marker': ['+'], 'markersize': [5], 'rotation': [15.0],
                'symthick': [2], 'labelpos': ['top'], 'labelcolor': ['red'], 'markeredgewidth': [1.5], 'textrotate': [0, 1]}


def rich_meta(rng, include=None, nmax=4):
    m = {}
    for k in rng.sample(sorted(META_VOCAB), rng.randint(0, nmax)):
        m[k] = rng.choice(META_VOCAB[k])
    inc = rng.choice(INCLUDE_CHOICES) if include is None else include
    if inc != 'absent':
        m['include'] = inc
    return m


def rich_visual(rng, nmax=4):
    v = {}
    for k in rng.sample(sorted(VISUAL_VOCAB), rng.randint(0, nmax)):
        v[k] = rng.choice(VISUAL_VOCAB[k])
    return v


# ---------------------------------------------------------------------------
# in-place edits of a live region (mutate-then-requery histories)
def mutate_live(region, rng):
    """Assign one new valid value to a live pixel region; returns a label.
    RegularPolygonPixelRegion geometry is left alone (its vertices are derived
    once at construction; reassigning its parameters is outside the checked
    properties), only its meta is replaced."""
    import astropy.units as u
    from regions import PixCoord, RegionMeta
    name = type(region).__name__
    if name == 'CompoundPixelRegion':
        return 'compound:' + mutate_live(region.region1 if rng.random() < 0.5 else region.region2, rng)
    choices = ['meta']
    if name != 'RegularPolygonPixelRegion':
        choices += [p for p in region._params if p != 'text'] * 2
    p = rng.choice(choices)
    if p == 'meta':
        inc = not bool(dict.get(region.meta, 'include', True))
        if rng.random() < 0.5:
            region.meta['include'] = inc          # edited in place ...
            return f'meta[include]={inc} in place'
        region.meta = RegionMeta({'include': inc})      # ... or replaced
        return f'meta include={inc}'
    v = getattr(region, p)
    if isinstance(v, PixCoord):
        if v.isscalar:
            d = rng.uniform(-3, 3)
            if rng.random() < 0.35:
                # a small step (centroid refinement, sub-pixel scan): the new position is the position, however close to the old
                d = rng.choice([-1, 1]) * 10.0 ** rng.uniform(-7, -0.5)
                setattr(region, p, PixCoord(v.x + d, v.y - 0.7 * d))
                return p + ' nudged'
            setattr(region, p, PixCoord(v.x + d * max(1.0, abs(v.x) * 1e-3), v.y - 0.7 * d))
        else:
            import numpy as np
            x, y = np.array(v.x, dtype=float), np.array(v.y, dtype=float)
            cx, cy = x.mean(), y.mean()
            f = rng.uniform(0.5, 1.7)
            setattr(region, p, PixCoord(cx + (x - cx) * f + rng.uniform(-2, 2), cy + (y - cy) / f))
        return p + ' moved'
    if isinstance(v, u.Quantity):
        setattr(region, p, v + (rng.uniform(10, 80) if rng.random() < 0.7 else 10.0 ** rng.uniform(-6, 0)) * u.deg)
        return p + ' turned'
    # sizes: keep annuli ordered
    pairs = {'inner_radius': 'outer_radius', 'inner_width': 'outer_width', 'inner_height': 'outer_height'}
    rev = {b: a for a, b in pairs.items()}
    if p in pairs:
        setattr(region, p, getattr(region, pairs[p]) * rng.uniform(0.1, 0.9))
    elif p in rev:
        setattr(region, p, getattr(region, rev[p]) * rng.uniform(1.2, 3.0))
    else:
        setattr(region, p, v * rng.choice([0.4, 0.7, 1.6, 2.5, 1 + 10.0 ** rng.uniform(-7, -1), 1 - 10.0 ** rng.uniform(-7, -1)]))
    return p + ' resized'
